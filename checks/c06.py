"""C06  No API call order deadlocks; stop()+join() always ends every library thread."""
import os
import sys

sys.path.insert(0, os.path.dirname(os.path.dirname(os.path.abspath(__file__))))
from checks import observer_design, observer_engine as oe  # noqa: E402
from harness import checklib  # noqa: E402


def run(c):
    observer_design.run_design(c, "C06")
    observer_design.run_replay(c, "C06")
    b = 2 if c.thorough else 1
    fams = [("lifecycle", oe.fam_lifecycle(), b),
            ("lifecycle, sets iterating in the opposite order", oe.reversed_orders(oe.fam_lifecycle()[:4] + oe.fam_lifecycle()[9:10]), b)]
    oe.run_families(c, "C06", fams, bound=b, random_n=2000 if c.thorough else 200)
    from checks import c06_real

    c06_real.run_real(c)
    c.cov["rule"] = ("executions of the real BaseObserver under bounded-preemption DFS (b=%d) on lifecycle programs "
                     "(start/schedule/unschedule/unschedule_all/stop x2/join from two threads and from callbacks); the "
                     "scheduler's exact deadlock detection and the thread table after join() are the observations" % b)


if __name__ == "__main__":
    checklib.main_wrapper("C06", run)
