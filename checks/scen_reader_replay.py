"""Spec -> code replay for InotifyPipeline.tla (DESIGN §5.5): walks of the dumped TLC graph are replayed on the REAL
Inotify.read_events against the real kernel.  Driver actions (DMkdir ...) are executed as system calls, RdRead(n) lets
the reader thread read exactly n raw events (os.read seam), RdStep lets it process exactly one raw event (every source
line of read_events is a yield point); after every action the library's watch table (_wd_for_path: path -> wd) is
compared with the model's wfp."""

from __future__ import annotations

import inspect
import os
import shutil
import tempfile

from harness import detsched, loader, replayer, seam as seam_mod, tlagraph


def _paths(node):
    out = {}

    def path(i):
        n = node[i - 1]
        if n["par"] == 0:
            return ("R" if i == 1 else "O", ())
        top, p = path(n["par"])
        return top, p + (n["nm"],)

    for i in range(1, len(node) + 1):
        if node[i - 1]["k"] != "free":
            out[i] = path(i)
    return out


def replay_walk(start_state, walk):
    """walk: [(label, successor state dict)].  Returns None or a mismatch description."""
    w = loader.load()
    th = w.shims["threading"]
    ic = w.mod("observers.inotify_c")
    src, first = inspect.getsourcelines(ic.Inotify.read_events)
    loop_line = first + next(i for i, l in enumerate(src) if "if wd == -1:" in l)
    detsched.enable_line_yields([ic.Inotify.read_events])
    box = {}
    actions = [tlagraph.parse_label(lab) for lab, _ in walk]
    states = [st for _, st in walk]
    prev = [start_state] + states[:-1]

    base = tempfile.mkdtemp(prefix="verif-rr-", dir=os.environ.get("TMPDIR", "/tmp"))
    R = os.path.join(base, "R")
    O = os.path.join(base, "O")
    os.mkdir(R)
    os.mkdir(O)
    P0 = _paths(start_state["node"])
    for i in sorted(P0, key=lambda i: len(P0[i][1])):
        top, p = P0[i]
        if not p:
            continue
        full = os.path.join(R if top == "R" else O, *p)
        if start_state["node"][i - 1]["k"] == "dir":
            os.mkdir(full)
        else:
            open(full, "w").close()

    def fpath(state, i):
        top, p = _paths(state["node"])[i]
        return os.path.join(R if top == "R" else O, *p)

    def env(action, sched):
        name, a = action
        k = box["k"]
        st = prev[k]
        if name in ("DMkdir", "DCreat"):
            p = os.path.join(fpath(st, a[0]), a[1])
            if name == "DMkdir":
                os.mkdir(p)
            else:
                os.close(os.open(p, os.O_CREAT | os.O_WRONLY | os.O_EXCL))
        elif name == "DMakedirs":
            p = os.path.join(fpath(st, a[0]), a[1])
            os.mkdir(p)
            os.mkdir(os.path.join(p, a[2]))
        elif name == "DUnlink":
            os.unlink(fpath(st, a[0]))
        elif name == "DRmdir":
            os.rmdir(fpath(st, a[0]))
        elif name == "DRmtree":
            # bottom-up, back to back, in the model's order (deepest first, then by inode number)
            P = _paths(st["node"])
            root_p = P[a[0]][1]
            sub = [i for i, (top, p) in P.items() if top == "R" and p[: len(root_p)] == root_p]
            for i in sorted(sub, key=lambda i: (-len(P[i][1]), i)):
                full = fpath(st, i)
                if st["node"][i - 1]["k"] == "dir":
                    os.rmdir(full)
                else:
                    os.unlink(full)
        elif name == "DRename":
            os.rename(fpath(st, a[0]), os.path.join(fpath(st, a[1]), a[2]))
        elif name in ("DDrain", "Done"):
            pass
        else:
            raise ValueError(action)

    def program(s):
        sm = seam_mod.Seam(w, split_reads=True, log=False).install()
        sm.drop_dir_noise = True
        box["sm"] = sm
        try:
            ino = ic.Inotify(os.fsencode(R), recursive=True)
            box["ino"] = ino

            def reader():
                while not ino._closed:
                    ino.read_events()

            t = th.Thread(target=reader, name="hreader")
            t.start()
            s.yield_("gate", enabled=lambda: box["st"].done)     # blocked until the replayer has consumed the walk
            ino.close()
            t.join()
        finally:
            sm.cleanup()
            sm.remove()

    def task_of(a):
        return "hreader#1" if a[0] in ("RdRead", "RdStep") else None

    def boundary(t, seen):
        if t.name == "main":
            return t.label == "gate"
        return t.label == "poll" or t.label == f"line:read_events:{loop_line}"

    def chooser(action, n, label):
        return action[1][0] - 1 if action[0] == "RdRead" else n - 1

    def after(k, a, sched):
        box["k"] = k + 1
        box.setdefault("hist", []).append((a[0], len(box["sm"].raw_events), [t.label for t in sched.tasks if t.name.startswith("hreader")]))
        ino = box["ino"]
        root = os.fsencode(R)
        real = {}
        for p, wd in ino._wd_for_path.items():
            rel = () if p == root else tuple(os.fsdecode(p[len(root) + 1:]).split("/"))
            real[rel] = wd
        want = {tuple(p): wd for p, wd in states[k]["wfp"].items()}
        if real != want:
            return {"k": k, "action": a, "expected_wfp": {"/".join(p): v for p, v in want.items()},
                    "actual_wd_for_path": {"/".join(p): v for p, v in real.items()}}
        return None

    box["k"] = 0
    st = replayer.MacroReplay(actions, task_of, boundary, after, chooser=chooser, env=env, max_inner=400)
    box["st"] = st
    try:
        s = detsched.run(program, st)
    finally:
        shutil.rmtree(base, ignore_errors=True)
    if st.mismatch is not None:
        return st.mismatch
    if s.outcome not in ("ok",):
        return {"outcome": s.outcome, "error": s.error or s.divergence, "dl": s.deadlock_info, "hist": box.get("hist"), "k": st.k, "action": actions[min(st.k, len(actions) - 1)]}
    if st.k < len(actions):
        return {"outcome": "short", "k": st.k}
    return None
