"""Shared engine of the observer properties C04, C05, C06, C13: program families, exploration of the real
BaseObserver under the deterministic scheduler, TLC validation against ObserverTrace.tla, attribution of each
failing trace to the property whose clause it breaks."""

from __future__ import annotations

import itertools
import random

from harness import checklib, explore, tlc

SCEN = "checks.scen_observer:obs_program"

CLAUSE_OWNER = {
    "P_C13_EmittersAreScheduledWatches": "C13",
    "P_C13_OneEmitterPerWatch": "C13",
    "P_C13_EmitterAliveIffRunning": "C13",
    "P_C13_RoutesEqualMap": "C13",
    "P_C06_AllExited": "C06",
    "P_C06_NoDeadlock": "C06",
    "P_C07_NoUncaught": "C07",
}


def attribute(trace, furthest):
    """Which property does an unexplainable trace break?  Decided from the first line no placement could explain."""
    if not (0 < furthest <= len(trace)):
        return "C04", "P_C04_Explainable", None
    ln = trace[furthest - 1]
    k = ln["e"]
    if k == "cb":
        h = ln["h"]
        ev = ln["ev"]
        # find the watch of the event
        w = None
        for e in trace[:furthest]:
            if e["e"] == "queued" and e["ev"] == ev:
                w = e["w"]
        # history of calls touching (h, w) before this line
        last_reg = None  # "ok" | "fail"
        removed_after = False
        stack = {}
        for e in trace[: furthest - 1]:
            if e["e"] == "call":
                stack.setdefault(e["t"], []).append(e)
            elif e["e"] == "ret":
                c = stack[e["t"]].pop()
                op = c["op"]
                if op in ("schedule", "add") and c.get("h") == h and c.get("w") == w:
                    last_reg = "ok" if e["ok"] else "fail"
                    if e["ok"]:
                        removed_after = False
                if e["ok"] and ((op == "remove" and c.get("h") == h and c.get("w") == w) or
                                (op == "unschedule" and c.get("w") == w) or op in ("unschedule_all", "stop")):
                    removed_after = True
        if removed_after:
            return "C05", "P_C05_NoCallAfterReturn", ln
        if last_reg == "fail":
            return "C13", "P_C13_FailedScheduleHasNoEffect", ln
        return "C04", "P_C04_OnlyRegisteredExactlyOnceInOrder", ln
    if k == "queued":
        return "C05", "P_C05_EmitterStopped", ln
    if k == "quiescent":
        return "C04", "P_C04_Delivered", ln
    if k == "probe":
        return "C13", "P_C13_Probe", ln
    if k == "ret":
        return "C13", "P_C13_CallOutcomeMatchesMap", ln
    return "C04", "P_C04_Explainable", ln


# ----------------------------------------------------------------------------- program families


def fam_delivery():
    """C04: concurrent registration changes while events flow."""
    return [
        # two handlers on one watch, a third added and one removed by another thread while events flow
        {"threads": {"app1": [["schedule", 1, 1], ["add", 2, 1], ["start"], ["await"], ["stop"], ["join"]],
                     "app2": [["add", 3, 1], ["remove", 3, 1]]},
         "emit": {"1": [1, 2, 3]}},
        # two watches, two emitters, handler shared between watches; identical consecutive events (coalescing)
        {"threads": {"app1": [["schedule", 1, 1], ["schedule", 1, 2], ["schedule", 2, 2], ["start"], ["await"], ["stop"],
                              ["join"]]},
         "emit": {"1": [1, 1, 2], "2": [1, 2, 2]}},
        # runs of identical events: coalescing may only ever drop an event whose equal twin is still undelivered
        {"threads": {"app1": [["schedule", 1, 1], ["start"], ["await"], ["stop"], ["join"]]},
         "emit": {"1": [1, 1, 1, 2, 2, 1]}},
        # schedule while running from a second thread
        {"threads": {"app1": [["schedule", 1, 1], ["start"], ["await"], ["stop"], ["join"]],
                     "app2": [["schedule", 2, 2], ["add", 1, 2]]},
         "emit": {"1": [1, 2], "2": [1, 2]}},
        # handler adds another handler from inside its callback; that one must not get the event in progress
        {"threads": {"app1": [["schedule", 1, 1], ["start"], ["await"], ["stop"], ["join"]]},
         "emit": {"1": [1, 2, 3]}, "scripts": {"1": {"1": [["add", 2, 1]], "2": [["schedule", 3, 1]]}}},
    ]


def fam_removal():
    """C05: removal from an application thread and re-entrantly from a callback at every stream position."""
    out = []
    for k in (1, 2, 3):
        # handler unschedules its own watch inside its k-th callback
        out.append({"threads": {"app1": [["schedule", 1, 1], ["add", 2, 1], ["start"], ["await"], ["stop"], ["join"]]},
                    "emit": {"1": [1, 2, 3]}, "scripts": {"1": {str(k): [["unschedule", 1]]}}})
        # handler removes the other handler inside its k-th callback
        out.append({"threads": {"app1": [["schedule", 1, 1], ["add", 2, 1], ["start"], ["await"], ["stop"], ["join"]]},
                    "emit": {"1": [1, 2, 3]}, "scripts": {"1": {str(k): [["remove", 2, 1]]}, "2": {str(k): [["remove", 1, 1]]}}})
    # removal from another thread while events flow
    out.append({"threads": {"app1": [["schedule", 1, 1], ["add", 2, 1], ["start"], ["await"], ["stop"], ["join"]],
                            "app2": [["remove", 2, 1]]}, "emit": {"1": [1, 2, 3]}})
    out.append({"threads": {"app1": [["schedule", 1, 1], ["schedule", 2, 2], ["start"], ["await"], ["stop"], ["join"]],
                            "app2": [["unschedule", 1]]}, "emit": {"1": [1, 2, 3], "2": [1]}})
    out.append({"threads": {"app1": [["schedule", 1, 1], ["schedule", 2, 2], ["start"], ["await"], ["stop"], ["join"]],
                            "app2": [["unschedule_all"]]}, "emit": {"1": [1, 2], "2": [1, 2]}})
    # stop() from a callback, and stop from another thread mid-stream
    out.append({"threads": {"app1": [["schedule", 1, 1], ["add", 2, 1], ["start"], ["await"], ["join"]]},
                "emit": {"1": [1, 2, 3]}, "scripts": {"1": {"2": [["stop"]]}}})
    out.append({"threads": {"app1": [["schedule", 1, 1], ["start"]], "app2": [["stop"]]}, "emit": {"1": [1, 2, 3]}})
    # unschedule then re-schedule the same watch for another handler while old events may still be queued
    out.append({"threads": {"app1": [["schedule", 1, 1], ["start"], ["unschedule", 1], ["schedule", 2, 1], ["await"], ["stop"],
                                     ["join"]]}, "emit": {"1": [1, 2]}})
    return out


def fam_mixed_emitters():
    """C05 / C06: a removal that finds running and never-started emitters side by side (a schedule() that lands after
    stop() was requested creates an emitter it does not start): every running one must have stopped when the call returns."""
    return [
        {"threads": {"app1": [["schedule", 1, 1], ["start"], ["stop"], ["join"]], "app2": [["schedule", 2, 2]]},
         "emit": {"1": [1, 2], "2": [1]}},
        {"threads": {"app1": [["schedule", 1, 1], ["start"], ["stop"], ["join"]]},
         "emit": {"1": [1, 2], "2": [1]}, "scripts": {"1": {"1": [["schedule", 2, 2]]}}},
        {"threads": {"app1": [["schedule", 1, 1], ["start"], ["unschedule_all"], ["stop"], ["join"]], "app2": [["stop"], ["schedule", 2, 2]]},
         "emit": {"1": [1, 2], "2": [1]}},
    ]


def fam_dispatch_lines():
    """C04 / C05: removal by ANOTHER thread while an event is being dispatched, with every source line of
    dispatch_events a yield point (the window between the membership re-check and the call of the handler)."""
    base = [
        {"threads": {"app1": [["schedule", 1, 1], ["add", 2, 1], ["start"], ["await"], ["stop"], ["join"]], "app2": [["remove", 2, 1]]},
         "emit": {"1": [1, 2]}},
        {"threads": {"app1": [["schedule", 1, 1], ["add", 2, 1], ["start"], ["await"], ["stop"], ["join"]], "app2": [["remove", 1, 1]]},
         "emit": {"1": [1, 2]}},
        {"threads": {"app1": [["schedule", 1, 1], ["start"], ["await"], ["stop"], ["join"]], "app2": [["unschedule", 1]]}, "emit": {"1": [1, 2]}},
    ]
    return [dict(p, line_yields=["dispatch_events"]) for p in base]


def reversed_orders(progs):
    """The same programs with the emitter set and the handler sets iterating in the opposite order (the library iterates
    sets of emitters in _clear_emitters / start and sets of handlers in dispatch_events; any order must do)."""
    return [dict(p, em_order="desc", h_order="desc") for p in progs]


def fam_reentrant_unschedule():
    """C04 / C05: whichever handler of a watch is handed the event first removes the whole watch (unschedule / unschedule_all)
    from inside its callback; the other handlers of that watch are no longer registered and must not see the event.  Both
    handlers carry the script, so the case does not depend on the iteration order of the handler set."""
    out = []
    for k in (1, 2):
        for ops in ([["unschedule", 1]], [["unschedule_all"]]):
            out.append({"threads": {"app1": [["schedule", 1, 1], ["add", 2, 1], ["start"], ["await"], ["stop"], ["join"]]},
                        "emit": {"1": [1, 2, 3]}, "scripts": {"1": {str(k): ops}, "2": {str(k): ops}}})
    # three handlers, the first one served unschedules
    out.append({"threads": {"app1": [["schedule", 1, 1], ["add", 2, 1], ["add", 3, 1], ["start"], ["await"], ["stop"], ["join"]]},
                "emit": {"1": [1, 2]}, "scripts": {h: {"1": [["unschedule", 1]]} for h in ("1", "2", "3")}})
    return out


def fam_lifecycle():
    """C06: orders of start / schedule / unschedule / unschedule_all / stop (twice) / join from 2 threads and callbacks."""
    out = []
    a_ops = [["schedule", 1, 1], ["start"], ["stop"], ["join"]]
    for b in ([["schedule", 2, 2]], [["unschedule_all"]], [["stop"]], [["schedule", 2, 1], ["unschedule", 1]],
              [["stop"], ["stop"]], [["start"]], [["unschedule", 1]]):
        out.append({"threads": {"app1": a_ops, "app2": b}, "emit": {"1": [1, 2], "2": [1]}})
    # callbacks that call stop / unschedule_all / schedule / start re-entrantly
    for ops in ([["stop"]], [["unschedule_all"]], [["schedule", 2, 2]], [["stop"], ["stop"]], [["start"]], [["join"]],
                [["unschedule", 1], ["schedule", 1, 1]]):
        out.append({"threads": {"app1": [["schedule", 1, 1], ["start"], ["await"], ["stop"], ["join"]]},
                    "emit": {"1": [1, 2], "2": [1]}, "scripts": {"1": {"1": ops}}})
    # stop() by another thread that may win the race against schedule()/start(); the first thread never stops itself
    out.append({"threads": {"app1": [["schedule", 1, 1], ["start"], ["join"]], "app2": [["stop"]]}, "emit": {"1": [1, 2]}})
    # stop before start, join after
    out.append({"threads": {"app1": [["schedule", 1, 1], ["stop"], ["start"], ["stop"], ["join"]]}, "emit": {"1": [1]}})
    out.append({"threads": {"app1": [["start"], ["schedule", 1, 1], ["unschedule", 1], ["schedule", 1, 1], ["stop"], ["stop"],
                                     ["join"]]}, "emit": {"1": [1]}})
    # an emitter that needs longer than any time-out to notice stop(): stop() / unschedule() wait for it all the same
    out.append({"threads": {"app1": [["schedule", 1, 1], ["schedule", 2, 2], ["start"], ["await"], ["stop"], ["join"]]},
                "emit": {"1": [1], "2": [1]}, "slow": {"1": 7}})
    out.append({"threads": {"app1": [["schedule", 1, 1], ["start"], ["await"], ["unschedule", 1], ["stop"], ["join"]]},
                "emit": {"1": [1]}, "slow": {"1": 7}})
    # start() twice: the second call raises; the observer keeps running with its emitters
    out.append({"threads": {"app1": [["schedule", 1, 1], ["start"], ["start"], ["probe"], ["stop"], ["join"]]}, "emit": {"1": [1, 2]}})
    out.append({"threads": {"app1": [["schedule", 1, 1], ["schedule", 2, 2], ["start"], ["probe"], ["stop"], ["join"]],
                            "app2": [["start"]]}, "emit": {"1": [1], "2": [1]}})
    return out


def fam_start_race():
    """C13 / C07 flavour: schedule() racing with start() (the emitter of every scheduled watch must be running)."""
    return [
        {"threads": {"app1": [["schedule", 1, 1], ["start"], ["probe"], ["stop"], ["join"]], "app2": [["schedule", 2, 2]]},
         "emit": {"1": [1], "2": [1]}},
        {"threads": {"app1": [["start"], ["probe"], ["stop"], ["join"]], "app2": [["schedule", 1, 1]]}, "emit": {"1": [1]}},
    ]


SEQ_OPS = ([["schedule", h, w] for h in (1, 2) for w in (1, 2)] + [["unschedule", w] for w in (1, 2)] +
           [["add", h, w] for h in (1, 2) for w in (1, 2)] + [["remove", h, w] for h in (1, 2) for w in (1, 2)] +
           [["unschedule_all"], ["start"], ["stop"]])


def _valid(seq):
    """Sequentially valid call sequences (no call that must raise - except a repeated start() on a running observer,
    which raises RuntimeError and must leave everything as it was), tracked on the reference map itself."""
    reg = {}
    started = stopped = False
    for op in seq:
        k = op[0]
        if k == "schedule":
            reg.setdefault(op[2], set()).add(op[1])
        elif k == "unschedule":
            if op[1] not in reg:
                return False
            del reg[op[1]]
        elif k == "add":
            if op[2] not in reg:
                return False
            reg[op[2]].add(op[1])
        elif k == "remove":
            if op[2] not in reg or op[1] not in reg[op[2]]:
                return False
            reg[op[2]].discard(op[1])
        elif k == "unschedule_all":
            reg = {}
        elif k == "start":
            if started and stopped:
                return False
            started = True
        elif k == "stop":
            if not started or stopped:
                return False
            stopped = True
            reg = {}
    return True


def fam_sequential(maxlen, with_fail=True):
    """C13: every valid call sequence up to maxlen over 2 watches x 2 handlers, a probe after every call; optionally
    with an emitter construction / start failure injected at a schedule position."""
    out = []
    for L in range(1, maxlen + 1):
        for seq in itertools.product(SEQ_OPS, repeat=L):
            if not _valid(seq):
                continue
            ops = []
            for op in seq:
                ops += [op, ["probe"]]
            started = any(o[0] == "start" for o in seq)
            stopped = any(o[0] == "stop" for o in seq)
            tail = ([] if stopped else ([["stop"]] if started else [])) + ([["join"]] if started else [])
            out.append({"threads": {"app1": ops + tail}, "emit": {"1": [1], "2": [1]}})
    return out


WATCH_KEYS = {
    "1": {"path": 1},                                                        # "/w1", non-recursive, no filter
    "2": {"path": 1, "spell": "path"},                                       # pathlib.Path("/w1"): the same watch as 1
    "3": {"path": 1, "recursive": True},                                     # recursive flag differs: another watch
    "4": {"path": 1, "filter": ["FileModifiedEvent", "FileCreatedEvent"]},   # filter differs: another watch
    "5": {"path": 1, "filter": ["FileCreatedEvent", "FileModifiedEvent"]},   # the same filter in another order: the same as 4
    "6": {"path": 2},
    "7": {"path": 1, "filter": []},                                          # an EMPTY filter is a filter, not "no filter"
    "8": {"path": 1, "follow_symlink": True},                                # follow_symlink is no part of the identity: = 1
    "9": {"path": 1, "filter": ["FileSystemEvent"]},                         # a base class as filter: another watch; every
                                                                             # event of the emitter is an instance of it
    "10": {"path": 1, "spell": "bytes"},                                     # the same directory given as bytes: another watch
}


def fam_watch_keys(maxlen):
    """C13: 'distinct watches (path, recursive flag, filter)': call sequences over six spellings of four watches; the
    harness logs every call under the watch it denotes, so the reference map has four keys; the probe after every call
    shows whether the observer agrees (one emitter per watch, routes equal to the map, unscheduling one spelling
    unschedules the watch and no other)."""
    ops_all = ([["schedule", 1, w] for w in (1, 2, 3, 4, 5, 6, 7, 8, 9, 10)] + [["schedule", 2, w] for w in (2, 5, 8)] +
               [["unschedule", w] for w in (1, 2, 3, 4, 5, 7, 8, 9, 10)] + [["remove", 1, w] for w in (2, 5)] + [["start"]])
    canon = {1: 1, 2: 1, 3: 3, 4: 4, 5: 4, 6: 6, 7: 7, 8: 1, 9: 9, 10: 10}
    out = []
    for L in range(2, maxlen + 1):
        for seq in itertools.product(ops_all, repeat=L):
            reg = {}
            ok = True
            started = False
            for op in seq:
                if op[0] == "schedule":
                    reg.setdefault(canon[op[2]], set()).add(op[1])
                elif op[0] == "unschedule":
                    if canon[op[1]] not in reg:
                        ok = False
                        break
                    del reg[canon[op[1]]]
                elif op[0] == "remove":
                    if op[1] not in reg.get(canon[op[2]], ()):
                        ok = False
                        break
                    reg[canon[op[2]]].discard(op[1])
                elif op[0] == "start":
                    if started:
                        ok = False
                        break
                    started = True
            # keep the sequences that use two spellings of one watch or two watches on one path
            used = {op[-1] for op in seq if op[0] != "start"}
            if not ok or len(used) < 2:
                continue
            ops = []
            for op in seq:
                ops += [op, ["probe"]]
            tail = [["await"], ["probe"], ["stop"], ["join"]] if started else []
            out.append({"threads": {"app1": ops + tail}, "emit": {"1": [1, 1], "3": [1], "4": [1], "6": [1], "9": [1, 2], "10": [1]}, "wspec": WATCH_KEYS})
    return out


def fam_failing_start():
    """C13: start() itself fails because one of several emitters cannot be started.  That emitter is discarded (its watch
    keeps its handlers), every other watch keeps its emitter, and start() can be tried again - and must then succeed."""
    out = []
    for order in ("asc", "desc"):
        for bad in (1, 2):
            for tail in ([["start"], ["probe"], ["await"], ["probe"], ["stop"], ["join"]],
                         [["schedule", 3, bad], ["probe"], ["start"], ["probe"], ["await"], ["probe"], ["stop"], ["join"]],
                         [["unschedule", 3 - bad], ["probe"], ["start"], ["probe"], ["stop"], ["join"]]):
                out.append({"threads": {"app1": [["schedule", 1, 1], ["schedule", 2, 2], ["probe"], ["start"], ["probe"]] + tail},
                            "emit": {"1": [1], "2": [1]}, "fail_start": {str(bad): 1}, "em_order": order})
    return out


def fam_failures(maxlen):
    """C13: schedule() that raises (emitter cannot be created / cannot be started) at every position of short sequences,
    followed by a successful schedule of the same watch for another handler and an event."""
    out = []
    for kind in ("fail_ctor", "fail_start"):
        for pre in ([], [["start"]], [["schedule", 2, 2]], [["schedule", 2, 2], ["start"]], [["start"], ["schedule", 2, 2]],
                    [["schedule", 1, 1], ["unschedule", 1]], [["schedule", 1, 1], ["unschedule", 1], ["start"]]):
            for post in ([["schedule", 2, 1]], [["schedule", 2, 1], ["start"]], [["start"], ["schedule", 2, 1]],
                         [["schedule", 1, 2]]):
                seq = pre + [["schedule", 1, 1]] + post
                if sum(1 for o in seq if o[0] == "start") > 1:
                    continue
                if len(seq) > maxlen:
                    continue
                # a start failure is a schedule() failure only if the observer is alive when schedule() is called
                # (otherwise the emitter is started -- and fails -- inside start(), which C13 does not speak about)
                if kind == "fail_start" and not any(o[0] == "start" for o in pre):
                    continue
                ops = []
                for op in seq:
                    ops += [op, ["probe"]]
                started = any(o[0] == "start" for o in seq)
                tail = ([["await"], ["probe"], ["stop"], ["join"]] if started else [])
                # the failing schedule is the first schedule of watch 1 after `pre` : count earlier emitter creations for w1
                n_before = sum(1 for o in pre if o[0] == "schedule" and o[2] == 1)
                p = {"threads": {"app1": ops + tail}, "emit": {"1": [1, 2], "2": [1]}}
                # make exactly the (n_before+1)-th construction/start of watch 1 fail: scripted as "skip n_before successes"
                p[kind] = {"1": 1} if n_before == 0 else None
                if p[kind] is None:
                    continue
                out.append(p)
    return out


def random_program(seed):
    rng = random.Random(seed)
    hs, ws = (1, 2, 3), (1, 2)
    reg = {}
    ops1 = [["schedule", 1, 1], ["start"]]
    reg[1] = {1}
    for _ in range(rng.randint(3, 6)):
        k = rng.choice(["schedule", "add", "remove", "unschedule", "schedule"])
        if k == "schedule":
            h, w = rng.choice(hs), rng.choice(ws)
            reg.setdefault(w, set()).add(h)
            ops1.append(["schedule", h, w])
        elif k == "add" and reg:
            w = rng.choice(sorted(reg))
            h = rng.choice(hs)
            reg[w].add(h)
            ops1.append(["add", h, w])
        elif k == "remove" and any(reg.values()):
            w = rng.choice([w for w in sorted(reg) if reg[w]])
            h = rng.choice(sorted(reg[w]))
            reg[w].discard(h)
            ops1.append(["remove", h, w])
        elif k == "unschedule" and reg:
            w = rng.choice(sorted(reg))
            del reg[w]
            ops1.append(["unschedule", w])
    ops1 += [["await"], ["probe"], ["stop"], ["join"]]
    scripts = {}
    if rng.random() < 0.5:
        scripts = {str(rng.choice(hs)): {str(rng.randint(1, 3)): [rng.choice([["unschedule", 1], ["remove", 2, 1],
                                                                              ["schedule", 3, 2], ["unschedule_all"]])]}}
    return {"threads": {"app1": ops1}, "emit": {"1": [1, 2, 2, 3], "2": [1, 1, 2]}, "scripts": scripts}


def obs_random(params):
    from checks import scen_observer

    return scen_observer.obs_program(random_program(params["seed"]))


# ----------------------------------------------------------------------------- running


def run_families(c: checklib.Check, prop, families, *, bound, random_n=0, dfs_jobs=None, sampled=()):
    """Explore every program of the families, validate all traces, report violations owned by `prop`."""
    traces, meta = [], []
    total = 0
    for name, progs, bnd in families:
        n_f = 0
        d_f = 0
        for pat in progs:
            if bnd is None:
                rec = explore.replay(SCEN, pat, [])
                n, recs = 1, [rec]
                if rec["outcome"] in ("error", "divergence"):
                    c.machinery_failure(f"program failed in the harness: {rec['error']} {pat}")
            else:
                info = {}
                n, recs = explore.dfs(SCEN, pat, bnd, jobs=dfs_jobs or c.jobs, split_depth=5, cap=120000 if c.thorough else None, info=info)
                if info.get("capped"):
                    c.cov["capped_programs"] = c.cov.get("capped_programs", 0) + 1
            n_f += n
            d_f += len(recs)
            for rec in recs:
                traces.append(rec["trace"])
                meta.append({"scenario": SCEN, "params": pat, "choices": rec["choices"], "family": name})
        total += n_f
        c.note(f"family {name}: {len(progs)} programs, bound={bnd}, {n_f} executions, {d_f} distinct traces")
    for name, progs, nseeds in sampled:
        n_f = d_f = 0
        for i, pat in enumerate(progs):
            base = c.seed * 1000003 + i * 7919
            n, recs = explore.sample(SCEN, pat, range(base, base + nseeds), jobs=c.jobs, extra={"stickiness": 0.5})
            n_f += n
            d_f += len(recs)
            for rec in recs:
                traces.append(rec["trace"])
                meta.append({"scenario": SCEN, "params": pat, "choices": rec["choices"], "family": name})
        total += n_f
        c.note(f"family {name}: {len(progs)} programs, {nseeds} random schedules each, {n_f} executions, {d_f} distinct traces")
    if random_n:
        base = c.seed * 1000003
        n, recs = explore.sample("checks.observer_engine:obs_random", {}, range(base, base + random_n), jobs=c.jobs,
                                 extra={"stickiness": 0.6, "seed_param": "seed"})
        total += n
        for rec in recs:
            traces.append(rec["trace"])
            meta.append({"scenario": "checks.observer_engine:obs_random", "params": {"seed": rec["seed"]},
                         "choices": rec["choices"], "family": "random"})
        c.note(f"random: {n} random programs/schedules, {len(recs)} distinct traces")
    c.cov["evaluations"] += total
    c.cov["distinct_nontrivial"] += len(traces)
    verdicts, stats = tlc.validate_traces("ObserverTrace", "ObserverTrace.cfg", traces,
                                          chunk=max(40, len(traces) // (c.jobs * 3) + 1), parallel=c.jobs)
    c.add_trace_stats("ObserverTrace", len(traces), stats)
    c.cov["states"] += stats["distinct"]
    c.cov["transitions"] += stats["generated"]
    foreign = {}
    for tr, m, v in zip(traces, meta, verdicts):
        rp = dict(m)
        rp["trace"] = tr
        rp["trace_spec"] = ["ObserverTrace", "ObserverTrace.cfg"]
        if v["accepted"]:
            continue
        if v["viol"]:
            for clause in v["viol"]:
                owner = CLAUSE_OWNER.get(clause, "C04")
                if owner == prop:
                    c.violation(clause, f"monitor clause {clause} is FALSE on a trace of the real observer "
                                        f"(family {m['family']})", rp, signature=sig_of(clause, tr, None))
                else:
                    foreign[owner] = foreign.get(owner, 0) + 1
        else:
            owner, clause, ln = attribute(tr, v["furthest"])
            owners = {owner: clause}
            if clause == "P_C05_NoCallAfterReturn":
                # a callback after the removal of its (handler, watch) pair had returned breaks C05 and also C04's
                # "a handler never receives an event of a watch it is not registered for"
                owners["C04"] = "P_C04_NeverToUnregistered"
            if prop in owners:
                clause = owners[prop]
                c.violation(clause, f"no placement of the unlogged steps explains line {v['furthest']}: {ln} "
                                    f"(family {m['family']})", rp, signature=sig_of(clause, tr, ln))
            else:
                foreign[owner] = foreign.get(owner, 0) + 1
    if foreign:
        c.note(f"traces failing clauses owned by other properties (decided by their checks): {foreign}")
        c.cov["foreign_failures"] = foreign
    if traces:
        c.sample({"program": meta[0]["params"], "trace": traces[0][:16]})
    return traces, meta, verdicts


def sig_of(clause, trace, ln):
    """Signature used to match known findings: clause + the shape of the call that exposes it."""
    return clause
