"""C10  Polling reports exactly the diff of successive snapshots and survives races.

1. TLC checks spec/Polling.tla (virtual file system, the snapshot walk at the granularity of one stat/listdir
   call with a fault injectable at every call position, emitter actions) against the invariants C10_*; four
   seeded deviations of the model (negative configs) must be rejected.
2. code -> spec: the REAL PollingEmitter is driven poll by poll on the harness VFS (same trees and operations
   as the model: all sequences of <= 2 / 3 tree states, a fault at every call position of each walk, recursive and
   non-recursive, plus random longer histories), REAL DirectorySnapshots are taken on every tree with every
   fault, and a few histories run through the REAL threaded PollingObserverVFS under the deterministic scheduler.
   TLC validates every trace against spec/PollingTrace.tla whose monitors P_C10_* recompute the expected
   snapshots inside TLA+ and judge the queued events by the C09 laws.
"""

from __future__ import annotations

import hashlib
import json
import multiprocessing as mp
import os
import random
import sys

sys.path.insert(0, os.path.dirname(os.path.dirname(os.path.abspath(__file__))))

from harness import checklib, loader, tlc  # noqa: E402
from checks import scen_polling as sp  # noqa: E402

CLAUSES = {1: "P_C10_EventsEqualDiff", 2: "P_C10_DeletionsBeforeCreations", 3: "P_C10_NothingWhenUnchanged",
           4: "P_C10_SnapshotIsReachableSet", 5: "P_C10_FaultMeansAbsent", 6: "P_C10_RootGone",
           7: "P_C10_StoppedIsFinal", 8: "P_C10_BaselineAtStart"}
ERRS = ("ENOENT", "ENOTDIR", "EACCES")
INVARIANTS = ["C10_EventsEqualDiff", "C10_DeletionsBeforeCreations", "C10_NothingWhenUnchanged",
              "C10_SnapshotIsReachableSet", "C10_FaultMeansAbsent", "C10_RootGone", "C10_StoppedIsFinal"]
NEGATIVE = {"createfirst": "C10_DeletionsBeforeCreations", "reraise": "C10_FaultMeansAbsent",
            "nosuppress": "C10_FaultMeansAbsent", "descend": "C10_SnapshotIsReachableSet"}
ACTIONS = ["Create", "Delete", "Rename", "Exchange", "ModifyM", "ModifyS", "Replace", "RemoveRoot", "StatRoot",
           "ListDir", "StatEntry", "EndStats", "Descend", "Return", "Start", "PollTimerFires", "TakeSnapshot",
           "EmitDiff", "RootGone", "Stop"]

_REAL = None


def real_modules():
    """(polling, api, dirsnapshot) of the watchdog under test, imported with the REAL threading module."""
    global _REAL
    if _REAL is None:
        if loader.REPO_SRC not in sys.path:
            sys.path.insert(0, loader.REPO_SRC)
        import watchdog.observers.api as api
        import watchdog.observers.polling as polling
        import watchdog.utils.dirsnapshot as ds

        for m in (api, polling, ds):
            if not os.path.realpath(m.__file__).startswith(os.path.realpath(loader.REPO_SRC)):
                raise RuntimeError(f"{m.__name__} imported from {m.__file__}, expected {loader.REPO_SRC}")
        _REAL = (polling, api, ds)
    return _REAL


def tkey(trace):
    return hashlib.sha1(json.dumps(trace, sort_keys=True).encode()).hexdigest()


# ------------------------------------------------------------------------------------------ exhaustive histories
def _history_job(args):
    """All runs of one history (list of trees): without fault, and with one fault at every call position of every
    walk (baseline and polls) for every errno; each followed by one extra poll on the last tree."""
    trees, recs, fault_walks = args
    polling, api, ds = real_modules()
    out = {}
    n_runs = 0
    n_polls = 0
    for rec in recs:
        base_steps = [(t, 0, None) for t in trees] + [(trees[-1], 0, None)]
        tr, ncalls = sp.drive_direct((polling, api), rec, base_steps)
        n_runs += 1
        n_polls += len(tr) - 1
        out.setdefault(tkey(tr), (tr, {"kind": "history", "rec": rec, "fault": None}))
        for wi in fault_walks:
            if wi >= len(ncalls):
                continue
            for pos in range(1, ncalls[wi] + 1):
                for err in ERRS:
                    steps = list(base_steps)
                    steps[wi] = (steps[wi][0], pos, err)
                    if wi == len(steps) - 1:
                        steps.append((steps[-1][0], 0, None))    # the poll after the fault sees the entry again
                    tr2, _ = sp.drive_direct((polling, api), rec, steps)
                    n_runs += 1
                    n_polls += len(tr2) - 1
                    out.setdefault(tkey(tr2), (tr2, {"kind": "history", "rec": rec, "fault": [wi, pos, err]}))
    return list(out.values()), n_runs, n_polls


def _snap_job(args):
    trees = args
    _, _, ds = real_modules()
    lines = []
    for t in trees:
        for rec in (True, False):
            ln, n = sp.take_snapshot(ds, rec, t, 0, None)
            lines.append(ln)
            for pos in range(1, n + 1):
                for err in ERRS:
                    lines.append(sp.take_snapshot(ds, rec, t, pos, err)[0])
    return lines


def _random_job(args):
    seed, n = args
    polling, api, ds = real_modules()
    rng = random.Random(seed)
    out = []
    n_polls = 0
    names, pool = (1, 2, 3), tuple(range(1, 9))
    for k in range(n):
        inits = sp.init_trees((1, 2), 2)
        t = rng.choice(inits)
        rec = rng.random() < 0.7
        steps = [(t, 0, None)]
        for _ in range(rng.randint(4, 9)):
            for _ in range(rng.choice((0, 1, 1, 1, 2, 3))):
                succ = sp.successors(t, names, pool, 6, depth=3)
                if not succ:
                    break
                # the root is removed rarely, otherwise most histories would end early
                op, t2 = rng.choice(succ)
                if op[0] == "remove_root" and rng.random() < 0.9:
                    continue
                t = t2
            if rng.random() < 0.3:
                steps.append((t, rng.randint(1, 8), rng.choice(ERRS)))
            else:
                steps.append((t, 0, None))
        tr, _ = sp.drive_direct((polling, api), rec, steps)
        n_polls += len(tr) - 1
        out.append((tr, {"kind": "random", "seed": seed, "k": k, "rec": rec}))
    return out, n, n_polls


def _threaded_job(args):
    """One execution of the real threaded PollingObserverVFS under detsched (random schedule `seed`)."""
    params, seed = args
    from harness import detsched, explore

    st = detsched.PrefixStrategy((), tail=detsched.RandomStrategy(seed, stickiness=0.5))
    rec, s = explore.execute("checks.scen_polling:observer_program", params, st)
    return {"trace": rec["trace"], "outcome": rec["outcome"], "error": rec["error"], "uncaught": rec["uncaught"],
            "params": params, "seed": seed, "choices": [r[2] for r in st.record]}


def threaded_params():
    T = {
        "empty": {(): sp.ROOTREC},
        "f": {(): sp.ROOTREC, (1,): (1, False, 0, 0)},
        "f_mod": {(): sp.ROOTREC, (1,): (1, False, 1, 0)},
        "f_moved": {(): sp.ROOTREC, (2,): (1, False, 0, 0)},
        "d_f": {(): sp.ROOTREC, (1,): (1, True, 0, 0), (1, 1): (2, False, 0, 0)},
        "d_f_out": {(): sp.ROOTREC, (1,): (1, True, 0, 0), (2,): (2, False, 0, 0)},
        "d_as_file": {(): sp.ROOTREC, (1,): (3, False, 0, 0)},
        "gone": {},
    }
    H = [
        ["empty", "f", "f_mod", "f_moved", "empty"],
        ["d_f", "d_f_out", "d_as_file", "d_as_file"],
        ["f", "gone", "gone"],
        ["d_f", "d_f", "gone", "gone"],
        ["gone"],
    ]
    out = []
    for h in H:
        for rec in (True, False):
            for order in ("schedule_start", "start_schedule"):
                base = [[sp.tree_lines(T[x]), 0, None] for x in h]
                out.append({"rec": rec, "order": order, "steps": base, "name": "-".join(h)})
                if len(h) > 1 and h[0] != "gone":
                    for pos, err in ((1, "ENOENT"), (2, "EACCES"), (2, "ENOENT"), (3, "ENOTDIR"), (4, "EACCES")):
                        steps = [list(x) for x in base]
                        steps[1][1], steps[1][2] = pos, err
                        out.append({"rec": rec, "order": order, "steps": steps, "name": "-".join(h) + f"+{pos}{err}"})
    return out


# ------------------------------------------------------------------------------------------ the check
def run(c: checklib.Check):
    polling, api, ds = real_modules()
    c.note(f"polling under test: {polling.__file__}")

    # ---- 1. design spec
    for dev, inv in NEGATIVE.items():
        r = tlc.run_tlc("Polling", f"Polling_neg_{dev}.cfg", workers=c.jobs, timeout=900)
        c.add_tlc(f"Polling:neg_{dev}", r)
        if inv not in r.violated or r.errors:
            c.machinery_failure(f"negative config Polling_neg_{dev}.cfg: expected {inv} violated, got {r.violated} {r.errors[:2]}")
    cfg = "Polling_quick.cfg"
    r = tlc.run_tlc("Polling", cfg, workers=c.jobs, coverage=True, timeout=3000, heap="8g")
    c.add_tlc("Polling:" + cfg, r)
    if not r.ok:
        c.machinery_failure(f"design spec {cfg}: violated={r.violated} errors={r.errors[:2]}\n{r.output[-1500:]}")
    dead = [a for a in ACTIONS if r.coverage.get(a, 0) == 0]
    if dead:
        c.machinery_failure(f"vacuity: actions never taken in {cfg}: {dead}")
    tag = tlc.find_tagged(r.output, "C10INIT")
    n_init = len(sp.init_trees((1, 2), 2))
    if not tag or tag[0][1] != n_init:
        c.machinery_failure(f"{cfg}: TLC has {tag} initial trees, the Python enumeration {n_init}")
    if c.thorough:
        c.note(f"TLC {cfg}: {r.distinct} distinct states, depth {r.depth}, {r.wall:.1f}s (action coverage checked)")
        cfg = "Polling_thorough.cfg"
        r = tlc.run_tlc("Polling", cfg, workers=c.jobs, timeout=3000, heap="12g")
        c.add_tlc("Polling:" + cfg, r)
        if not r.ok:
            c.machinery_failure(f"design spec {cfg}: violated={r.violated} errors={r.errors[:2]}\n{r.output[-1500:]}")
    c.note(f"TLC {cfg}: {r.distinct} distinct states, depth {r.depth}, {len(INVARIANTS)} properties, {r.wall:.1f}s; "
           f"negative configs rejected: {sorted(NEGATIVE)}")

    # ---- 2. code -> spec
    names, pool = (1, 2), ((1, 2, 3, 4) if c.thorough else (1, 2, 3))
    max_entries = 2
    inits = sp.init_trees(names, max_entries)
    histories = []
    for t0 in inits:
        histories.append(([t0], (0, 1)))                        # nothing ever changes
        for op1, t1 in sp.successors(t0, names, pool, max_entries):
            histories.append(([t0, t1], (0, 1)))                 # a fault in the baseline or in the poll
            if c.thorough:
                for op2, t2 in sp.successors(t1, names, pool, max_entries + 1):
                    histories.append(([t0, t1, t2], (1, 2)))     # 3 states: a fault in either poll
    recs = (True, False)
    jobs = [(h, recs, fw) for h, fw in histories]
    # snapshots: every tree of a larger universe, every fault
    snap_trees = sp.init_trees(names, 3 if not c.thorough else 4)
    sjobs = [snap_trees[i::c.jobs * 2] for i in range(c.jobs * 2)]
    nrand = 4000 if c.thorough else 400
    rjobs = [(c.seed * 7919 + i, 50) for i in range(nrand // 50)]

    traces = {}
    n_runs = n_polls = 0
    with mp.get_context("fork").Pool(c.jobs) as pool_:
        for recs_, nr, npl in pool_.imap_unordered(_history_job, jobs, chunksize=4):
            n_runs += nr
            n_polls += npl
            for tr, meta in recs_:
                traces.setdefault(tkey(tr), (tr, meta))
        n_hist = len(traces)
        for recs_, nr, npl in pool_.imap_unordered(_random_job, rjobs, chunksize=1):
            n_runs += nr
            n_polls += npl
            for tr, meta in recs_:
                traces.setdefault(tkey(tr), (tr, meta))
        snap_lines = []
        for ls in pool_.imap_unordered(_snap_job, sjobs, chunksize=1):
            snap_lines += ls
    c.note(f"real PollingEmitter: {len(histories)} histories, {n_runs} runs, {n_polls} polls; {n_hist} distinct exhaustive "
           f"+ {len(traces) - n_hist} random traces; {len(snap_lines)} real DirectorySnapshots on {len(snap_trees)} trees")

    # threaded PollingObserverVFS under the deterministic scheduler (separate pool: watchdog is re-imported on shims)
    tparams = threaded_params()
    seeds = range(c.seed * 100, c.seed * 100 + (4 if c.thorough else 2))
    tjobs = [(p, sd) for p in tparams for sd in seeds]
    with mp.get_context("fork").Pool(c.jobs) as pool_:
        tres = pool_.map(_threaded_job, tjobs, chunksize=2)
    n_thr = 0
    for rec_ in tres:
        if rec_["outcome"] == "deadlock":
            c.violation("P_C10_FaultMeansAbsent", f"threaded PollingObserverVFS scenario deadlocked: {rec_['trace'][-1]}",
                        {"scenario": "checks.scen_polling:observer_program", "params": rec_["params"],
                         "choices": rec_["choices"]})
            continue
        if rec_["outcome"] != "ok":
            c.machinery_failure(f"threaded scenario failed: {rec_['outcome']} {rec_['error']}")
        n_thr += 1
        tr = rec_["trace"]
        traces.setdefault(tkey(tr), (tr, {"kind": "threaded", "params": rec_["params"], "seed": rec_["seed"],
                                          "choices": rec_["choices"]}))
    c.note(f"real threaded PollingObserverVFS under detsched: {n_thr} executions of {len(tparams)} scenarios")

    items = sorted(traces.values(), key=lambda x: json.dumps(x[1], sort_keys=True, default=str))
    all_traces = [tr for tr, _ in items]
    metas = [m for _, m in items]
    # snapshot lines travel in batches
    sb = 300
    for a in range(0, len(snap_lines), sb):
        all_traces.append(snap_lines[a : a + sb])
        metas.append({"kind": "snap", "first": a})
    chunk = max(20, len(all_traces) // c.jobs + 1)
    verdicts, stats = tlc.validate_traces("PollingTrace", "PollingTrace.cfg", all_traces, chunk=chunk, parallel=c.jobs,
                                          dfs_queue=False, timeout=3000)
    c.add_trace_stats("PollingTrace", len(all_traces), stats)
    c.cov["states"] += stats["distinct"]
    c.cov["transitions"] += stats["generated"]
    nbad = ndrift = 0
    for tr, meta, v in zip(all_traces, metas, verdicts):
        if v["accepted"] and not v["viol"]:
            continue
        if not v["viol"]:
            line = tr[v["furthest"] - 1] if 0 < v["furthest"] <= len(tr) else None
            c.machinery_failure(f"PollingTrace cannot consume line {v['furthest']}: {line}")
        for code in sorted(v["viol"]):
            if code < 0:
                ndrift += -code          # Level I: events differ from the model's EmitDiff; never a verdict (DESIGN §3)
                continue
            lno, k = code // 16, code % 16
            clause = CLAUSES.get(k, f"P_C10_{k}")
            ln = tr[lno - 1]
            nbad += 1
            ctx = tr if meta["kind"] != "snap" else [ln]
            rp = {"meta": meta, "line": lno, "trace": ctx, "trace_spec": ["PollingTrace", "PollingTrace.cfg"]}
            if meta["kind"] == "threaded":
                rp.update({"scenario": "checks.scen_polling:observer_program", "params": meta["params"],
                           "choices": meta["choices"]})
            c.violation(clause, f"{clause} fails at line {lno} of a {meta['kind']} trace: "
                                f"{json.dumps(ln)[:700]}  (previous line: {json.dumps(tr[lno - 2])[:400] if lno > 1 else None})",
                        rp, signature=clause)
    c.cov["drift_traces"] += ndrift
    c.note(f"Level I: {ndrift} polls whose events differ from Polling!EventsOf(SnapshotDiff!Diff(..)) (drift; 0 = the "
           f"model describes the code)")
    c.note(f"PollingTrace: {len(all_traces)} traces / {sum(len(t) for t in all_traces)} lines validated in "
           f"{stats['wall_s']}s, {nbad} clause failures")

    nontrivial = sum(1 for tr in all_traces if any(ln.get("ev") for ln in tr))
    c.cov["evaluations"] += n_polls + len(snap_lines) + n_thr
    c.cov["distinct_nontrivial"] = nontrivial
    c.cov["exhaustive"] = True
    c.cov["rule"] = ("the real PollingEmitter driven poll by poll on the harness VFS: every history of <= %d tree states "
                     "(initial trees = all shapes of <= 2 entries over names {a,b}, depth 2; one Polling.tla!FsOp per step), "
                     "recursive and non-recursive, without fault and with one fault (ENOENT/ENOTDIR/EACCES) at every "
                     "stat/listdir call position of every walk, each followed by one more poll; %d random histories "
                     "(3 names, depth 3, seed %d); every real DirectorySnapshot of every tree of <= %d entries with every "
                     "fault; %d executions of the threaded PollingObserverVFS; evaluation = one poll / one snapshot; "
                     "non-trivial = a trace with at least one event" % (3 if c.thorough else 2, nrand, c.seed,
                                                                        4 if c.thorough else 3, n_thr))
    ex = next((tr for tr, m in zip(all_traces, metas) if m["kind"] == "history" and m.get("fault") and
               any(ln.get("ev") for ln in tr)), all_traces[0])
    c.sample({"trace": ex})
    c.assumptions += [
        "the VFS lists directories in name order and keeps the tree fixed during one walk; a fault is a call that "
        "fails although the entry exists (it is back for the next poll)",
        "an unreadable root (EACCES on listdir(root)) may be handled as 'root gone' or as 'root is empty'",
        "events are observed on the real EventQueue (consecutive identical events would be merged by it)",
        "direct runs call on_thread_start()/queue_events(0) from the harness thread; the threaded runs use the "
        "harness shims for threading/queue",
    ]


def replay(path):
    """--replay of a recorded direct / snapshot trace: re-execute the real code on the recorded trees and faults and
    validate the fresh trace (threaded traces are replayed by checklib through the recorded schedule)."""
    d = json.load(open(path))
    rp = d.get("replay", {})
    kind = rp.get("meta", {}).get("kind")
    if kind not in ("history", "random", "snap"):
        return None
    polling, api, ds = real_modules()
    print(f"replay of {d.get('property')} clause={d.get('clause')}: {d.get('what')[:300]}")
    if kind == "snap":
        ln = rp["trace"][0]
        tree = {tuple(p): (i, k, m, z) for p, i, k, m, z in ln["tree"]}
        f = ln["fault"]
        fresh = [sp.take_snapshot(ds, ln["rec"], tree, f.get("n", 0), f["err"] if f.get("n", 0) else None)[0]]
    else:
        rec, steps = sp.steps_of_trace(rp["trace"])
        fresh, _ = sp.drive_direct((polling, api), rec, steps)
    for ln in fresh:
        print("  ", json.dumps(ln))
    verdicts, _ = tlc.validate_traces("PollingTrace", "PollingTrace.cfg", [fresh], parallel=1, dfs_queue=False)
    bad = [(code // 16, CLAUSES.get(code % 16)) for code in verdicts[0]["viol"] if code > 0]
    print("verdict:", "accepted" if not bad else f"violated (line, clause): {bad}")
    return 1 if bad else 0


if __name__ == "__main__":
    if "--replay" in sys.argv:
        rc = replay(sys.argv[sys.argv.index("--replay") + 1])
        if rc is not None:
            sys.exit(rc)
    checklib.main_wrapper("C10", run)
