"""Virtual file system, tree operations and drivers for the polling emitter (C10).

Trees are dicts  path tuple (small ints) -> (ino, isdir, mtime, size);  () is the watched root (inode 0, a directory);
the empty dict means the root does not exist.  The operations mirror spec/Polling.tla!FsOp.
"""

from __future__ import annotations

import errno
import itertools
import stat as statmod

ROOT = "/r"
NAMES = {1: "a", 2: "b", 3: "c"}
RNAMES = {v: k for k, v in NAMES.items()}
NOPATH = [0]
UNKNOWN = [9, 9, 9]
ERRNO = {"ENOENT": errno.ENOENT, "ENOTDIR": errno.ENOTDIR, "EACCES": errno.EACCES}
NOFAULT = {"op": "none", "p": NOPATH, "err": "none", "n": 0}


def pstr(p):
    return ROOT + "".join("/" + NAMES[n] for n in p)


def ppath(s):
    """'/r/a/b' -> [1, 2]; anything unexpected -> UNKNOWN (no law accepts it)."""
    if not isinstance(s, str) or not (s == ROOT or s.startswith(ROOT + "/")):
        return list(UNKNOWN)
    out = []
    for part in s[len(ROOT):].split("/")[1:]:
        if part not in RNAMES:
            return list(UNKNOWN)
        out.append(RNAMES[part])
    return out


# ------------------------------------------------------------------------------------------ trees and operations
ROOTREC = (0, True, 0, 0)


def subtree(t, p):
    return [q for q in t if q[: len(p)] == p]


def fresh(used, pool):
    free = [i for i in pool if i not in used]
    return min(free) if free else None


def init_trees(names, max_entries, depth=2):
    """Polling.tla!InitTrees: every shape, kinds, inodes numbered in (length, lexicographic) path order."""
    paths = [(n,) for n in names]
    if depth >= 2:
        paths += [(n, m) for n in names for m in names]
    out = []
    for k in range(max_entries + 1):
        for D in itertools.combinations(sorted(paths, key=lambda p: (len(p), p)), k):
            Ds = set(D)
            if any(len(p) > 1 and p[:-1] not in Ds for p in D):
                continue
            order = sorted(D, key=lambda p: (len(p), p))
            for kinds in itertools.product((False, True), repeat=k):
                kd = dict(zip(D, kinds))
                if any(len(p) > 1 and not kd[p[:-1]] for p in D):
                    continue
                t = {(): ROOTREC}
                for p in D:
                    t[p] = (order.index(p) + 1, kd[p], 0, 0)
                out.append(t)
    return out


def successors(t, names, pool, max_entries, depth=2):
    """All (op description, new tree) of Polling.tla!FsOp applicable to t."""
    if () not in t:
        return []
    out = []
    allpaths = [(n,) for n in names]
    if depth >= 2:
        allpaths += [(n, m) for n in names for m in names]
    if depth >= 3:
        allpaths += [(n, m, o) for n in names for m in names for o in names]
    used = {v[0] for v in t.values()}
    for p in allpaths:
        if p not in t:
            if p[:-1] in t and t[p[:-1]][1] and len(t) <= max_entries:
                f = fresh(used, pool)
                if f is not None:
                    for k in (False, True):
                        n = dict(t)
                        n[p] = (f, k, 0, 0)
                        out.append((["create", list(p), k], n))
            continue
        sub = subtree(t, p)
        n = {q: v for q, v in t.items() if q not in sub}
        out.append((["delete", list(p)], n))
        v = t[p]
        n = dict(t)
        n[p] = (v[0], v[1], 1 - v[2], v[3])
        out.append((["modify_mtime", list(p)], n))
        n = dict(t)
        n[p] = (v[0], v[1], v[2], 1 - v[3])
        out.append((["modify_size", list(p)], n))
        rest = {q: w for q, w in t.items() if q not in sub}
        f = fresh({w[0] for w in rest.values()}, pool)
        if f is not None:
            n = dict(rest)
            n[p] = (f, not v[1], 0, 0)
            out.append((["replace", list(p)], n))
        for q in allpaths:
            if q in t:
                if q != p and len(sub) == 1 and subtree(t, q) == [q] and p < q:
                    n = dict(t)
                    n[p], n[q] = t[q], t[p]
                    out.append((["exchange", list(p), list(q)], n))
                continue
            if q[: len(p)] == p or q[:-1] not in t or not t[q[:-1]][1]:
                continue
            if any(len(q) + len(x) - len(p) > depth for x in sub):
                continue
            n = {x: w for x, w in t.items() if x not in sub}
            for x in sub:
                n[q + x[len(p):]] = t[x]
            out.append((["rename", list(p), list(q)], n))
    out.append((["remove_root"], {}))
    return out


def tree_lines(t):
    return [[list(p), v[0], bool(v[1]), v[2], v[3]] for p, v in sorted(t.items())]


# ------------------------------------------------------------------------------------------ the virtual file system
class FakeStat:
    __slots__ = ("st_ino", "st_dev", "st_mode", "st_mtime", "st_size")

    def __init__(self, rec):
        self.st_ino, isdir, self.st_mtime, self.st_size = rec
        self.st_dev = 1
        self.st_mode = (statmod.S_IFDIR | 0o755) if isdir else (statmod.S_IFREG | 0o644)


class FakeEntry:
    __slots__ = ("name",)

    def __init__(self, name):
        self.name = name


class VFS:
    """stat/listdir callables over a switchable tree; a fault (errno) is injected at the n-th call after arm()."""

    def __init__(self):
        self.byname = {}
        self.children = {}
        self.n = 0
        self.fault_at = 0
        self.fault_err = None
        self.hit = None
        self.calls = 0

    def set(self, tree):
        self.byname = {pstr(p): rec for p, rec in tree.items()}
        self.children = {}
        for p in sorted(tree):
            if p:
                self.children.setdefault(pstr(p[:-1]), []).append(NAMES[p[-1]])

    def arm(self, fault_at=0, err=None):
        """Start of a walk: the fault_at-th call (1-based) fails with errno name `err`; 0 = no fault."""
        self.n = 0
        self.fault_at = fault_at
        self.fault_err = err
        self.hit = None

    def _call(self, op, path):
        self.n += 1
        self.calls += 1
        if self.n == self.fault_at:
            self.hit = {"op": op, "p": ppath(path), "err": self.fault_err, "n": self.n}
            # OSError(EACCES, ...) is a PermissionError, OSError(ENOENT, ...) a FileNotFoundError, ...
            raise OSError(ERRNO[self.fault_err], "injected " + self.fault_err, path)

    def stat(self, path):
        self._call("stat", path)
        rec = self.byname.get(path)
        if rec is None:
            raise FileNotFoundError(errno.ENOENT, "no such entry", path)
        return FakeStat(rec)

    def listdir(self, path):
        # every second injected listdir fault surfaces when the listing is ITERATED, not when it is requested (an
        # iterator-style listdir such as os.scandir can fail on either occasion)
        if self.n + 1 == self.fault_at and self.fault_at % 2 == 0:
            self.n += 1
            self.calls += 1
            self.hit = {"op": "listdir", "p": ppath(path), "err": self.fault_err, "n": self.n}
            err = OSError(ERRNO[self.fault_err], "injected " + self.fault_err + " (on iteration)", path)

            def lazy():
                raise err
                yield  # pragma: no cover

            return lazy()
        self._call("listdir", path)
        rec = self.byname.get(path)
        if rec is None:
            raise FileNotFoundError(errno.ENOENT, "no such entry", path)
        if not rec[1]:
            raise NotADirectoryError(errno.ENOTDIR, "not a directory", path)
        return iter([FakeEntry(n) for n in self.children.get(path, [])])

    def fault_line(self):
        return dict(self.hit) if self.hit else dict(NOFAULT)


def event_line(ev):
    cls = type(ev).__name__
    if cls.endswith("Event"):
        cls = cls[:-5]
    dst = getattr(ev, "dest_path", "")
    return [cls, ppath(ev.src_path), ppath(dst) if dst else list(NOPATH)]


# ------------------------------------------------------------------------------------------ direct driver
def drive_direct(mods, rec, steps):
    """Run the REAL PollingEmitter from the calling thread.

    mods  = (polling module, api module)  imported with the real threading module
    steps = [(tree, fault_at, err), ...]: steps[0] is the tree at start(), every further step is one poll.
    Returns the trace (list of lines) and the number of stat/listdir calls of each walk."""
    polling, api = mods
    vfs = VFS()
    q = api.EventQueue()
    watch = api.ObservedWatch(ROOT, recursive=rec)
    em = polling.PollingEmitter(q, watch, timeout=0, stat=vfs.stat, listdir=vfs.listdir)
    trace = []
    ncalls = []
    tree, fat, err = steps[0]
    vfs.set(tree)
    vfs.arm(fat, err)
    try:
        em.on_thread_start()
        res = "ok"
    except OSError:
        res = "raised"
    except Exception as e:  # noqa: BLE001
        res = "raised"
        trace.append({"e": "note", "exc": repr(e)})
    ncalls.append(vfs.n)
    trace.append({"e": "start", "rec": rec, "tree": tree_lines(tree), "fault": vfs.fault_line(), "res": res})
    if res == "raised":
        return [ln for ln in trace if ln["e"] != "note"], ncalls
    for tree, fat, err in steps[1:]:
        vfs.set(tree)
        vfs.arm(fat, err)
        exc = ""
        try:
            em.queue_events(0)
        except Exception as e:  # noqa: BLE001
            exc = f"{type(e).__name__}: {e}"[:100]
        ncalls.append(vfs.n)
        evs = []
        while True:
            try:
                item = q.get_nowait()
            except Exception:  # noqa: BLE001  queue.Empty
                break
            ev, w = item
            evs.append(event_line(ev))
        trace.append({"e": "poll", "tree": tree_lines(tree), "fault": vfs.fault_line(), "ev": evs,
                      "alive": bool(em.should_keep_running()), "exc": exc})
        if exc:
            break
    return trace, ncalls


def steps_of_trace(trace):
    """(rec, steps) that reproduce a recorded direct trace: the trees and the call index / errno of each fault."""
    rec = trace[0]["rec"]
    steps = []
    for ln in trace:
        if ln["e"] in ("start", "poll"):
            tree = {tuple(p): (i, k, m, z) for p, i, k, m, z in ln["tree"]}
            f = ln["fault"]
            steps.append((tree, f.get("n", 0), f["err"] if f.get("n", 0) else None))
    return rec, steps


def take_snapshot(ds, rec, tree, fat, err):
    """One REAL DirectorySnapshot through the VFS: a `snap` line, and the number of calls of the walk."""
    vfs = VFS()
    vfs.set(tree)
    vfs.arm(fat, err)
    got = []
    raised = False
    try:
        s = ds.DirectorySnapshot(ROOT, recursive=rec, stat=vfs.stat, listdir=vfs.listdir)
        for p in sorted(s.paths):
            ino, dev = s.inode(p)
            st = s.stat_info(p)
            got.append([ppath(p), int(ino), int(dev), bool(s.isdir(p)), int(s.mtime(p)), int(s.size(p))])
            if (st.st_ino, st.st_dev) != (ino, dev):
                got[-1][1] = -1
    except OSError:
        raised = True
    return {"e": "snap", "rec": rec, "tree": tree_lines(tree), "fault": vfs.fault_line(), "got": got,
            "raised": raised}, vfs.n


# ------------------------------------------------------------------------------------------ threaded scenario
def observer_program(params):
    """The real threaded PollingObserverVFS under the deterministic scheduler.

    params: rec, order ("schedule_start" | "start_schedule"), steps = [[tree items, fault_at, err], ...]
            (tree items = [[path, ino, isdir, mtime, size], ...]); the poll timer only fires when the driver says so."""
    from harness import loader

    w = loader.load()
    polling = w.mod("observers.polling")
    events = w.mod("events")
    rec = params["rec"]
    steps = [({tuple(p): (i, k, m, z) for p, i, k, m, z in items}, fat, err) for items, fat, err in params["steps"]]

    def program(s):
        vfs = VFS()
        got = []

        class H(events.FileSystemEventHandler):
            def dispatch(self, event):
                got.append(event_line(event))

        trace = []
        obs = polling.PollingObserverVFS(stat=vfs.stat, listdir=vfs.listdir, polling_interval=1)
        tree, fat, err = steps[0]
        vfs.set(tree)
        vfs.arm(fat, err)
        res = "ok"
        try:
            if params.get("order") == "start_schedule":
                obs.start()
                obs.schedule(H(), ROOT, recursive=rec)
            else:
                obs.schedule(H(), ROOT, recursive=rec)
                obs.start()
        except OSError:
            res = "raised"
        trace.append({"e": "start", "rec": rec, "tree": tree_lines(tree), "fault": vfs.fault_line(), "res": res})
        s.wait_quiescent()
        emitters = list(obs.emitters)
        if res == "ok":
            for tree, fat, err in steps[1:]:
                vfs.set(tree)
                vfs.arm(fat, err)
                del got[:]
                nun = len(s.uncaught)
                was_alive = any(e.is_alive() for e in emitters)
                fired = s.fire_manual_timers()
                s.wait_quiescent()
                alive = any(e.is_alive() for e in emitters)
                exc = ""
                if len(s.uncaught) > nun:
                    exc = "uncaught in %s: %s" % (s.uncaught[nun].get("th"), s.uncaught[nun].get("exc"))
                elif was_alive and not fired:
                    exc = "poll timer was not pending"
                trace.append({"e": "poll", "tree": tree_lines(tree), "fault": vfs.fault_line(), "ev": list(got),
                              "alive": alive, "exc": exc})
        if obs.is_alive():
            obs.stop()
            obs.join()
        s.wait_quiescent()
        trace.append({"e": "end", "alive": any(e.is_alive() for e in emitters) or obs.is_alive(),
                      "uncaught": len(s.uncaught)})
        return {"trace": trace}

    program.sched_kw = {"manual_timer": lambda task, label: label == "evwait"}
    return program
