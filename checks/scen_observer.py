"""Scenarios on the real BaseObserver with scripted emitters and recording handlers (C04, C05, C06, C13)."""

from __future__ import annotations

from harness import detsched, loader


def _world():
    w = loader.load()
    api = w.mod("observers.api")
    # BaseObserver.start() works on shared state without the lock: every line of it is a yield point
    detsched.enable_line_yields([api.BaseObserver.start])
    return w


def obs_program(params):
    """params:
        threads : {"app1": [op, ...], ...}
        emit    : {"<w>": [val, ...]}      values emitted by the emitter of watch w (equal values = equal events)
        scripts : {"<h>": {"<k>": [op, ...]}}  handler h runs ops re-entrantly inside its k-th callback
        fail_start / fail_ctor : {"<w>": n}  the first n emitter starts / constructions for watch w raise OSError
    op: ["schedule", h, w] ["unschedule", w] ["add", h, w] ["remove", h, w] ["unschedule_all"] ["start"] ["stop"]
        ["join"] ["await"] ["probe"]
    """
    w_ = _world()
    api = w_.mod("observers.api")
    events = w_.mod("events")
    th = w_.shims["threading"]
    threads = params["threads"]
    emit = {int(k): v for k, v in params.get("emit", {}).items()}
    scripts = {int(h): {int(k): v for k, v in d.items()} for h, d in params.get("scripts", {}).items()}
    fail_start = {int(k): v for k, v in params.get("fail_start", {}).items()}
    fail_ctor = {int(k): v for k, v in params.get("fail_ctor", {}).items()}
    # extra line-level yield points (sys.monitoring), e.g. ["dispatch_events"]: a thread switch between the dispatcher's
    # "still registered?" test and the call of the handler is only possible if those two lines are yield points
    if params.get("line_yields"):
        detsched.enable_line_yields([getattr(api.BaseObserver, n) for n in params["line_yields"]])
    slow = {int(k): v for k, v in params.get("slow", {}).items()}
    em_asc = params.get("em_order", "asc") == "asc"
    h_asc = params.get("h_order", "asc") == "asc"
    watches_used = sorted({op[-1] for ops in list(threads.values()) + [o for d in scripts.values() for o in d.values()]
                           for op in ops if op[0] in ("schedule", "unschedule", "add", "remove")})

    def program(s):
        ev_ids = {}
        n_em = [0]
        vals = {}
        state = {"fs": dict(fail_start), "fc": dict(fail_ctor)}
        marker_hits = []

        # Watch spellings (C13: "distinct watches (path, recursive flag, filter)"): params["wspec"] maps a watch number of
        # the program to {"path": n, "recursive": bool, "filter": [class names] | None, "spell": "str" | "path"}; numbers
        # whose (path, recursive, filter-as-a-set) agree are ONE watch and are logged under the smallest of them.
        import pathlib

        wspec = {int(k): v for k, v in params.get("wspec", {}).items()}

        def spec_of(w):
            d = wspec.get(w, {})
            flt = d.get("filter")
            return (d.get("path", w), bool(d.get("recursive", False)), None if flt is None else frozenset(flt), d.get("spell", "str"),
                    None if flt is None else list(flt))

        def ident(w):       # a bytes path and a str path are two watches (each handler gets its own path type, C19)
            k = spec_of(w)
            return k[:3] + (k[3] == "bytes",)

        def canon(w):
            k = ident(w)
            return min(x for x in set(wspec) | {w} if ident(x) == k)

        def wargs(w):
            pth, rec, _fs, spell, flt = spec_of(w)
            path = f"/w{pth}"
            path = pathlib.Path(path) if spell == "path" else (path.encode() if spell == "bytes" else path)
            return path, rec, (None if flt is None else [getattr(events, n) for n in flt])

        def follow(w):
            return bool(wspec.get(w, {}).get("follow_symlink", False))      # not part of a watch's identity

        def wid(watch):
            flt = watch.event_filter
            key = (int(watch.path[2:]), watch.is_recursive, None if flt is None else frozenset(c.__name__ for c in flt),
                   isinstance(watch.path, bytes))
            ks = [x for x in set(wspec) if ident(x) == key]
            return min(ks) if ks else key[0]

        def mkwatch(w):
            path, rec, flt = wargs(w)
            return api.ObservedWatch(path, recursive=rec, event_filter=flt, follow_symlink=follow(w))

        class ScriptedEmitter(api.EventEmitter):
            def __init__(self, event_queue, watch, *, timeout=1.0, event_filter=None):
                w = wid(watch)
                if state["fc"].get(w, 0) > 0:
                    state["fc"][w] -= 1
                    raise OSError(28, "scripted: emitter cannot be created")
                super().__init__(event_queue, watch, timeout=timeout, event_filter=event_filter)
                n_em[0] += 1
                self.eid = n_em[0]
                self.k = 0
                self.vals = list(emit.get(w, []))
                s.log("em_created", w=w, em=self.eid)

            def on_thread_start(self):
                w = wid(self.watch)
                if state["fs"].get(w, 0) > 0:
                    state["fs"][w] -= 1
                    state["last_fail_w"] = w
                    raise OSError(24, "scripted: emitter cannot be started")

            # deterministic set iteration order (sets of emitters / handlers are hashed by id() otherwise); the order
            # itself is a parameter: the library iterates these sets and nothing promises any particular order
            def __hash__(self):
                return self.eid if em_asc else 7 - self.eid

            def __eq__(self, other):
                return self is other

            def queue_events(self, timeout):
                if self.k < len(self.vals):
                    # a real emitter blocks in a read here, after its stop flag was tested: others may run
                    s.yield_("emit")
                    w = wid(self.watch)
                    v = self.vals[self.k]
                    self.k += 1
                    ev = events.FileModifiedEvent(f"/w{w}/v{v}")
                    evid = self.eid * 100 + self.k
                    ev_ids[id(ev)] = (evid, ev)
                    val = vals.setdefault((w, v), len(vals) + 1)
                    s.log("queued", w=w, ev=evid, val=val, em=self.eid)
                    self.queue_event(ev)
                elif slow.get(wid(self.watch)):
                    # an emitter that is slow to wind down: once told to stop it takes a long time (virtual) to return
                    self.stopped_event.wait()
                    w_.shims["time"].sleep(slow[wid(self.watch)])
                else:
                    self.stopped_event.wait()

        class Marker(events.FileSystemEvent):
            pass

        class RecHandler(events.FileSystemEventHandler):
            def __init__(self, hid):
                self.hid = hid
                self.n = 0

            def dispatch(self, event):
                if isinstance(event, Marker):
                    marker_hits.append(self.hid)
                    return
                evid = ev_ids.get(id(event), (0, None))[0]
                s.log("cb", h=self.hid, ev=evid)
                self.n += 1
                for op in scripts.get(self.hid, {}).get(self.n, []):
                    do(op)

            def __hash__(self):
                return self.hid if h_asc else 7 - self.hid

            def __eq__(self, other):
                return self is other

            def __repr__(self):
                return f"h{self.hid}"

        obs = api.BaseObserver(ScriptedEmitter, timeout=1.0)
        stop_returned = [False]
        handlers = {}

        def H(h):
            if h not in handlers:
                handlers[h] = RecHandler(h)
            return handlers[h]

        def call(op, fn, **kw):
            s.log("call", op=op, **kw)
            try:
                fn()
            except detsched.SchedAbort:
                raise
            except Exception as e:  # noqa: BLE001
                # fw: the watch whose emitter the harness made fail to start during this call (0: none)
                s.log("ret", op=op, ok=False, exc=type(e).__name__, fw=state.pop("last_fail_w", 0) if isinstance(e, OSError) else 0)
                return False
            s.log("ret", op=op, ok=True)
            return True

        def do(op):
            k = op[0]
            if k == "schedule":
                path, rec, flt = wargs(op[2])
                call("schedule", lambda: obs.schedule(H(op[1]), path, recursive=rec, event_filter=flt, follow_symlink=follow(op[2])),
                     h=op[1], w=canon(op[2]))
            elif k == "unschedule":
                call("unschedule", lambda: obs.unschedule(mkwatch(op[1])), w=canon(op[1]))
            elif k == "add":
                call("add", lambda: obs.add_handler_for_watch(H(op[1]), mkwatch(op[2])), h=op[1], w=canon(op[2]))
            elif k == "remove":
                call("remove", lambda: obs.remove_handler_for_watch(H(op[1]), mkwatch(op[2])), h=op[1], w=canon(op[2]))
            elif k == "unschedule_all":
                call("unschedule_all", obs.unschedule_all)
            elif k == "start":
                call("start", obs.start)
            elif k == "stop":
                if call("stop", obs.stop):
                    stop_returned[0] = True
            elif k == "join":
                if call("join", obs.join) and stop_returned[0]:
                    # C06: once stop() and then join() have returned (in this thread), every library thread has exited
                    live = sorted(x.name for x in s.tasks if x.kind == "lib" and x.state != "done" and not x.name.startswith("app"))
                    s.log("final", live=live)
            elif k == "await":
                s.wait_quiescent()
                s.log("quiescent")
            elif k == "probe":
                s.wait_quiescent()
                s.log("quiescent")
                ems = sorted((wid(e.watch), bool(e.is_alive())) for e in list(obs.emitters))
                routes = []
                for w in sorted({canon(x) for x in watches_used}):
                    del marker_hits[:]
                    q = api.EventQueue()
                    q.put((Marker("marker"), mkwatch(w)))
                    obs.dispatch_events(q)
                    routes.append({"w": w, "hs": sorted(marker_hits)})
                s.log("probe", emitters=[{"w": a, "alive": b} for a, b in ems], routes=routes)
            else:
                raise ValueError(op)

        def app(ops):
            for op in ops:
                do(op)

        ts = [th.Thread(target=app, args=(ops,), name=n) for n, ops in sorted(threads.items())]
        for t in ts:
            t.start()
        for t in ts:
            t.join()
        stopped = any(op[0] == "join" for ops in threads.values() for op in ops)
        if stopped:
            live = sorted(x.name for x in s.tasks if x.kind == "lib" and x.state != "done" and not x.name.startswith("app"))
            s.log("final", live=live)
        return {}

    keep = ("call", "ret", "em_created", "queued", "cb", "quiescent", "probe", "final", "uncaught", "deadlock")

    def post(s):
        out = []
        for e in s.trace:
            if e["e"] in keep:
                d = {k: v for k, v in e.items() if k not in ("i", "now")}
                if e["e"] == "deadlock":
                    d = {"t": "sched", "e": "deadlock"}
                out.append(d)
        return out

    def wrapped(s):
        try:
            program(s)
        except detsched.Deadlock as d:
            return {"trace": post(s) + [{"t": "sched", "e": "deadlock"}], "deadlock": d.info}
        return {"trace": post(s)}

    return wrapped
