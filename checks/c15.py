"""C15  Handlers call exactly the callbacks the event type and the match rules dictate.

1. TLC checks Handlers.tla: the three dispatch methods over an UNINTERPRETED match relation; every Boolean match
   matrix for include / exclude lists of size 0..MaxPat (absent = default) x event classes x flags is enumerated, the
   reachable set is the decision table; C15_* state the decision.  Handlers_neg_EmptyDest.cfg switches the repaired
   defect back on (the EMPTY dest_path of a non-move event examined as if it were a path, /repo 4264f5e) and must be
   refuted (non-vacuity of C15_RegexDecision); its witness shape is replayed on the real RegexMatchingEventHandler.
2. Concrete events (all 11 classes; str and bytes paths over a small alphabet with case variants, empty paths, moves
   with two paths) x pattern / regex lists x case_sensitive x ignore_directories are dispatched to recording subclasses
   of the REAL handlers; the match matrix of every case is computed by an independent reference (pathlib / re) and
   (matrix, flags, callbacks actually called) lines are validated by TLC against HandlersTrace.tla, whose monitors
   P_C15_* are the property text.  filter_paths / match_any_paths (sub-sequence, agreement with pathlib) and the
   rejection of conflicting patterns are further line kinds.  Every concrete case is also looked up in TLC's decision
   table (spec -> code: the table's decision must be the handler's).
"""

from __future__ import annotations

import itertools
import json
import multiprocessing as mp
import os
import re
import sys
from pathlib import PurePosixPath, PureWindowsPath

sys.path.insert(0, os.path.dirname(os.path.dirname(os.path.abspath(__file__))))

from harness import checklib, loader, tlc  # noqa: E402

CLASSES = ["FileDeleted", "FileModified", "FileCreated", "FileMoved", "FileClosed", "FileClosedNoWrite", "FileOpened",
           "DirDeleted", "DirModified", "DirCreated", "DirMoved"]
MOVES = ("FileMoved", "DirMoved")
CALLBACKS = ["on_any_event", "on_moved", "on_created", "on_deleted", "on_modified", "on_closed", "on_closed_no_write",
             "on_opened"]

PATHS_Q = ["/d/a.py", "/d/A.PY", "/d/b.txt", "/d", ""]
PATHS_T = PATHS_Q + ["a.py", "/D/a.py", ".", "/d/x/a.py"]
INC_Q = [None, [], ["*"], ["*.py"], ["*.PY"], ["/d/*"], ["*.txt", "*.py"]]
EXC_Q = [None, [], ["*.py"], ["*.PY"], ["/d/*"], ["*.txt", "b.*"]]
INC_T = INC_Q + [["a.*"], ["/D/*"], ["*.py", "*.PY"], ["d/*.py", "*/x/*"]]
EXC_T = EXC_Q + [["*"], ["A.*"], ["*.txt"], ["/d/*", "*.py"]]
# regexes: anchored-at-start semantics of re.match matter for "/d/a" and "a\.py"; "[^.]*$", "[^/]*$" and
# "(?!.*\.txt$)" also match the EMPTY string (finding C15-EmptyDest)
RX_Q = [None, [], [r".*\.py"], [r".*"], [r".*/d$"], [r"/d/a"], [r"a\.py"], [r"[^.]*$"]]
IGN_Q = [None, [], [r".*\.py"], [r".*/d$"], [r"[^/]*$"], [r".*\.PY", r".*\.txt"]]
RX_T = RX_Q + [[r".*\.PY"], [r"(?!.*\.txt$)"], [r".*\.txt", r".*\.py"], [r"/D/"]]
IGN_T = IGN_Q + [[r".*"], [r"/d/A"], [r"\.py$"], [r".*b\.", r"/d$"]]


def world():
    """watchdog.events / watchdog.utils.patterns of the tree under test ($WATCHDOG_SRC or /repo/src)."""
    if loader.REPO_SRC not in sys.path:
        sys.path.insert(0, loader.REPO_SRC)
    import watchdog.events as ev
    import watchdog.utils.patterns as pt

    for m in (ev, pt):
        src = os.path.realpath(m.__file__)
        if not src.startswith(os.path.realpath(loader.REPO_SRC) + os.sep):
            raise RuntimeError(f"watchdog imported from {src}, expected {loader.REPO_SRC}")
    return ev, pt


# ----------------------------------------------------------------------------- independent reference

_memo = {}


def ref_pattern(path, pat, cs):
    """Does `path` match the pathlib pattern `pat`?  Case folded on both sides when case-insensitive."""
    key = ("p", path, pat, cs)
    if key not in _memo:
        _memo[key] = PurePosixPath(path).match(pat) if cs else PurePosixPath(path.lower()).match(pat.lower())
    return _memo[key]


def ref_regex(path, rx, cs):
    key = ("r", path, rx, cs)
    if key not in _memo:
        _memo[key] = re.match(rx, path, 0 if cs else re.IGNORECASE) is not None
    return _memo[key]


def text(p):
    return p.decode("utf-8", "surrogateescape") if isinstance(p, bytes) else p


def row(path, hk, inc, exc, cs):
    f = ref_pattern if hk == "pattern" else ref_regex
    default = "*" if hk == "pattern" else ".*"
    return {"ne": path != "", "inc": [f(path, k, cs) for k in ([default] if inc is None else inc)],
            "exc": [f(path, k, cs) for k in ([] if exc is None else exc)]}


def conflict_kind(inc, exc, cs):
    a, b = set(["*"] if inc is None else inc), set(exc or [])
    if a & b:
        return "lit"
    if not cs and {x.lower() for x in a} & {x.lower() for x in b}:
        return "fold"
    return None


# ----------------------------------------------------------------------------- running the real handlers


def recorders(ev):
    out = {}
    for hk, base in (("base", ev.FileSystemEventHandler), ("pattern", ev.PatternMatchingEventHandler),
                     ("regex", ev.RegexMatchingEventHandler)):
        d = {}
        for n in CALLBACKS:
            def f(self, event, _n=n):
                self.log.append(_n if event is self.cur else _n + "(other event)")
            d[n] = f
        out[hk] = type("Rec" + base.__name__, (base,), d)
    return out


def make_events(ev, paths):
    """[(class name, event object, dest text, src text, 'str'|'bytes')]"""
    out = []
    for cname in CLASSES:
        cls = getattr(ev, cname + "Event")
        for kind in ("str", "bytes"):
            enc = (lambda s: s) if kind == "str" else (lambda s: s.encode())
            if cname in MOVES:
                for s in paths:
                    for d in paths:
                        out.append((cname, cls(enc(s), enc(d)), d, s, kind))
            else:
                for s in paths:
                    out.append((cname, cls(enc(s)), "", s, kind))
    return out


def _dispatch_job(args):
    """One handler configuration x all events.  Returns lines + counters."""
    hk, inc, exc, cs, igndir, paths = args
    ev, _ = world()
    if hk == "base+log":
        # the base recorder behind LoggingEventHandler in a cooperative hierarchy: each on_<type> of the logging handler
        # chains to the same on_<type> of the next class, so the recorder must see exactly what the base handler dictates
        hk = "base"
        rec = type("RecBehindLogging", (ev.LoggingEventHandler, recorders(ev)["base"]), {})
    else:
        rec = recorders(ev)[hk]
    if hk == "base":
        h = rec()
    elif hk == "pattern":
        h = rec(patterns=inc, ignore_patterns=exc, ignore_directories=igndir, case_sensitive=cs)
    else:
        h = rec(regexes=inc, ignore_regexes=exc, ignore_directories=igndir, case_sensitive=cs)
    ck = conflict_kind(inc, exc, cs) if hk == "pattern" else None
    lines, keys = [], []
    obs = {"dot": 0, "dot_ex": None}
    for cname, e, d, s, kind in make_events(ev, paths):
        h.log, h.cur = [], e
        raised = ""
        try:
            h.dispatch(e)
        except Exception as ex:  # noqa: BLE001
            raised = type(ex).__name__
        rows = [row(d, hk, inc, exc, cs), row(s, hk, inc, exc, cs)] if hk != "base" else \
            [{"ne": d != "", "inc": [], "exc": []}, {"ne": s != "", "inc": [], "exc": []}]
        isdir = cname.startswith("Dir")
        case = {"handler": hk, "include": inc, "exclude": exc, "case_sensitive": cs, "ignore_directories": igndir,
                "event": repr(e)}
        if ck:
            lines.append({"e": "conflict", "fn": "handler", "lit": ck == "lit", "fold": ck == "fold", "npaths": 1 + (s != ""),
                          "ignored": igndir and isdir, "raised": raised, "case": case})
            if raised:
                continue
        lines.append({"e": "disp", "hk": hk, "cls": cname, "igndir": igndir, "cs": cs, "rows": rows,
                      "calls": list(h.log), "raised": raised, "case": case})
        # abstract decision-table key: matrix rows as Handlers.tla indexes them (row 1 = dest, row 2 = src if non-empty)
        formed = rows if s != "" else rows[:1]
        keys.append((hk, cname, igndir if hk != "base" else False, s != "", d != "", inc is None, exc is None,
                     tuple(tuple(r["inc"]) for r in formed) if hk != "base" else None,
                     tuple(tuple(r["exc"]) for r in formed) if hk != "base" else None, bool(h.log), len(lines) - 1))
        # informational: the default include list is '*', which is not quite include-all
        if hk == "pattern" and inc is None and not raised and not (igndir and isdir) and not h.log:
            if any(p != "" and not any(ref_pattern(p, k, cs) for k in (exc or [])) for p in (d, s)):
                obs["dot"] += 1
                obs["dot_ex"] = obs["dot_ex"] or case
    return lines, keys, obs


def _filter_job(args):
    inc, exc, cs, seqs, alphabet = args
    _, pt = world()
    ck = conflict_kind(inc, exc, cs)
    ids = {p: i + 1 for i, p in enumerate(alphabet)}
    lines = []
    for seq in seqs:
        seq = list(seq)
        rows = [row(p, "pattern", inc, exc, cs) for p in seq]
        case = {"paths": seq, "include": inc, "exclude": exc, "case_sensitive": cs}
        for fn in ("filter_paths", "match_any_paths"):
            raised, out = "", None
            try:
                r = getattr(pt, fn)(seq, included_patterns=inc, excluded_patterns=exc, case_sensitive=cs)
                out = list(r) if fn == "filter_paths" else r
            except Exception as ex:  # noqa: BLE001
                raised = type(ex).__name__
            if ck:
                lines.append({"e": "conflict", "fn": fn, "lit": ck == "lit", "fold": ck == "fold", "npaths": len(seq),
                              "ignored": False, "raised": raised, "case": case})
                if raised:
                    continue
            line = {"e": "filter", "fn": fn, "cs": cs, "inp": [ids[p] for p in seq], "rows": rows, "raised": raised,
                    "case": case}
            if fn == "filter_paths":
                line["out"] = [ids.get(p, 0) if isinstance(p, str) else 0 for p in (out or [])]
            else:
                line["res"] = out is True if not raised else False
                if not raised and not isinstance(out, bool):
                    line["raised"] = f"returned {type(out).__name__}"
            lines.append(line)
    return lines


# ----------------------------------------------------------------------------- the check


def sanity_reference(c, paths, incs, excs):
    """The reference is meaningful only where pathlib's two flavours agree with 'fold both sides, then match'."""
    pats = sorted({k for lst in incs + excs if lst for k in lst} | {"*"})
    for p in paths:
        for k in pats:
            if PureWindowsPath(p).match(k) != ref_pattern(p, k, False):
                c.machinery_failure(f"alphabet: PureWindowsPath({p!r}).match({k!r}) differs from the case-folded "
                                    "PurePosixPath reference; choose another alphabet")
            if ref_pattern("", k, True) or ref_pattern("", k, False):
                c.machinery_failure(f"axiom EmptyMatchesNoPattern of Handlers.tla is false for pattern {k!r}")


def run(c: checklib.Check):
    ev, pt = world()
    c.note(f"code under test: {os.path.dirname(ev.__file__)}")

    # ---- 1. design spec
    cfg = "Handlers_thorough.cfg" if c.thorough else "Handlers_quick.cfg"
    for name in (cfg,):
        r = tlc.run_tlc("Handlers", name, workers=c.jobs, coverage=True, timeout=3000, heap="8g")
        c.add_tlc("Handlers:" + name, r)
        if not r.ok:
            c.machinery_failure(f"design spec {name} violated: {r.violated} {r.errors[:2]}")
        for act in ("Start", "PatternMatch", "RegexMatch", "CallAny", "CallTyped"):
            if r.coverage.get(act, 0) == 0:
                c.machinery_failure(f"vacuity: action {act} never taken in {name}")
        c.note(f"TLC {name}: {r.distinct} distinct states, depth {r.depth}, {r.wall:.1f}s")
    rn = tlc.run_tlc("Handlers", "Handlers_neg_EmptyDest.cfg", workers=1, timeout=600)
    if "C15_RegexDecision" not in rn.violated:
        c.machinery_failure(f"vacuity: Handlers_neg_EmptyDest.cfg did not refute C15_RegexDecision: {rn.summary()}")
    # replay the shape of the witness on the real handler: a non-move event, an ignore regex that matches the empty
    # string but not the event's path, an include regex that matches the path
    rec = recorders(ev)["regex"]
    h = rec(regexes=[r".*\.py"], ignore_regexes=[r"[^/]*$"])
    e = ev.FileDeletedEvent("/d/a.py")
    h.log, h.cur = [], e
    h.dispatch(e)
    c.cov["dev_empty_dest_counts_reproduces"] = not h.log
    c.note("TLC Handlers_neg_EmptyDest.cfg: old behaviour switched back on violates C15_RegexDecision as expected (an ignore "
           "regex matching the EMPTY dest_path of a non-move event suppresses it); on the real handler "
           "RegexMatchingEventHandler(regexes=['.*\\.py'], ignore_regexes=['[^/]*$']).dispatch(FileDeletedEvent('/d/a.py')) "
           "-> callbacks " + str(h.log)
           + (" : the code under test HAS the defect" if not h.log else " : the code under test examines dest_path only when non-empty"))
    rt = tlc.run_tlc("Handlers", "Handlers_table.cfg", workers=1, timeout=900)
    if not rt.ok:
        c.machinery_failure(f"Handlers_table.cfg failed: {rt.violated} {rt.errors[:2]}")
    table = {}
    for t in tlc.find_tagged(rt.output.replace('<< "', '<<"'), "DT"):
        _, hk, cls, igndir, sne, dne, ia, ea, inc, exc, disp = t
        table[(hk, cls, igndir, sne, dne, ia, ea, None if hk == "base" else tuple(tuple(x) for x in inc),
               None if hk == "base" else tuple(tuple(x) for x in exc))] = disp
    c.note(f"decision table (MaxPat=2): {len(table)} rows")

    # ---- 2. concrete cases on the real code
    paths = PATHS_T if c.thorough else PATHS_Q
    incs, excs = (INC_T, EXC_T) if c.thorough else (INC_Q, EXC_Q)
    rxs, igns = (RX_T, IGN_T) if c.thorough else (RX_Q, IGN_Q)
    sanity_reference(c, paths, incs, excs)
    jobs = [("base", None, None, False, False, paths), ("base+log", None, None, False, False, paths)]
    for cs in (True, False):
        for igndir in (False, True):
            jobs += [("pattern", i, x, cs, igndir, paths) for i in incs for x in excs]
            jobs += [("regex", i, x, cs, igndir, paths) for i in rxs for x in igns]
    maxlen = 3
    seqs = [s for n in range(0, maxlen + 1) for s in itertools.product(paths, repeat=n)]
    if c.thorough:  # all sequences up to length 2, and those of length 3 over the quick alphabet
        seqs = [s for n in range(0, 3) for s in itertools.product(paths, repeat=n)] + \
               [s for s in itertools.product(PATHS_Q + ["."], repeat=3)]
    fjobs = [(i, x, cs, seqs, paths) for cs in (True, False) for i in incs for x in excs]
    lines, keys, obs = [], [], {"dot": 0, "dot_ex": None}
    with mp.get_context("fork").Pool(c.jobs) as pool:
        for ls, ks, ob in pool.map(_dispatch_job, jobs, chunksize=4):
            base = len(lines)
            lines.extend(ls)
            keys.extend(k[:-1] + (base + k[-1],) for k in ks)
            for k in ("dot",):
                obs[k] += ob[k]
                cur, new = obs[k + "_ex"], ob[k + "_ex"]
                if new and (cur is None or ("src_path=''" in cur["event"] and "src_path=''" not in new["event"])):
                    obs[k + "_ex"] = new
        ndisp = len(lines)
        for ls in pool.map(_filter_job, fjobs, chunksize=2):
            lines.extend(ls)
    kinds = {}
    for ln in lines:
        kinds[ln["e"]] = kinds.get(ln["e"], 0) + 1
    c.note(f"real code executed: {len(jobs)} handler configurations x {len(make_events(ev, paths))} events, "
           f"{len(fjobs)} filter configurations x {len(seqs)} path lists; lines: {kinds}")

    # spec -> code: the decision table's verdict for the abstract row of every concrete case
    hit, drift, outside = set(), 0, 0
    for k in keys:
        row_key, disp, idx = k[:-2], k[-2], k[-1]
        if row_key not in table:
            outside += 1
            continue
        hit.add(row_key)
        if table[row_key] != disp:
            drift += 1
            if drift <= 3:
                c.note(f"spec->code drift: table says dispatched={table[row_key]} for {lines[idx]['case']}, handler called {lines[idx]['calls']}")
    c.cov["model_edges"] = len(table)
    c.cov["edges_covered_by_validated_traces"] = len(hit)
    c.cov["drift_traces"] += drift
    c.note(f"decision table: {len(hit)} of {len(table)} rows exercised by concrete cases, {drift} disagreements, "
           f"{outside} cases of shapes the table does not enumerate")

    # code -> spec
    from checks import scen_func

    for ln in lines:
        ln["case"] = json.dumps(ln["case"], default=repr)[:300]  # TLC only needs the projected fields
    bad, stats, ntraces = scen_func.validate_lines("HandlersTrace", "HandlersTrace.cfg", lines, batch=1000, jobs=c.jobs)
    c.add_trace_stats("HandlersTrace", ntraces, stats)
    c.cov["case_lines_validated"] = len(lines)
    c.cov["states"] += stats["distinct"]
    c.cov["transitions"] += stats["generated"]
    c.cov["evaluations"] += len(lines)
    c.cov["distinct_nontrivial"] = len({json.dumps({k: v for k, v in ln.items() if k != "case"}, sort_keys=True) for ln in lines})
    c.cov["exhaustive"] = True
    c.cov["rule"] = ("every event class x str/bytes x paths over %s (moves: all pairs) x include lists %s x exclude lists %s "
                     "(patterns) / %s x %s (regexes) x case_sensitive x ignore_directories, dispatched to recording subclasses "
                     "of the real handlers; filter_paths / match_any_paths on path lists up to length 3; distinct = distinct "
                     "projected lines (matrix, flags, callbacks)" % (paths, incs, excs, rxs, igns))
    perclause = {}
    bad.sort(key=lambda b: ("src_path=''" in str(b[1]["case"]) or "src_path=b''" in str(b[1]["case"]),
                            json.dumps(b[1], sort_keys=True, default=str)))
    for clause, line in bad:
        perclause[clause] = perclause.get(clause, 0) + 1
        if perclause[clause] > 5:
            continue
        c.violation(clause, explain(clause, line), {"case": line, "trace_spec": ["HandlersTrace", "HandlersTrace.cfg"]},
                    signature=clause)
    if bad:
        c.note("failing clauses (case lines): " + ", ".join(f"{k}={v}" for k, v in sorted(perclause.items())))
        c.cov["failing_case_lines"] = perclause
    if obs["dot"]:
        c.note(f"OBSERVATION: {obs['dot']} pattern-handler cases with the DEFAULT include list were not dispatched although a "
               f"non-empty, non-excluded path exists: the default '*' does not match paths without a name component, e.g. {obs['dot_ex']}")
    c.cov["observations"] = {"default_include_not_all": obs["dot"]}
    c.sample({"line": lines[ndisp // 2]})
    c.sample({"line": lines[-1]})
    c.assumptions += [
        "one path vs one pattern: pathlib PurePosixPath.match (both sides lower-cased when case-insensitive; checked to agree "
        "with PureWindowsPath.match on the alphabet); one path vs one regex: re.match (anchored at the start, as the handler "
        "documents 'uses the re module' and its own tests rely on) with re.IGNORECASE when case-insensitive",
        "an absent include list is the documented default '*' / '.*', evaluated by the same reference",
        "'its paths' = the non-empty ones of src_path / dest_path; the empty dest_path of a non-move event is not a path",
        "patterns that coincide only after case folding (case-insensitive call) may be rejected or decided by the rule",
    ]


def explain(clause, line):
    if line["e"] == "disp":
        return (f"{line['case']}: callbacks {line['calls']} raised={line['raised']!r}; reference matrix (dest, src) = "
                f"{[(r['ne'], r['inc'], r['exc']) for r in line['rows']]}")
    if line["e"] == "filter":
        return (f"{line['fn']} {line['case']}: returned {line.get('out', line.get('res'))} raised={line['raised']!r}; "
                f"reference per input path = {[(r['inc'], r['exc']) for r in line['rows']]}")
    return f"{line['fn']} {line['case']}: literal conflict={line['lit']} folded={line['fold']} raised={line['raised']!r}"


if __name__ == "__main__":
    checklib.main_wrapper("C15", run)
