"""Engine shared by the native-pipeline properties C01, C02, C03, C07, C11, C19.

histories   paced operation histories are taken from TLC: the reachable graph of spec/FsGen.tla (FsKernel's
            operations under the pacing condition, no library attached) is dumped and every path of <= K
            operations from the start tree is one history; longer ones come from a seeded random walk that
            applies the same pacing rule.
executions  each history runs on the real InotifyObserver (real kernel, scratch directory) under the
            deterministic scheduler with several timings of the operating process against the library:
            'library' (the observer drains after every system call), 'driver' (operations back to back, the
            library only runs when the driver waits), seeded random and PCT schedules, random read splits.
verdicts    TLC validates every black-box trace against spec/PipelineTrace.tla; a failing clause P_Cxx_* is
            reported by the check of property Cxx only.
"""

from __future__ import annotations

import hashlib
import json
import multiprocessing as mp
import os
import random
import shutil

from harness import checklib, detsched, explore, tlagraph, tlc

SCEN = "checks.scen_pipeline:pipeline_program"
_CTX = mp.get_context("fork")

START = {
    "empty": {"start": [], "outside": []},
    "small": {"start": [["a", "d"], ["a/a", "f"]], "outside": [["a", "d"], ["a/b", "f"]]},
    "deep": {"start": [["a", "d"], ["a/b", "d"], ["a/b/a", "f"], ["b", "f"]], "outside": []},
    # a tree outside with the same shape as one inside: what arrives can meet what a departed tree left behind
    "twin": {"start": [["a", "d"], ["a/b", "d"], ["a/b/a", "f"]], "outside": [["t", "d"], ["t/b", "d"], ["t/b/g", "f"], ["t/b/c", "d"]]},
}
TWIN_HISTORIES = [
    [["moveout", "a", "z1"], ["drain"], ["movein", "t", "a"], ["drain"]],
    [["moveout", "a/b", "z1"], ["drain"], ["movein", "t/b", "a/b"], ["drain"]],
    [["moveout", "a", "z1"], ["drain"], ["movein", "t", "a"], ["drain"], ["movein", "z1", "a/b/d"], ["drain"]],
    [["moveout", "a", "z1"], ["drain"], ["movein", "t/b", "a"], ["drain"], ["mkdir", "a/b"], ["drain"]],
    [["rename", "a", "c"], ["drain"], ["movein", "t", "a"], ["drain"], ["rename", "c", "a/b/d"], ["drain"]],
]


# ----------------------------------------------------------------------------- histories from TLC


def _paths(state):
    """inode -> (top, relpath tuple) from a parsed FsGen state."""
    node = state["node"]  # tuple of records, 1-based
    out = {}

    def path(i):
        n = node[i - 1]
        if n["par"] == 0:
            return ("R" if i == 1 else "O", ())
        top, p = path(n["par"])
        return top, p + (n["nm"],)

    for i in range(1, len(node) + 1):
        if node[i - 1]["k"] != "free":
            out[i] = path(i)
    return out


def _edge_to_op(label, src_state):
    name, args = tlagraph.parse_label(label)
    P = _paths(src_state)

    def rel(t):
        return "/".join(t)

    if name in ("GMkdir", "GCreat"):
        top, p = P[args[0]]
        return [{"GMkdir": "mkdir", "GCreat": "creat"}[name], rel(p + (args[1],))]
    if name == "GMakedirs":
        top, p = P[args[0]]
        return ["makedirs", rel(p + (args[1], args[2]))]
    if name in ("GWrite", "GChmod", "GUnlink", "GRmdir", "GRmtree"):
        top, p = P[args[0]]
        return [{"GWrite": "write", "GChmod": "chmod", "GUnlink": "unlink", "GRmdir": "rmdir", "GRmtree": "rmtree"}[name], rel(p)]
    if name == "GRename":
        top1, p1 = P[args[0]]
        top2, p2 = P[args[1]]
        dst = p2 + (args[2],)
        if top1 == "R" and top2 == "R":
            return ["rename", rel(p1), rel(dst)]
        if top1 == "R":
            return ["moveout", rel(p1), rel(dst)]
        return ["movein", rel(p1), rel(dst)]
    if name == "GDrain":
        return ["drain"]
    raise ValueError(label)


_hist_cache = {}


def tlc_histories(start, maxops, c=None):
    """All paced histories of <= maxops operations from the start tree, as lists of driver ops.  Returns
    (histories, tlc_result)."""
    key = (start, maxops)
    if key in _hist_cache:
        return _hist_cache[key]
    tmp = tlc.scratch_dir()
    try:
        dot = os.path.join(tmp, "g.dot")
        cfg = os.path.join(tmp, "gen.cfg")
        with open(cfg, "w") as f:
            f.write('SPECIFICATION Spec\nCONSTANTS\n  Names = {"a", "b"}\n  MaxIno = 7\n  MaxDepth = 3\n'
                    f'  MaxOps = {maxops}\n  StartTree = "{start}"\nVIEW View\nCHECK_DEADLOCK FALSE\n')
        r = tlc.run_tlc("FsGen", cfg, dump=dot, timeout=900)
        tlc.require_ok(r, "FsGen")
        g = tlagraph.load_dot(dot)
    finally:
        shutil.rmtree(tmp, ignore_errors=True)
    hs = []
    init = g.init[0]

    def rec(nid, ops, depth):
        if ops:
            hs.append(list(ops))
        if depth >= maxops:
            return
        st = g.state(nid)
        for dst, lab in g.out[nid]:
            op = _edge_to_op(lab, st)
            if op[0] == "drain" and (not ops or ops[-1][0] == "drain"):
                continue
            rec(dst, ops + [op], depth + 1)

    rec(init, [], 0)
    # a history that ends with a drain is the same as without it
    seen = set()
    out = []
    for h in hs:
        while h and h[-1][0] == "drain":
            h = h[:-1]
        k = json.dumps(h)
        if h and k not in seen:
            seen.add(k)
            out.append(h)
    _hist_cache[key] = (out, r)
    return out, r


def recreation_histories(start):
    """The histories `X ; drain ; Y` of the K=3 graph in which X takes a directory away from a path (rename, move out,
    rmdir / rmtree) and Y makes a directory appear at or below that very path again (mkdir, makedirs, rename, move in):
    whatever the library left behind under the old path meets the new directory."""
    hs, r = tlc_histories(start, 3)
    out = []
    for h in hs:
        if len(h) != 3 or h[1][0] != "drain" or h[0][0] not in ("rename", "moveout", "rmdir", "rmtree") \
                or h[2][0] not in ("mkdir", "makedirs", "rename", "movein"):
            continue
        gone = h[0][1]
        new = h[2][-1]
        if new == gone or new.startswith(gone + "/"):
            out.append(h)
    if start == "deep":
        # (FsGen's inode budget leaves no room for these) a directory moved out, then a chain of new directories created
        # at its old path in one burst: the lower ones are only reached by the library's own walk of the new directory
        out += [[["moveout", "a", "z1"], ["drain"], ["makedirs", "a/b"]], [["moveout", "a", "z1"], ["drain"], ["makedirs", "a/b/a"]],
                [["moveout", "a/b", "z1"], ["drain"], ["makedirs", "a/b/a"]],
                [["moveout", "a", "z1"], ["drain"], ["makedirs", "a/b"], ["drain"], ["movein", "z1", "a/b/c"]]]
    return out, r


# ----------------------------------------------------------------------------- random paced histories (Python walk)


def _propose(rng, T, O, names, nout):
    """A random operation that is executable on the trees T / O (pacing is decided by history_check)."""
    dirs = [()] + [p for p, k in T.items() if k == "dir"]
    ents = sorted(T)
    kind = rng.choice(["mkdir", "creat", "write", "chmod", "unlink", "rmdir", "rmtree", "rename", "rename", "moveout", "movein",
                       "makedirs", "drain"])
    j = "/".join
    if kind == "drain":
        return ["drain"]
    if kind in ("mkdir", "creat"):
        return [kind, j(rng.choice(dirs) + (rng.choice(names),))]
    if kind == "makedirs":
        return [kind, j(rng.choice(dirs) + (rng.choice(names), rng.choice(names)))]
    if kind == "movein":
        tops = sorted(q for q in O if len(q) == 1)
        if not tops:
            return None
        return [kind, j(rng.choice(tops)), j(rng.choice(dirs) + (rng.choice(names),))]
    if not ents:
        return None
    p = rng.choice(ents)
    if kind in ("write", "chmod", "unlink", "rmdir", "rmtree"):
        return [kind, j(p)]
    if kind == "rename":
        return [kind, j(p), j(rng.choice(dirs) + (rng.choice(names),))]
    return ["moveout", j(p), f"z{nout}"]


def random_history(seed, length, names=("a", "ab", "b", "abc", "c", "d"), maxdepth=4):   # names that are character prefixes of each other
    """Seeded random history that is executable and respects the pacing condition: every proposed operation is accepted
    only if checks/history_check.py (the mirror of FsKernel.PacingOK, cross-checked against the TLC histories) accepts it."""
    from checks import history_check as hc

    rng = random.Random(seed)
    base = START[rng.choice(["small", "deep", "empty"])]
    outside = list(base["outside"]) + [["t", "d"], ["t/u", "d"], ["t/u/g", "f"], ["t/h", "f"], ["s", "f"]]
    ops = []
    reason, T, O = hc.simulate(base["start"], outside, ops)
    nout = 0
    tries = 0
    while len(ops) < length and tries < length * 60:
        tries += 1
        op = _propose(rng, T, O, list(names), nout + 1)
        if op is None or (op[0] == "drain" and (not ops or ops[-1][0] == "drain")):
            continue
        if len(op) > 1 and max(len(x.split("/")) for x in op[1:]) > maxdepth:
            continue
        r2, T2, O2 = hc.simulate(base["start"], outside, ops + [op])
        if r2 is not None:
            continue
        if T2 and max(len(q) for q in T2) > maxdepth:
            continue
        ops.append(op)
        T, O = T2, O2
        if op[0] == "moveout":
            nout += 1
    return {"start": base["start"], "outside": outside, "ops": ops}


# ----------------------------------------------------------------------------- execution


def _strategy(spec):
    from checks import scen_pipeline as sp

    k = spec[0]
    if k == "prio":
        return sp.PriorityStrategy(spec[1])
    if k == "random":
        return detsched.PrefixStrategy((), tail=detsched.RandomStrategy(spec[1], stickiness=spec[2]))
    if k == "pct":
        return detsched.PrefixStrategy((), tail=detsched.PCTStrategy(spec[1], depth=spec[2], est_steps=600))
    if k == "replay":
        return detsched.PrefixStrategy(spec[1])
    raise ValueError(spec)


def _run_job(job):
    out = []
    for params, spec in job:
        st = _strategy(spec)
        rec, s = explore.execute(SCEN, params, st)
        choices = [r[2] for r in st.record] if hasattr(st, "record") else None
        out.append({"trace": rec["trace"], "outcome": rec["outcome"], "error": rec["error"], "params": params, "spec": list(spec),
                    "choices": choices, "model_ok": rec["extra"].get("model_ok", True)})
    return out


def run_cases(c: checklib.Check, cases, label):
    """cases: list of (params, strategy spec).  Returns list of unique records."""
    from checks import history_check as hc

    for params, _spec in cases:
        why = hc.check_history(params.get("start", []), params.get("outside", []), params["ops"], paced=params.get("paced", True))
        if why:
            c.machinery_failure(f"generated history is not executable / not paced: {why}; params={params}")
    k = c.jobs * 4
    chunks = [cases[i::k] for i in range(k)]
    chunks = [x for x in chunks if x]
    with _CTX.Pool(c.jobs) as pool:
        res = pool.map(_run_job, chunks, chunksize=1)
    uniq = {}
    n = 0
    for part in res:
        for r in part:
            n += 1
            if r["outcome"] in ("error", "divergence", "steplimit"):
                c.machinery_failure(f"pipeline scenario failed in the harness: {r['outcome']} {r['error']} params={r['params']}")
            hbad = [e for e in r["trace"] if e.get("e") == "uncaught" and str(e.get("th", "")).startswith("h")]
            if hbad:
                c.machinery_failure(f"a harness thread raised: {hbad[0]} params={r['params']}")
            if not r["model_ok"]:
                c.machinery_failure(f"the driver's record of the tree disagrees with the real tree: params={r['params']}")
            h = hashlib.sha1(json.dumps(r["trace"], sort_keys=True, default=str).encode()).hexdigest()
            if h not in uniq:
                uniq[h] = r
    c.cov["evaluations"] += n
    c.note(f"{label}: {n} executions, {len(uniq)} distinct traces")
    return list(uniq.values())


def validate(c: checklib.Check, prop, recs, *, sig_fn=None):
    traces = [r["trace"] for r in recs]
    if not traces:
        return
    verdicts, stats = tlc.validate_traces("PipelineTrace", "PipelineTrace.cfg", traces,
                                          chunk=max(30, len(traces) // (c.jobs * 3) + 1), parallel=c.jobs, heap="3g")
    c.add_trace_stats("PipelineTrace", len(traces), stats)
    c.cov["states"] += stats["distinct"]
    c.cov["transitions"] += stats["generated"]
    c.cov["distinct_nontrivial"] += len(traces)
    foreign = {}
    for r, v in zip(recs, verdicts):
        if v["accepted"]:
            continue
        rp = {"scenario": SCEN, "params": r["params"], "strategy": r["spec"], "choices": r["choices"], "trace": r["trace"],
              "trace_spec": ["PipelineTrace", "PipelineTrace.cfg"]}
        if not v["viol"]:
            c.machinery_failure(f"PipelineTrace could not consume a trace beyond line {v['furthest']}: "
                                f"{r['trace'][v['furthest'] - 1] if 0 < v['furthest'] <= len(r['trace']) else None}")
        for clause in v["viol"]:
            owner = clause.split("_")[1]
            if owner != prop:
                foreign[owner] = foreign.get(owner, 0) + 1
                continue
            sig = sig_fn(clause, r) if sig_fn else clause
            c.violation(clause, f"{clause} is FALSE on a trace of the real inotify pipeline; history "
                                f"{r['params']['ops']} (recursive={r['params'].get('recursive', True)}, timing {r['spec']})",
                        rp, signature=sig)
    if foreign:
        c.cov.setdefault("foreign_failures", {})
        for k_, v_ in foreign.items():
            c.cov["foreign_failures"][k_] = c.cov["foreign_failures"].get(k_, 0) + v_
        c.note(f"traces failing clauses owned by other properties (decided by their checks): {foreign}")
    if recs:
        c.sample({"history": recs[0]["params"]["ops"], "timing": recs[0]["spec"], "trace": recs[0]["trace"][:10]})


PREFIX_NAMES = {"a": "x", "b": "xy"}   # on-disk spellings for the logical names of the TLC histories: one is a
                                         # character prefix of the other (path-prefix tests must compare components)


def timings(seed, n_random=2, n_pct=1):
    out = [("prio", "library"), ("prio", "driver")]
    for i in range(n_random):
        out.append(("random", seed * 101 + i, 0.6))
    for i in range(n_pct):
        out.append(("pct", seed * 103 + i, 3))
    return out


def run_design(c: checklib.Check, histories=True):
    """The design models: InotifyPipeline.tla (FsKernel x reader x replica, exhaustive over histories, read splits and
    placements of reader steps) with its negative / deviation configurations, and the paced operation graph FsGen."""
    pos = ["InotifyPipeline_quick.cfg", "InotifyPipeline_quick_empty.cfg"]
    if c.thorough:
        pos += ["InotifyPipeline_thorough.cfg", "InotifyPipeline_thorough_deep.cfg"]
    for cfg in pos:
        r = tlc.run_tlc("InotifyPipeline", cfg, workers=c.jobs, timeout=3000, heap="8g")
        c.add_tlc("InotifyPipeline:" + cfg, r)
        if not r.ok:
            c.machinery_failure(f"design spec {cfg} violated: {r.violated} {r.errors[:2]}")
        c.note(f"TLC {cfg}: {r.distinct} distinct states, depth {r.depth}, {r.wall:.1f}s")
    for cfg, inv in (("InotifyPipeline_neg_D6.cfg", "C02_WatchedEqualsDirs"), ("InotifyPipeline_dev_D7.cfg", "C02_NoStaleWatches"),
                     ("InotifyPipeline_dev_D7_replica.cfg", "C01_ReplicaMatches")):
        r = tlc.run_tlc("InotifyPipeline", cfg, workers=c.jobs, timeout=3000, heap="8g")
        if inv not in r.violated:
            c.machinery_failure(f"vacuity: {cfg} did not violate {inv}: {r.summary()}")
    c.note("InotifyPipeline negative (D6 switched back on) and deviation (D7, known finding) configurations violate their "
           "invariants as expected")
    # environment validation (DESIGN §5.6): the kernel half of the model against the real kernel
    from checks import kernel_validation as kv

    hist = []
    for start in ("small", "deep", "empty"):
        hs, r = tlc_histories(start, 3 if c.thorough else 2)
        if histories:
            c.add_tlc(f"FsGen:{start}", r)
        step = 3 if c.thorough else 12
        hist += [(START[start]["start"], START[start]["outside"], h) for h in hs[c.seed % step:: step]]
    kv.validate(c, hist)


# ----------------------------------------------------------------------------- spec -> code: walks of InotifyPipeline.tla


def _walk_job(args):
    from checks import scen_reader_replay as rr

    init, walks = args
    out = []
    for labels, states in walks:
        mm = rr.replay_walk(init, list(zip(labels, states)))
        out.append(mm)
    return out


def replay_design_walks(c: checklib.Check, cfgs=("InotifyPipeline_quick.cfg", "InotifyPipeline_quick_empty.cfg"), every=1):
    """Transition cover of the dumped InotifyPipeline graphs replayed on the real Inotify.read_events (real kernel):
    driver actions as system calls, RdRead(n) / RdStep as exactly n raw events read / one raw event processed, the
    library's watch table compared with the model's after every action.  Divergence = drift (DESIGN §3)."""
    total = bad = edges = 0
    for cfg in cfgs:
        tmp = tlc.scratch_dir()
        try:
            dot = os.path.join(tmp, "g.dot")
            r = tlc.run_tlc("InotifyPipeline", cfg, dump=dot, timeout=1800, heap="8g")
            tlc.require_ok(r, cfg)
            g = tlagraph.load_dot(dot)
        finally:
            shutil.rmtree(tmp, ignore_errors=True)
        walks, n_edges = tlagraph.transition_cover(g, max_len=40, skip_labels=("Done",))
        edges += n_edges
        walks = walks[c.seed % every:: every]
        init = g.state(g.init[0])
        keep = ("node", "wfp")
        jobs = []
        k = c.jobs * 3
        for i in range(k):
            part = [([lab for lab, _ in w], [{kk: g.state(nid)[kk] for kk in keep} for _, nid in w]) for _, w in walks[i::k]]
            if part:
                jobs.append(({kk: init[kk] for kk in keep}, part))
        with _CTX.Pool(c.jobs) as pool:
            res = pool.map(_walk_job, jobs, chunksize=1)
        for part in res:
            for mm in part:
                total += 1
                if mm is not None:
                    bad += 1
                    if bad <= 3:
                        c.note(f"spec->code drift ({cfg}): {str(mm)[:400]}")
    c.cov["model_edges"] = c.cov.get("model_edges", 0) + edges
    c.cov["walks_replayed"] = c.cov.get("walks_replayed", 0) + total
    c.cov["drift_traces"] += bad
    c.cov["evaluations"] += total
    c.note(f"spec->code: {total} walks covering {edges} edges of InotifyPipeline.tla replayed on the real Inotify.read_events, "
           f"{bad} diverged")
    return total, bad
