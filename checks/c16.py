"""C16  The event queue drops only true consecutive duplicates and never anything else.

1. TLC checks the implementation-shaped SkipRepeatsQueue.tla exhaustively (all interleavings).
2. spec -> code: a transition cover of that model is replayed on the real SkipRepeatsQueue, comparing
   queue contents / _last_item / obtained items after every action.
3. code -> spec: the real queue is run under bounded-preemption DFS and random schedules; TLC validates
   every recorded call/return trace against SkipRepeatsQueueTrace.tla (Level P: unlogged linearization points).
4. equality/hash law of the event classes as monitor lines of the same trace spec.
"""

from __future__ import annotations

import itertools
import multiprocessing as mp
import os
import sys

sys.path.insert(0, os.path.dirname(os.path.dirname(os.path.abspath(__file__))))

from harness import checklib, explore, loader, tlagraph, tlc  # noqa: E402


def eqlaw_traces():
    w = loader.load()
    ev = w.mod("events")
    classes = [ev.FileSystemEvent, ev.FileSystemMovedEvent, ev.FileDeletedEvent, ev.FileModifiedEvent,
               ev.FileCreatedEvent, ev.FileMovedEvent, ev.FileClosedEvent, ev.FileClosedNoWriteEvent,
               ev.FileOpenedEvent, ev.DirDeletedEvent, ev.DirModifiedEvent, ev.DirCreatedEvent, ev.DirMovedEvent]
    objs = []
    for c in classes:
        for src in ("a", "b", b"a"):
            for dst in ("", "c"):
                for syn in (False, True):
                    objs.append(c(src, dst, is_synthetic=syn))
    fields = ("src_path", "dest_path", "event_type", "is_directory", "is_synthetic")
    lines = []
    for a in objs:
        for b in objs:
            lines.append({"t": "main", "e": "eqlaw", "op": "eqlaw",
                          "eq": bool(a == b), "ne": bool(a != b), "heq": hash(a) == hash(b),
                          "samecls": type(a) is type(b),
                          "samefields": all(getattr(a, f) == getattr(b, f) and type(getattr(a, f)) is type(getattr(b, f))
                                            for f in fields),
                          "a": repr(a), "b": repr(b)})
    # the observer queues (event, watch) tuples: same law through the tuple
    return [lines[i : i + 2000] for i in range(0, len(lines), 2000)], len(objs)


def _replay_job(args):
    from checks import scen_queues

    acts, states = args
    return scen_queues.srq_replay(acts, states)


def run(c: checklib.Check):
    # ---- 1. design spec, exhaustive
    cfg = "SkipRepeatsQueue_thorough.cfg" if c.thorough else "SkipRepeatsQueue_quick.cfg"
    r = tlc.run_tlc("SkipRepeatsQueue", cfg, workers=c.jobs, coverage=True, timeout=3000, heap="8g")
    c.add_tlc("SkipRepeatsQueue:" + cfg, r)
    for act in ("PutRead1", "PutRead2", "PutEnq", "Get"):
        if r.coverage.get(act, 0) == 0:
            c.machinery_failure(f"vacuity: action {act} never taken in {cfg}")
    if not r.ok:
        # a design counterexample is not reported as such (DESIGN §3); the model describes the code, so this is
        # a machinery failure until reproduced on the code by the trace checks below
        c.machinery_failure(f"design spec violated: {r.violated} {r.errors[:2]}")
    c.note(f"TLC {cfg}: {r.distinct} distinct states, depth {r.depth}, {r.wall:.1f}s")

    # ---- 2. spec -> code: transition cover of a dumped graph
    tmp = tlc.scratch_dir()
    try:
        dot = os.path.join(tmp, "srq.dot")
        r2 = tlc.run_tlc("SkipRepeatsQueue", "SkipRepeatsQueue_cover.cfg", workers=c.jobs, dump=dot, timeout=600)
        tlc.require_ok(r2, "cover model")
        g = tlagraph.load_dot(dot)
    finally:
        import shutil

        shutil.rmtree(tmp, ignore_errors=True)
    walks, nedges = tlagraph.transition_cover(g, max_len=40)
    jobs = []
    for root, walk in walks:
        acts = [tlagraph.parse_label(lab) for lab, _ in walk]
        states = [{k: g.state(n)[k] for k in ("q", "last", "got")} for _, n in walk]
        jobs.append((acts, states))
    with mp.get_context("fork").Pool(c.jobs) as pool:
        res = pool.map(_replay_job, jobs, chunksize=20)
    nbad = 0
    for (acts, states), mm in zip(jobs, res):
        if mm is not None:
            nbad += 1
            # divergence from the implementation-shaped model = drift; decided by Level P below
            if nbad <= 3:
                c.note(f"spec->code drift: {mm}")
    c.cov["model_edges"] = nedges
    c.cov["walks_replayed"] = len(jobs)
    c.cov["drift_traces"] += nbad
    c.cov["evaluations"] += len(jobs)
    c.note(f"spec->code: {len(jobs)} walks over {nedges} edges replayed, {nbad} diverged")
    c.sample({"walk": [str(a) for a in jobs[len(jobs) // 2][0]]})

    # ---- 3. code -> spec
    traces = []
    meta = []

    def add(recs, tag):
        for rec in recs:
            traces.append(rec["trace"])
            meta.append({"tag": tag, "choices": rec.get("choices"), "params": rec.get("params")})

    total = 0
    # (a) all sequential words
    maxlen = 6 if c.thorough else 5
    n_words = 0
    from checks import scen_queues
    from harness import detsched

    for L in range(1, maxlen + 1):
        for word in itertools.product((1, 2, "g"), repeat=L):
            prog = scen_queues.srq_word_program({"word": list(word)})
            s = detsched.run(prog, detsched.PrefixStrategy(()))
            if s.outcome != "ok":
                c.machinery_failure(f"word program failed: {s.outcome} {s.error}")
            traces.append(s.result["trace"])
            meta.append({"tag": "word", "params": {"word": list(word)}, "scenario": "checks.scen_queues:srq_word_program",
                         "choices": []})
            n_words += 1
    total += n_words
    # (b) DFS on small concurrent programs
    bound = 3 if c.thorough else 2
    patterns = [
        ({"producers": [[1, 1], [1, 2]], "gets": ["b", "n", "n"]}, bound),
        ({"producers": [[1, 2], [2, 1]], "gets": ["n", "n", "n"]}, bound),
        ({"producers": [[1, 1], [1, 1]], "gets": ["n", "n", "n"]}, bound),
        ({"producers": [[1], [1], [2]], "gets": ["b", "n"]}, bound - 1),
    ]
    if c.thorough:
        patterns += [
            ({"producers": [[2, 1], [1, 1]], "gets": ["n", "n", "n"]}, bound),
            ({"producers": [[1], [1], [1]], "gets": ["b", "n", "n"]}, bound - 1),
        ]
    # put() touches shared state outside the queue's mutex; the scheduler can only separate what has a yield point between:
    # here every bytecode instruction of put() is one (two reads in one expression can be torn apart)
    patterns += [
        ({"producers": [[1, 2]], "gets": ["b", "n"], "ins_yields": True}, 2),
        ({"producers": [[1, 1, 2]], "gets": ["n", "b", "n"], "ins_yields": True}, 1),
        ({"producers": [[1], [2]], "gets": ["b", "n"], "ins_yields": True}, 1),
    ]
    for pat, bnd in patterns:
        n, recs = explore.dfs("checks.scen_queues:srq_program", pat, bnd, jobs=c.jobs, split_depth=4)
        for rec in recs:
            rec["params"] = pat
            if rec["outcome"] != "ok":
                c.violation("P_C16_NoDeadlock", f"queue program ended with {rec['outcome']}",
                            {"scenario": "checks.scen_queues:srq_program", "params": pat, "choices": rec["choices"]})
        for rec in recs:
            raised = [e for e in rec["trace"] if e.get("exc")]
            if raised:
                c.violation("P_C16_NoException", f"SkipRepeatsQueue.{raised[0]['op']}() raised {raised[0]['exc']} (program {pat})",
                            {"scenario": "checks.scen_queues:srq_program", "params": pat, "choices": rec["choices"], "trace": rec["trace"]})
        add([r_ for r_ in recs if r_["outcome"] == "ok" and not any(e.get("exc") for e in r_["trace"])], "dfs")
        total += n
        c.note(f"dfs b={bnd} {pat}: {n} executions, {len(recs)} distinct traces")
    # (c) random schedules on a longer program
    pat = {"producers": [[1, 1, 2, 2], [1, 2, 1, 2], [2, 2, 1, 1]], "gets": ["b", "n", "n", "n", "n", "n", "n"]}
    nseeds = 3000 if c.thorough else 300
    n, recs = explore.sample("checks.scen_queues:srq_program", pat, range(c.seed * 100000, c.seed * 100000 + nseeds),
                             jobs=c.jobs, extra={"stickiness": 0.9})
    for rec in recs:
        rec["params"] = pat
    add([r_ for r_ in recs if r_["outcome"] == "ok"], "random")
    total += n
    c.note(f"random: {n} executions, {len(recs)} distinct traces")

    # (d) equality law
    eq_traces, nobj = eqlaw_traces()
    for t in eq_traces:
        traces.append(t)
        meta.append({"tag": "eqlaw"})

    c.cov["evaluations"] += total + nobj * nobj
    c.cov["distinct_nontrivial"] = len(traces)
    c.cov["rule"] = ("executions of the real SkipRepeatsQueue: all put/get words up to length %d, bounded-preemption "
                     "DFS (b=%d) on %d producer/consumer programs, %d random schedules; distinct = distinct "
                     "call/return traces; non-trivial = contains at least one put and one get" % (maxlen, bound,
                                                                                                len(patterns), nseeds))
    verdicts, stats = tlc.validate_traces("SkipRepeatsQueueTrace", "SkipRepeatsQueueTrace.cfg", traces,
                                          chunk=max(50, len(traces) // (c.jobs * 2) + 1), parallel=c.jobs)
    c.add_trace_stats("SkipRepeatsQueueTrace", len(traces), stats)
    c.cov["states"] += stats["distinct"]
    c.cov["transitions"] += stats["generated"]
    for tr, m, v in zip(traces, meta, verdicts):
        if not v["accepted"]:
            line = tr[v["furthest"] - 1] if 0 < v["furthest"] <= len(tr) else None
            c.violation("P_C16_Explainable",
                        f"no placement of the linearization points explains the trace beyond line {v['furthest']}: {line}",
                        {"scenario": "checks.scen_queues:srq_program" if m["tag"] != "word" else m.get("scenario"),
                         "params": m.get("params"), "choices": m.get("choices"), "trace": tr, "furthest": v["furthest"], "trace_spec": ["SkipRepeatsQueueTrace", "SkipRepeatsQueueTrace.cfg"]},
                        signature="P_C16_Explainable")
        for clause in v["viol"]:
            bad = [e for e in tr if e.get("e") == "eqlaw" and (e["eq"] != (e["samecls"] and e["samefields"]) or
                                                                  (e["eq"] and not e["heq"]) or e["ne"] == e["eq"])][:3]
            c.violation(clause, f"event equality/hash law broken, e.g. {bad}", {"lines": bad}, signature=clause)
    c.sample({"trace": traces[n_words + 3][:12]})
    c.assumptions += [
        "shim threading/queue behave like CPython's (queue.Queue is CPython's own source executed on the shims)",
        "unlocked accesses of SkipRepeatsQueue._last_item are yield points (data descriptor installed by the harness)",
    ]


if __name__ == "__main__":
    checklib.main_wrapper("C16", run)
