"""C18  Tricks: debounced batches complete and ordered; one child at a time; stop ends all.

1. TLC checks the implementation-shaped models Debouncer.tla (explicit waiter set: a notify with no waiter is
   lost; virtual clock; liveness C18_ThreadExits), AutoRestart.tla (process table, the two flags, the watcher
   and debouncer threads, stop()) and ShellCommand.tla -- in the configuration that carries the proposed repairs
   (FixD8, FixLock) every C18_* property holds; the negative configurations (the code as it is) must be refuted.
2. code -> spec: the REAL EventDebouncer / AutoRestartTrick / ShellCommandTrick run under the deterministic
   scheduler (virtual clock, simulated process table): bounded-preemption DFS over families of short programs plus
   seeded random / PCT schedules over random programs.  TLC validates every black-box trace against
   TricksTrace.tla (Level P); a trace that only fails because of the recorded finding D8 (event / stop before the
   debouncer thread first waits) is recognised by validating it again with AllowD8 = TRUE.
Signatures: "D8:<clause>" for D8-explained failures, "<clause>@<family>" otherwise.
"""

from __future__ import annotations

import itertools
import multiprocessing as mp
import os
import re
import sys
from concurrent.futures import ThreadPoolExecutor

sys.path.insert(0, os.path.dirname(os.path.dirname(os.path.abspath(__file__))))

from harness import checklib, explore, tlc  # noqa: E402

DEB = "checks.scen_tricks:deb_program"
AR = "checks.scen_tricks:ar_program"
ARR = "checks.scen_tricks:ar_random"
DEBR = "checks.scen_tricks:deb_random"
SH = "checks.scen_tricks:sh_program"


# ----------------------------------------------------------------------------- program families


def deb_programs(thorough):
    """EventDebouncer alone: k <= 3 events at gaps from {0, iv-1, iv, iv+1}, stop() at every position (also before
    the first event, i.e. possibly before the thread first waits), then join(); and the same without stop()."""
    out = []
    for iv in (2, 0):
        gaps = (0, 1, 2, 3) if iv else (0, 1)
        for k in range(0, 4):
            combos = list(itertools.product(gaps, repeat=max(0, k - 1)))
            if k == 3 and iv and not thorough:
                combos = [g for g in combos if g[0] in (0, 2) or g[1] in (1, 3)]
            for gs in combos:
                seq = []
                for i in range(k):
                    if i > 0 and gs[i - 1]:
                        seq.append(["sleep", gs[i - 1]])
                    seq.append(["ev", i + 1])
                for pos in range(len(seq) + 1):
                    ops = seq[:pos] + [["stop"], ["join"]] + seq[pos:]
                    out.append({"iv": iv, "threads": {"p": ops}, "fam": "deb_seq"})
                if k:
                    out.append({"iv": iv, "threads": {"p": seq}, "fam": "deb_seq"})
                    out.append({"iv": iv, "threads": {"p": seq + [["sleep", 3], ["stop"], ["join"]]}, "fam": "deb_seq"})
    # two producers (arrival order is decided by the lock), stop from a third thread, slow callbacks
    for iv in (2, 0):
        out.append({"iv": iv, "threads": {"p": [["ev", 1], ["sleep", 1], ["ev", 3]], "q": [["ev", 2]]}, "fam": "deb_conc"})
        out.append({"iv": iv, "threads": {"p": [["ev", 1], ["ev", 2]], "q": [["stop"], ["join"]]}, "fam": "deb_conc"})
        out.append({"iv": iv, "threads": {"p": [["ev", 1], ["sleep", 2], ["ev", 2]], "q": [["sleep", 2], ["stop"], ["join"]]},
                    "fam": "deb_conc"})
        out.append({"iv": iv, "slowcb": 3, "threads": {"p": [["ev", 1], ["sleep", iv + 1], ["ev", 2], ["ev", 3]]},
                    "fam": "deb_slowcb"})
        out.append({"iv": iv, "slowcb": 3, "threads": {"p": [["ev", 1], ["sleep", iv + 1], ["ev", 2]],
                                                       "q": [["sleep", iv + 2], ["stop"], ["join"]]}, "fam": "deb_slowcb"})
    return out


def ar_programs(thorough):
    """AutoRestartTrick: (params, bound) pairs.  `main` plays environment (child exits) and application (stop)."""
    out = []

    def opts(roe, deb, dos, ka=0.5):
        return {"roe": roe, "deb": deb, "dos": dos, "kill_after": ka, "fine": False}

    allopts = [opts(r, d, s, ka) for r in (True, False) for d in (0, 2) for s, ka in ((True, 0.5), (False, 0.5), (False, 0))]
    b_small = 2 if thorough else 1
    # sequential: everything comes to rest between two steps (no two restarts / stop ever overlap)
    for o in allopts:
        seq = [["ev", "m"], ["settle"], ["exit"], ["settle"], ["ev", "x"], ["ev", "o"], ["ev", "v"], ["settle"], ["exit"],
               ["settle"], ["stop"]]
        out.append((dict(o, fam="ar_seq", threads={"main": seq}), b_small))
        out.append((dict(o, fam="ar_seq", threads={"main": [["ev", "m"], ["ev", "c"], ["ev", "m"], ["settle"]]}), b_small))
        out.append((dict(o, fam="ar_seq", threads={"main": [["settle"], ["ev", "m"], ["settle"], ["stop"]]}), b_small))
    # an event while the child exits by itself
    for o in allopts:
        if o["kill_after"] == 0 and not thorough:
            continue
        out.append((dict(o, fam="ar_ev_exit", threads={"disp": [["ev", "m"]], "main": [["exit"], ["settle"], ["stop"]]}),
                    2 if (thorough and not o["deb"]) else 1))
    # an event while stop() runs
    for o in allopts:
        out.append((dict(o, fam="ar_ev_stop", threads={"disp": [["ev", "m"]], "main": [["stop"]]}), 2))
        if thorough:
            out.append((dict(o, fam="ar_ev_stop", threads={"disp": [["ev", "m"], ["ev", "m"]], "main": [["sleep", 1], ["stop"]]}), 1))
    # the child exits by itself while stop() runs
    for o in allopts:
        if o["roe"]:
            out.append((dict(o, fam="ar_exit_stop", threads={"main": [["exit"], ["stop"]]}), 2))
    # all three
    for o in allopts:
        if o["roe"] and (thorough or (o["dos"] and not o["deb"])):
            out.append((dict(o, fam="ar_ev_exit_stop", threads={"disp": [["ev", "m"]], "main": [["exit"], ["stop"]]}), 1))
    return out


def sh_programs(thorough):
    out = []
    for wait in (False, True):
        for drop in (False, True):
            o = {"wait": wait, "drop": drop}
            out.append((dict(o, fam="sh", threads={"disp": [["ev", "m"], ["ev", "m"], ["ev", "x"], ["ev", "m"]]}),
                        2 if thorough else 1))
            out.append((dict(o, fam="sh", threads={"disp": [["ev", "m"], ["sleep", 1], ["ev", "o"], ["ev", "v"]],
                                                   "env": [["exit"], ["sleep", 1], ["exit"]]}), 2 if thorough else 1))
            if thorough:
                out.append((dict(o, fam="sh", threads={"disp": [["ev", "m"], ["ev", "m"], ["ev", "m"]],
                                                       "env": [["exit"], ["exit"]]}), 2))
    return out


# ----------------------------------------------------------------------------- exploration plumbing


def _dfs_one(args):
    scen, params, bound = args
    try:
        n, recs = explore.dfs(scen, params, bound, jobs=1)
    except explore.ExploreError as e:
        return scen, params, bound, -1, str(e)
    return scen, params, bound, n, recs


def _tlc_design(c, jobs):
    """jobs: (module, cfg, expect) with expect = None (must hold) or the name that must be reported violated."""
    def one(j):
        mod, cfg, expect, workers = j
        return j, tlc.run_tlc(mod, cfg, workers=workers, coverage=expect is None and "live" not in cfg, timeout=3000,
                              heap="6g")

    with ThreadPoolExecutor(max_workers=4) as ex:
        results = list(ex.map(one, jobs))
    for (mod, cfg, expect, _w), r in results:
        if expect is None:
            c.add_tlc(f"{mod}:{cfg}", r)
            if not r.ok:
                c.machinery_failure(f"design spec {cfg} violated: {r.violated} {r.errors[:2]}")
            if "live" not in cfg:
                taken = {m.group(1): int(m.group(2)) for m in
                         re.finditer(r"^<(\w+) line \d+, col \d+ to line \d+, col \d+ of module \w+>: \d+:(\d+)", r.output, re.M)}
                dead = sorted(a for a, n in taken.items() if n == 0 and not a.startswith("C18_") and a not in ("Init",))
                if dead or not taken:
                    c.machinery_failure(f"vacuity: actions never taken in {cfg}: {dead}")
            c.note(f"TLC {cfg}: {r.distinct} distinct states, depth {r.depth}, {r.wall:.1f}s")
        else:
            if expect not in r.violated:
                c.machinery_failure(f"vacuity: {cfg} did not violate {expect}: {r.violated} {r.errors[:2]}")
            c.note(f"TLC {cfg} (negative: the code as it is): {expect} refuted as expected, {r.distinct} states, {r.wall:.1f}s")


def run(c: checklib.Check):
    tier = "thorough" if c.thorough else "quick"
    design = [
        ("Debouncer", f"Debouncer_{tier}.cfg", None, 4), ("Debouncer", "Debouncer_live.cfg", None, 2),
        ("Debouncer", "Debouncer_neg_D8.cfg", "C18_DeliveredWhenQuiet", 1),
        ("Debouncer", "Debouncer_neg_D8_live.cfg", "Temporal", 1),
        ("AutoRestart", f"AutoRestart_{tier}.cfg", None, 8), ("AutoRestart", "AutoRestart_live.cfg", None, 4),
        ("AutoRestart", "AutoRestart_neg_one.cfg", "C18_AtMostOneChild", 2),
        ("AutoRestart", "AutoRestart_neg_alive.cfg", "C18_NothingAfterStop", 2),
        ("AutoRestart", "AutoRestart_neg_spawn.cfg", "C18_NoSpawnAfterStop", 2),
        ("AutoRestart", "AutoRestart_neg_helpers.cfg", "C18_HelpersGone", 2),
        ("ShellCommand", f"ShellCommand_{tier}.cfg", None, 2),
        ("ShellCommand", "ShellCommand_neg_drop.cfg", "C18_NoOverlapWhenWaitOrDrop", 1),
        ("ShellCommand", "ShellCommand_neg_plain.cfg", "NegOverlap", 1),
    ]
    # the design models are checked while the real code is being explored
    bg = ThreadPoolExecutor(max_workers=1)
    design_future = bg.submit(_tlc_design, c, design)

    # ---- real code under the scheduler
    traces, meta = [], []
    total = 0
    fam_counts = {}

    def add(scen, params, recs, fam):
        for rec in recs:
            traces.append(rec["trace"])
            m = {"scenario": scen, "params": params if "seed" not in rec else {"seed": rec["seed"], "fine": True},
                 "choices": rec["choices"], "family": fam}
            meta.append(m)
        fam_counts[fam] = fam_counts.get(fam, 0) + len(recs)

    bound_deb = 3 if c.thorough else 2
    small = [(DEB, p, bound_deb) for p in deb_programs(c.thorough)]
    big = []
    for p, b in ar_programs(c.thorough):
        (big if b >= 2 and p["fam"] in ("ar_ev_exit",) else small).append((AR, p, b))
    for p, b in sh_programs(c.thorough):
        small.append((SH, p, b))
    small.sort(key=lambda x: -len(str(x[1])))
    with mp.get_context("fork").Pool(c.jobs) as pool:
        for scen, params, bound, n, recs in pool.imap_unordered(_dfs_one, small, chunksize=1):
            if n < 0:
                c.machinery_failure(f"scenario failed in the harness: {recs} {params}")
            total += n
            add(scen, params, recs, params["fam"])
    c.note(f"dfs: {len(small)} programs (debouncer b={bound_deb}, tricks b=1/2), {total} executions, {len(traces)} distinct traces")
    for scen, params, bound in big:
        n, recs = explore.dfs(scen, params, bound, jobs=c.jobs)
        total += n
        add(scen, params, recs, params["fam"])
        c.note(f"dfs b={bound} {params['fam']} roe={params['roe']} deb={params['deb']} dos={params['dos']}: {n} executions, "
               f"{len(recs)} distinct traces")
    # random programs x random / PCT schedules, attribute accesses of the trick as yield points
    nrand = 4000 if c.thorough else 600
    base = c.seed * 1000003
    for kind, extra, lo in (("random", {"stickiness": 0.6, "seed_param": "seed"}, 0),
                            ("pct", {"depth": 3, "est_steps": 120, "seed_param": "seed"}, nrand)):
        n, recs = explore.sample(ARR, {"fine": True}, range(base + lo, base + lo + nrand), kind=kind, jobs=c.jobs, extra=extra)
        total += n
        for rec in recs:
            rec["choices"] = rec["choices"]
        add(ARR, None, recs, "ar_random")
        c.note(f"{kind}: {n} random auto-restart programs, one {kind} schedule each, {len(recs)} distinct traces")
    n, recs = explore.sample(DEBR, {}, range(base, base + nrand), kind="random", jobs=c.jobs,
                             extra={"stickiness": 0.5, "seed_param": "seed"})
    total += n
    add(DEBR, None, recs, "deb_random")
    c.note(f"random: {n} random debouncer programs, {len(recs)} distinct traces")

    c.cov["evaluations"] += total
    c.cov["distinct_nontrivial"] = len(traces)
    c.cov["rule"] = ("executions of the real EventDebouncer / AutoRestartTrick / ShellCommandTrick under the deterministic "
                     "scheduler (virtual clock, simulated process table): bounded-preemption DFS over %d short programs "
                     "(debouncer: <= 3 events, gaps {0, iv-1, iv, iv+1}, stop at every position, iv in {0, 2}; auto-restart: "
                     "event / self-exit / stop pairwise and all three concurrent, with and without debounce, "
                     "restart_on_command_exit, die-on-signal / kill-after path; shell command: wait / drop x events during a "
                     "run) + %d random programs with random and PCT schedules; distinct = distinct black-box traces; "
                     "per family: %s" % (len(small) + len(big), 3 * nrand, fam_counts))

    # ---- validation (Level P), then classification of the failures
    chunk = max(40, len(traces) // (c.jobs * 2) + 1)
    verdicts, stats = tlc.validate_traces("TricksTrace", "TricksTrace.cfg", traces, chunk=chunk, parallel=c.jobs)
    c.add_trace_stats("TricksTrace", len(traces), stats)
    c.cov["states"] += stats["distinct"]
    c.cov["transitions"] += stats["generated"]
    failing = [i for i, v in enumerate(verdicts) if not v["accepted"]]
    relaxed = {}
    if failing:
        v2, st2 = tlc.validate_traces("TricksTrace", "TricksTrace_D8.cfg", [traces[i] for i in failing],
                                      chunk=max(40, len(failing) // c.jobs + 1), parallel=c.jobs)
        c.add_trace_stats("TricksTrace:AllowD8", 0, st2)
        relaxed = dict(zip(failing, v2))
    nviol = {}
    for i in failing:
        v, r = verdicts[i], relaxed[i]
        rp = dict(meta[i])
        rp["trace"] = traces[i]
        rp["trace_spec"] = ["TricksTrace", "TricksTrace.cfg"]
        fam = meta[i]["family"]
        if not v["viol"]:
            line = traces[i][v["furthest"] - 1] if 0 < v["furthest"] <= len(traces[i]) else None
            c.violation("P_C18_Explainable", f"the trace cannot be read beyond line {v['furthest']}: {line}", rp,
                        signature=f"P_C18_Explainable@{fam}")
            continue
        rest = set(r["viol"]) if not r["accepted"] else set()
        for clause in v["viol"]:
            if clause in rest:
                sig = f"{clause}@{fam}"
                what = WHAT.get(clause, clause) + f" (family {fam})"
            else:
                sig = f"D8:{clause}"
                what = WHAT.get(clause, clause) + " -- explained by D8: event / stop() before the debouncer thread first waits"
            nviol[sig] = nviol.get(sig, 0) + 1
            c.violation(clause, what, rp, signature=sig)
    if nviol:
        c.note("failing clauses by signature: " + ", ".join(f"{k} x{n}" for k, n in sorted(nviol.items())))

    design_future.result()
    bg.shutdown()
    for i in (0, len(traces) // 2, len(traces) - 1):
        if traces:
            c.sample({"family": meta[i]["family"], "trace": traces[i][:16]})
    c.assumptions += [
        "virtual clock; ProcessWatcher's 0.1 s poll is a periodic timer fired by the environment steps (child exit) and at rest",
        "children live in a simulated process table (harness.fakeproc): they exit when the environment says so, on the stop "
        "signal (die_on_signal) or on SIGKILL",
        "ShellCommandTrick.on_any_event is only called from one dispatcher thread (as the observer does)",
        "helper threads are required to be gone once everything has come to rest after stop() returned (not at the very "
        "instant stop() returns)",
    ]


WHAT = {
    "P_C18_ExactlyOnceInOrderBatched": "a callback batch is not the next so-many handed-in events in order",
    "P_C18_NoDeliveryAfterStop": "the debouncer's callback was invoked after stop() had returned",
    "P_C18_DeliveredWhenQuiet": "an event was still undelivered although no further event arrived for the debounce interval",
    "P_C18_NotEarly": "a batch was delivered before the debounce interval had passed without a further event",
    "P_C18_ThreadExits": "the debouncer thread did not exit on stop() (join() blocks forever)",
    "P_C18_AtMostOneChild": "two child processes alive at the same time",
    "P_C18_RestartPerTrigger": "restarts and triggers do not match one to one (spurious, missing or unpaid restart)",
    "P_C18_RestartCount": "restart_count is inconsistent with the restarts that happened",
    "P_C18_NothingAfterStop": "a child was alive when stop() returned, or one was started after stop() had returned",
    "P_C18_HelpersGone": "helper threads (ProcessWatcher / EventDebouncer) left running after stop() returned",
    "P_C18_StopReturns": "deadlock: stop() never returns",
    "P_C18_NoException": "an exception escaped from on_any_event / stop() / a helper thread",
    "P_C18_NoOverlapWhenWaitOrDrop": "two shell commands ran at the same time although asked to wait / to drop",
}


if __name__ == "__main__":
    checklib.main_wrapper("C18", run)
