"""C18  Tricks: debounced batches complete and ordered; one child at a time; stop ends all.

1. TLC checks the implementation-shaped models Debouncer.tla (explicit waiter set: a notify with no waiter is
   lost; virtual clock; liveness C18_ThreadExits), AutoRestart.tla (process table, the two flags, the watcher
   and debouncer threads, stop()) and ShellCommand.tla -- in the configuration that carries the proposed repairs
   (FixD8, FixLock) every C18_* property holds; the negative configurations (the code as it was before the two fix: commits) must be refuted.
2. code -> spec: the REAL EventDebouncer / AutoRestartTrick / ShellCommandTrick run under the deterministic
   scheduler (virtual clock, simulated process table): bounded-preemption DFS over families of short programs plus
   seeded random / PCT schedules over random programs.  TLC validates every black-box trace against
   TricksTrace.tla (Level P); a trace that only fails because of the recorded finding D8 (event / stop before the
   debouncer thread first waits) is recognised by validating it again with AllowD8 = TRUE.
Signatures: "D8:<clause>" for D8-explained failures, "<clause>@<family>" otherwise.
"""

from __future__ import annotations

import itertools
import multiprocessing as mp
import os
import re
import sys
from concurrent.futures import ThreadPoolExecutor

sys.path.insert(0, os.path.dirname(os.path.dirname(os.path.abspath(__file__))))

from harness import checklib, detsched, explore, tlc  # noqa: E402

DEB = "checks.scen_tricks:deb_program"
AR = "checks.scen_tricks:ar_program"
ARR = "checks.scen_tricks:ar_random"
DEBR = "checks.scen_tricks:deb_random"
SH = "checks.scen_tricks:sh_program"


# ----------------------------------------------------------------------------- program families


def deb_programs(thorough):
    """EventDebouncer alone: k <= 3 events at gaps from {0, iv-1, iv, iv+1}, stop() at every position (also before
    the first event, i.e. possibly before the thread first waits), then join(); and the same without stop()."""
    out = []
    for iv in (2, 0):
        gaps = (0, 1, 2, 3) if iv else (0, 1)
        for k in range(0, 4):
            combos = list(itertools.product(gaps, repeat=max(0, k - 1)))
            if k == 3 and iv and not thorough:
                combos = [g for g in combos if g[0] in (0, 2) or g[1] in (1, 3)]
            for gs in combos:
                seq = []
                for i in range(k):
                    if i > 0 and gs[i - 1]:
                        seq.append(["sleep", gs[i - 1]])
                    seq.append(["ev", i + 1])
                for pos in range(len(seq) + 1):
                    ops = seq[:pos] + [["stop"], ["join"]] + seq[pos:]
                    out.append({"iv": iv, "threads": {"p": ops}, "fam": "deb_seq"})
                if k:
                    out.append({"iv": iv, "threads": {"p": seq}, "fam": "deb_seq"})
                    out.append({"iv": iv, "threads": {"p": seq + [["sleep", 3], ["stop"], ["join"]]}, "fam": "deb_seq"})
    # the same file modified again and again: EQUAL events (distinct objects) inside one interval
    for gs in ((1, 1), (1,), (0, 1), (1, 0), (2, 1), (1, 3)):
        seq = [["ev", 1]]
        for i, g in enumerate(gs):
            seq += ([["sleep", g]] if g else []) + [["ev", i + 2]]
        out.append({"iv": 2, "equal": True, "threads": {"p": seq}, "fam": "deb_seq"})
        out.append({"iv": 2, "equal": True, "threads": {"p": seq + [["sleep", 3], ["stop"], ["join"]]}, "fam": "deb_seq"})
    # two producers (arrival order is decided by the lock), stop from a third thread, slow callbacks
    for iv in (2, 0):
        out.append({"iv": iv, "threads": {"p": [["ev", 1], ["sleep", 1], ["ev", 3]], "q": [["ev", 2]]}, "fam": "deb_conc"})
        out.append({"iv": iv, "threads": {"p": [["ev", 1], ["ev", 2]], "q": [["stop"], ["join"]]}, "fam": "deb_conc"})
        out.append({"iv": iv, "threads": {"p": [["ev", 1], ["sleep", 2], ["ev", 2]], "q": [["sleep", 2], ["stop"], ["join"]]},
                    "fam": "deb_conc"})
        out.append({"iv": iv, "slowcb": 3, "threads": {"p": [["ev", 1], ["sleep", iv + 1], ["ev", 2], ["ev", 3]]},
                    "fam": "deb_slowcb"})
        out.append({"iv": iv, "slowcb": 3, "threads": {"p": [["ev", 1], ["sleep", iv + 1], ["ev", 2]],
                                                       "q": [["sleep", iv + 2], ["stop"], ["join"]]}, "fam": "deb_slowcb"})
    return out


def ar_programs(thorough):
    """AutoRestartTrick: (params, bound) pairs.  `app` plays environment (child exits) and application (stop); `disp` is
    the observer's dispatcher thread."""
    out = []

    def opts(roe, deb, dos, ka=0.5):
        return {"roe": roe, "deb": deb, "dos": dos, "kill_after": ka, "fine": False}

    allopts = [opts(r, d, s, ka) for r in (True, False) for d in (0, 2) for s, ka in ((True, 0.5), (False, 0.5), (False, 0))]
    b_small = 1 if thorough else 0
    # sequential: everything comes to rest between two steps (no two restarts / stop ever overlap)
    for o in allopts:
        seq = [["ev", "m"], ["settle"], ["exit"], ["settle"], ["ev", "x"], ["ev", "o"], ["ev", "v"], ["settle"], ["exit"],
               ["settle"], ["stop"]]
        out.append((dict(o, fam="ar_seq", threads={"app": seq}), b_small))
        out.append((dict(o, fam="ar_seq", threads={"app": [["ev", "m"], ["ev", "c"], ["ev", "m"], ["settle"]]}), b_small))
        out.append((dict(o, fam="ar_seq", threads={"app": [["settle"], ["ev", "m"], ["settle"], ["stop"]]}), b_small))
    # stop() before start(): nothing may be spawned afterwards
    for o in allopts[:4]:
        out.append((dict(o, fam="ar_seq", nostart=True, threads={"app": [["stop"], ["start"], ["settle"], ["ev", "m"], ["settle"]]}), 0))
    # an event while the child exits by itself
    for o in allopts:
        if o["kill_after"] == 0 and not thorough:
            continue
        out.append((dict(o, fam="ar_ev_exit", threads={"disp": [["ev", "m"]], "app": [["exit"], ["settle"], ["stop"]]}),
                    2 if (thorough and not o["deb"] and o["dos"]) else 1))
    # an event while stop() runs
    for o in allopts:
        out.append((dict(o, fam="ar_ev_stop", threads={"disp": [["ev", "m"]], "app": [["stop"]]}),
                    2 if (thorough and not o["deb"]) else 1))
        if thorough:
            out.append((dict(o, fam="ar_ev_stop", threads={"disp": [["ev", "m"], ["ev", "m"]], "app": [["sleep", 1], ["stop"]]}), 1))
    # the child exits by itself while stop() runs
    for o in allopts:
        if o["roe"]:
            out.append((dict(o, fam="ar_exit_stop", threads={"app": [["exit"], ["stop"]]}), 2))
            if thorough and o["dos"]:
                out.append((dict(o, fam="ar_exit_stop", threads={"env": [["exit"]], "app": [["stop"]]}), 2))
    # all three
    for o in allopts:
        if o["roe"] and ((thorough and o["kill_after"]) or (o["dos"] and not o["deb"])):
            out.append((dict(o, fam="ar_ev_exit_stop", threads={"disp": [["ev", "m"]], "app": [["exit"], ["stop"]]}), 1))
    return out


def sh_programs(thorough):
    out = []
    for wait in (False, True):
        for drop in (False, True):
            o = {"wait": wait, "drop": drop}
            plain = not (wait or drop)   # nothing is demanded without either option: one schedule class is enough
            b = 0 if plain else (2 if thorough else 1)
            out.append((dict(o, fam="sh", threads={"disp": [["ev", "m"], ["ev", "m"], ["ev", "x"]] + ([] if plain else [["ev", "m"]])}), b))
            out.append((dict(o, fam="sh", threads={"disp": [["ev", "m"], ["sleep", 1], ["ev", "o"], ["ev", "v"]],
                                                   "env": [["exit"], ["sleep", 1], ["exit"]]}), b))
            if thorough and not plain:
                out.append((dict(o, fam="sh", threads={"disp": [["ev", "m"], ["ev", "m"], ["ev", "m"]],
                                                       "env": [["exit"], ["exit"]]}), 2))
    return out


# ----------------------------------------------------------------------------- exploration plumbing


RUNAWAY_MAX = 6


def _dfs_job(args):
    """harness.explore._dfs_job with one more rule: an execution that ran into the scheduler's step limit (a run-away
    loop in the code under test) is recorded but not expanded, and after a few of them the job gives up -- otherwise
    a run-away mutant would make every one of thousands of executions last thousands of steps."""
    scenario, params, bound, stack0, max_execs = args
    uniq, bad = {}, []
    count = [0, 0]

    def run_one(prefix):
        st = detsched.PrefixStrategy(prefix)
        rec, _s = explore.execute(scenario, params, st)
        rec["choices"] = [r[2] for r in st.record]
        if rec["extra"].get("steplimit") or rec["outcome"] == "steplimit":
            count[1] += 1
            return st.record[: len(prefix)], rec
        return st.record, rec

    def on_result(prefix, record, rec):
        count[0] += 1
        if rec["outcome"] in ("error", "divergence"):
            bad.append(rec)
            return
        k = explore._key(rec)
        if k in uniq:
            uniq[k]["n"] += 1
        else:
            rec["n"] = 1
            uniq[k] = rec

    stack = [list(p) for p in stack0]
    while stack and (max_execs is None or count[0] < max_execs) and count[1] < RUNAWAY_MAX and not bad:
        step = 10 if max_execs is None else min(10, max_execs - count[0])
        left = []
        detsched.dfs_explore(run_one, bound, stack0=stack, on_result=on_result, max_execs=step, leftover=left)
        stack = left
    leftover = stack if count[1] < RUNAWAY_MAX else []
    return count[0], list(uniq.values()), bad[:3], leftover


def _dfs_capped(args):
    scen, params, bound, cap = args
    n, recs, bad, left = _dfs_job((scen, params, bound, [[]], cap))
    return n, recs, bad, len(left)


def _dfs_all(programs, jobs, chunk=200, cap=None, budget=None):
    """Bounded-preemption DFS over many programs on ONE process pool.  Returns [(executions, unique records,
    complete?)] per program.
    cap = None: a job explores at most `chunk` executions of its sub-trees of one program and hands the unexplored
    stack entries back, so that big and small programs share the workers evenly.
    cap = n: every program is explored by one worker, depth first, for at most n executions (deterministic prefix of
    the enumeration; the programs that were cut short are counted).
    budget = n (with cap = None): a program whose executions exceed n is not expanded further (time limit guard)."""
    with mp.get_context("fork").Pool(jobs) as pool:
        if cap is not None:
            res = pool.map(_dfs_capped, [(s_, p, b, cap) for s_, p, b in programs], chunksize=1)
            return [explore._merge([(n, recs, bad)]) + (left == 0,) for n, recs, bad, left in res]
        per = [[] for _ in programs]
        spent = [0] * len(programs)
        whole = [True] * len(programs)
        queue = [(i, [[]]) for i in range(len(programs))]
        pending = []
        while queue or pending:
            while queue and len(pending) < 3 * jobs:
                i, st = queue.pop()
                if budget is not None and spent[i] >= budget:
                    whole[i] = False
                    continue
                scen, params, bound = programs[i]
                pending.append((i, pool.apply_async(_dfs_job, ((scen, params, bound, st, chunk),))))
            done = [x for x in pending if x[1].ready()]
            if not done:
                pending[0][1].wait(0.02)
                continue
            for x in done:
                pending.remove(x)
                i, fut = x
                n, recs, bad, left = fut.get()
                per[i].append((n, recs, bad))
                spent[i] += n
                if left:
                    k = max(1, min(len(left), 4))
                    for j in range(k):
                        part = left[j::k]
                        if part:
                            queue.append((i, part))
    return [explore._merge(r) + (w,) for r, w in zip(per, whole)]


def _tlc_design(c, jobs):
    """jobs: (module, cfg, expect) with expect = None (must hold) or the name that must be reported violated."""
    def one(j):
        mod, cfg, expect, workers = j
        return j, tlc.run_tlc(mod, cfg, workers=workers, coverage=expect is None and "live" not in cfg, timeout=3000,
                              heap="6g")

    with ThreadPoolExecutor(max_workers=4) as ex:
        results = list(ex.map(one, jobs))
    for (mod, cfg, expect, _w), r in results:
        if expect is None:
            c.add_tlc(f"{mod}:{cfg}", r)
            if not r.ok:
                c.machinery_failure(f"design spec {cfg} violated: {r.violated} {r.errors[:2]}")
            if "live" not in cfg:
                taken = {m.group(1): int(m.group(2)) for m in
                         re.finditer(r"^<(\w+) line \d+, col \d+ to line \d+, col \d+ of module \w+>: \d+:(\d+)", r.output, re.M)}
                dead = sorted(a for a, n in taken.items() if n == 0 and not a.startswith("C18_") and a not in ("Init",))
                if dead or not taken:
                    c.machinery_failure(f"vacuity: actions never taken in {cfg}: {dead}")
            c.note(f"TLC {cfg}: {r.distinct} distinct states, depth {r.depth}, {r.wall:.1f}s")
        else:
            if expect not in r.violated and f"property {expect} was violated" not in r.output:
                c.machinery_failure(f"vacuity: {cfg} did not violate {expect}: {r.violated} {r.errors[:2]}")
            c.note(f"TLC {cfg} (negative: defect switched back on): {expect} refuted as expected, {r.distinct} states, {r.wall:.1f}s")


def run(c: checklib.Check):
    tier = "thorough" if c.thorough else "quick"
    design = [
        ("Debouncer", f"Debouncer_{tier}.cfg", None, 4), ("Debouncer", "Debouncer_live.cfg", None, 2),
        ("Debouncer", "Debouncer_neg_D8.cfg", "C18_DeliveredWhenQuiet", 1),
        ("Debouncer", "Debouncer_neg_D8_live.cfg", "C18_ThreadExits", 1),
        ("AutoRestart", f"AutoRestart_{tier}.cfg", None, 8), ("AutoRestart", "AutoRestart_live.cfg", None, 4),
        ("AutoRestart", "AutoRestart_neg_one.cfg", "C18_AtMostOneChild", 2),
        ("AutoRestart", "AutoRestart_neg_alive.cfg", "C18_NothingAfterStop", 2),
        ("AutoRestart", "AutoRestart_neg_spawn.cfg", "C18_NoSpawnAfterStop", 2),
        ("AutoRestart", "AutoRestart_neg_helpers.cfg", "C18_HelpersGone", 2),
        ("AutoRestart", "AutoRestart_neg_crash.cfg", "C18_NoCrash", 2),
        ("ShellCommand", f"ShellCommand_{tier}.cfg", None, 2),
        ("ShellCommand", "ShellCommand_neg_drop.cfg", "C18_NoOverlapWhenWaitOrDrop", 1),
        ("ShellCommand", "ShellCommand_neg_plain.cfg", "NegOverlap", 1),
    ]
    # the design models are checked while the real code is being explored
    bg = ThreadPoolExecutor(max_workers=1)
    design_future = bg.submit(_tlc_design, c, design)

    # ---- real code under the scheduler
    traces, meta = [], []
    total = 0
    fam_counts = {}

    def add(scen, params, recs, fam):
        for rec in recs:
            traces.append(rec["trace"])
            m = {"scenario": scen, "params": params if "seed" not in rec else {"seed": rec["seed"], "fine": True},
                 "choices": rec["choices"], "family": fam}
            meta.append(m)
        fam_counts[fam] = fam_counts.get(fam, 0) + len(recs)

    bound_deb = 3 if c.thorough else 2
    programs = [(DEB, p, (bound_deb if p["fam"] == "deb_seq" else bound_deb - 1)) for p in deb_programs(c.thorough)]
    programs += [(AR, p, b) for p, b in ar_programs(c.thorough)]
    programs += [(SH, p, b) for p, b in sh_programs(c.thorough)]
    cap = None if c.thorough else 1200
    budget = 25000 if c.thorough else None
    try:
        results = _dfs_all(programs, c.jobs, cap=cap, budget=budget)
    except explore.ExploreError as e:
        c.machinery_failure(str(e))
    per_fam = {}
    cut = 0
    for (scen, params, bound), (n, recs, whole) in zip(programs, results):
        total += n
        cut += 0 if whole else 1
        add(scen, params, recs, params["fam"])
        a = per_fam.setdefault(params["fam"], [0, 0, 0])
        a[0] += 1
        a[1] += n
        a[2] += len(recs)
    c.note("dfs (debouncer b=%d/%d, tricks b=0..2%s): %d programs, %d executions, %d distinct traces; per family "
           "[programs, executions, traces]: %s" % (bound_deb, bound_deb - 1,
                                                   f"; about {budget} executions per program at most, {cut} programs cut short" if cap is None
                                                   else f"; at most {cap} executions per program, {cut} programs cut short",
                                                   len(programs), total, len(traces), per_fam))
    # random programs x random / PCT schedules, attribute accesses of the trick as yield points
    nrand = 4000 if c.thorough else 600
    base = c.seed * 1000003
    for kind, extra, lo in (("random", {"stickiness": 0.6, "seed_param": "seed"}, 0),
                            ("pct", {"depth": 3, "est_steps": 120, "seed_param": "seed"}, nrand)):
        n, recs = explore.sample(ARR, {"fine": True}, range(base + lo, base + lo + nrand), kind=kind, jobs=c.jobs, extra=extra)
        total += n
        for rec in recs:
            rec["choices"] = rec["choices"]
        add(ARR, None, recs, "ar_random")
        c.note(f"{kind}: {n} random auto-restart programs, one {kind} schedule each, {len(recs)} distinct traces")
    n, recs = explore.sample(DEBR, {}, range(base, base + nrand), kind="random", jobs=c.jobs,
                             extra={"stickiness": 0.5, "seed_param": "seed"})
    total += n
    add(DEBR, None, recs, "deb_random")
    c.note(f"random: {n} random debouncer programs, {len(recs)} distinct traces")

    c.cov["evaluations"] += total
    c.cov["distinct_nontrivial"] = len(traces)
    c.cov["rule"] = ("executions of the real EventDebouncer / AutoRestartTrick / ShellCommandTrick under the deterministic "
                     "scheduler (virtual clock, simulated process table): bounded-preemption DFS over %d short programs "
                     "(debouncer: <= 3 events, gaps {0, iv-1, iv, iv+1}, stop at every position, iv in {0, 2}; auto-restart: "
                     "event / self-exit / stop pairwise and all three concurrent, with and without debounce, "
                     "restart_on_command_exit, die-on-signal / kill-after path; shell command: wait / drop x events during a "
                     "run) + %d random programs with random and PCT schedules; distinct = distinct black-box traces; "
                     "per family: %s" % (len(programs), 3 * nrand, fam_counts))

    # ---- validation (Level P), then classification of the failures
    def validate(cfg, idx, count=False):
        trs = [traces[i] for i in idx]
        if not trs:
            return {}
        vs, st = tlc.validate_traces("TricksTrace", cfg, trs, chunk=max(40, len(trs) // (c.jobs * 2) + 1), parallel=c.jobs)
        c.add_trace_stats("TricksTrace:" + cfg, len(trs) if count else 0, st)
        c.cov["states"] += st["distinct"]
        c.cov["transitions"] += st["generated"]
        return dict(zip(idx, vs))

    def complete(v):
        return v["accepted"] or bool(v["viol"])

    # 1. as the property states it; an arrival order that does not fit the batches is not an explanation (HardOrder)
    strict = validate("TricksTrace.cfg", list(range(len(traces))), count=True)
    # 2. no explanation at all: let the batch clause fail softly to learn which clauses fail
    soft = validate("TricksTrace_soft.cfg", [i for i, v in strict.items() if not complete(v)])
    strict.update(soft)
    failing = [i for i, v in strict.items() if not v["accepted"]]
    # 3. the failures once more, excusing what the recorded finding D8 explains
    relaxed = validate("TricksTrace_D8.cfg", [i for i in failing if i not in soft])
    relaxed.update(validate("TricksTrace_D8_soft.cfg", [i for i in failing if i in soft]))
    nviol = {}
    for i in sorted(failing):
        v, r = strict[i], relaxed[i]
        rp = dict(meta[i])
        rp["trace"] = traces[i]
        rp["trace_spec"] = ["TricksTrace", "TricksTrace_soft.cfg"]
        fam = meta[i]["family"]
        if not v["viol"]:
            line = traces[i][v["furthest"] - 1] if 0 < v["furthest"] <= len(traces[i]) else None
            c.violation("P_C18_Explainable", f"the trace cannot be read beyond line {v['furthest']}: {line}", rp,
                        signature=f"P_C18_Explainable@{fam}")
            continue
        rest = set(r["viol"]) if not r["accepted"] else set()
        for clause in v["viol"]:
            if clause in rest:
                sig = f"{clause}@{fam}"
                what = WHAT.get(clause, clause) + f" (family {fam})"
            else:
                sig = f"D8:{clause}"
                what = WHAT.get(clause, clause) + " -- explained by D8: event / stop() before the debouncer thread first waits"
            nviol[sig] = nviol.get(sig, 0) + 1
            c.violation(clause, what, rp, signature=sig)
    if nviol:
        c.note("failing clauses by signature: " + ", ".join(f"{k} x{n}" for k, n in sorted(nviol.items())))

    # the defects TLC finds with the switches off (negative configurations), against the real code
    seen = {}
    for sig, n in nviol.items():
        base = sig.split(":", 1)[1] if sig.startswith("D8:") else sig.split("@")[0]
        seen[base] = seen.get(base, 0) + n
    pairs = [("Debouncer[FixD8=FALSE] C18_DeliveredWhenQuiet", "P_C18_DeliveredWhenQuiet"),
             ("Debouncer[FixD8=FALSE] C18_ThreadExits", "P_C18_ThreadExits"),
             ("AutoRestart[FixLock=FALSE] C18_AtMostOneChild", "P_C18_AtMostOneChild"),
             ("AutoRestart[FixLock=FALSE] C18_NothingAfterStop/C18_NoSpawnAfterStop", "P_C18_NothingAfterStop"),
             ("AutoRestart[FixLock=FALSE] C18_HelpersGone", "P_C18_HelpersGone")]
    c.note("model with the defect switches off (refuted by TLC) vs the real code under the scheduler: " +
           "; ".join(f"{m} -> {q} fails on {seen.get(q, 0)} real traces" for m, q in pairs) +
           " (0 everywhere = the tree under test carries the repairs)")

    design_future.result()
    bg.shutdown()
    for i in (0, len(traces) // 2, len(traces) - 1):
        if traces:
            c.sample({"family": meta[i]["family"], "trace": traces[i][:16]})
    c.assumptions += [
        "virtual clock; ProcessWatcher's 0.1 s poll is a periodic timer fired by the environment steps (child exit) and at rest",
        "children live in a simulated process table (harness.fakeproc): they exit when the environment says so, on the stop "
        "signal (die_on_signal) or on SIGKILL",
        "ShellCommandTrick.on_any_event is only called from one dispatcher thread (as the observer does)",
        "helper threads are required to be gone once everything has come to rest after stop() returned (not at the very "
        "instant stop() returns)",
    ]


WHAT = {
    "P_C18_ExactlyOnceInOrderBatched": "a callback batch is not the next so-many handed-in events in order",
    "P_C18_NoDeliveryAfterStop": "the debouncer's callback was invoked after stop() had returned",
    "P_C18_DeliveredWhenQuiet": "an event was still undelivered although no further event arrived for the debounce interval",
    "P_C18_NotEarly": "a batch was delivered before the debounce interval had passed without a further event",
    "P_C18_ThreadExits": "the debouncer thread did not exit on stop() (join() blocks forever)",
    "P_C18_AtMostOneChild": "two child processes alive at the same time",
    "P_C18_RestartPerTrigger": "restarts and triggers do not match one to one (spurious, missing or unpaid restart)",
    "P_C18_RestartCount": "restart_count is inconsistent with the restarts that happened",
    "P_C18_NothingAfterStop": "a child was alive when stop() returned, or one was started after stop() had returned",
    "P_C18_HelpersGone": "helper threads (ProcessWatcher / EventDebouncer) left running after stop() returned",
    "P_C18_StopReturns": "deadlock: stop() never returns",
    "P_C18_ComesToRest": "the execution did not come to rest within the step limit (run-away restart loop)",
    "P_C18_NoException": "an exception escaped from on_any_event / stop() / a helper thread",
    "P_C18_NoOverlapWhenWaitOrDrop": "two shell commands ran at the same time although asked to wait / to drop",
}


if __name__ == "__main__":
    checklib.main_wrapper("C18", run)
