"""C05  After unschedule/remove/unschedule_all/stop returns, the removed handler is never called again and the
emitter of an unscheduled watch is silent.  Same engine as C04; program family: removal from an application
thread and re-entrantly from a callback at every position of a 3-event stream."""
import os
import sys

sys.path.insert(0, os.path.dirname(os.path.dirname(os.path.abspath(__file__))))
from checks import observer_design, observer_engine as oe  # noqa: E402
from harness import checklib  # noqa: E402


def run(c):
    observer_design.run_design(c, "C05")
    observer_design.run_replay(c, "C05")
    b = 2 if c.thorough else 1
    fams = [("removal", oe.fam_removal() + oe.fam_reentrant_unschedule(), b),
            ("removal by another thread, dispatch_events line by line", oe.fam_dispatch_lines(), b)]
    mixed = oe.fam_mixed_emitters()[:2]
    sampled = [("running and never-started emitters side by side, both set orders", mixed + oe.reversed_orders(mixed),
                6000 if c.thorough else 1500)]
    oe.run_families(c, "C05", fams, bound=b, random_n=3000 if c.thorough else 300, sampled=sampled)
    c.cov["rule"] = ("executions of the real BaseObserver: bounded-preemption DFS (b=%d) on removal programs (external "
                     "thread / re-entrant from a callback, every stream position) + random programs" % b)
    c.assumptions += ["the scheduler's total order of trace lines is the logical clock of 'after the call returned'"]


if __name__ == "__main__":
    checklib.main_wrapper("C05", run)
