"""C06 part 2: the lifecycle programs on the REAL inotify and polling emitters (real kernel / real directory, virtual
clock), including a root that disappears before stop(), stop() twice, stop() from inside a callback."""
from harness import explore, tlc

SCEN = "checks.scen_fd:real_lifecycle_program"
MAP = {"P_C12_ThreadsGone": "P_C06_AllExited", "P_C12_NoDeadlock": "P_C06_NoDeadlock"}


def programs():
    A = [["schedule", "."], ["start"], ["touch", "f"], ["stop"], ["join"]]
    out = []
    for obs in ("inotify", "polling"):
        extra = [["poll"]] if obs == "polling" else []
        out += [
            {"observer": obs, "threads": {"app1": A}},
            {"observer": obs, "threads": {"app1": [["schedule", "."], ["start"], ["rmroot"]] + extra + [["stop"], ["stop"], ["join"]]}},
            # the root disappears and ONE stop() follows (a stop() that raised would leave the threads to a second stop())
            {"observer": obs, "threads": {"app1": [["schedule", "."], ["start"], ["rmroot"]] + extra + [["stop"], ["join"]]}},
            {"observer": obs, "threads": {"app1": [["schedule", "."], ["schedule", "d1"], ["start"], ["rmroot"]] + extra + [["unschedule", "d1"], ["stop"], ["join"]]}},
            {"observer": obs, "threads": {"app1": [["schedule", "."], ["start"], ["touch", "f"]] + extra + [["join"]],
                                          "app2": [["stop"]]}},
            {"observer": obs, "threads": {"app1": [["cb_stop"], ["start"], ["touch", "f"]] + extra + [["join"]]}},
            {"observer": obs, "threads": {"app1": [["schedule", "."], ["start"], ["unschedule", "."], ["schedule", "d1"], ["unschedule_all"],
                                                   ["stop"], ["join"]]}},
            {"observer": obs, "threads": {"app1": [["start"], ["schedule", "."], ["stop"], ["join"]], "app2": [["schedule", "d1"], ["unschedule", "d1"]]}},
            # start() a second time on a running observer (it must raise, not block, and not cost the watch its emitter)
            {"observer": obs, "threads": {"app1": [["schedule", "."], ["start"], ["start"], ["touch", "f"]] + extra + [["stop"], ["join"]]}},
            {"observer": obs, "threads": {"app1": [["schedule", "."], ["start"], ["touch", "f"]] + extra + [["stop"], ["join"]],
                                          "app2": [["start"]]}},
        ]
    return out


def run_real(c):
    traces, meta = [], []
    total = 0
    for pat in programs():
        b = 1 if c.thorough else 0
        if True:
            # b = 0: every schedule without preemption (a thread runs until it blocks; all orders at the blocking points),
            # e.g. the application racing ahead of the library threads through rmroot; stop()
            info = {}
            n, recs = explore.dfs(SCEN, pat, b, jobs=c.jobs, cap=40000, info=info)
            if info.get("capped"):
                c.cov["capped_programs"] = c.cov.get("capped_programs", 0) + 1
        base = c.seed * 1000003
        n2, recs2 = explore.sample(SCEN, pat, range(base, base + (400 if c.thorough else 60)), jobs=c.jobs, extra={"stickiness": 0.5})
        n3, recs3 = explore.sample(SCEN, pat, range(base, base + (200 if c.thorough else 30)), kind="pct", jobs=c.jobs,
                                   extra={"depth": 3, "est_steps": 300})
        total += n + n2 + n3
        for rec in recs + recs2 + recs3:
            traces.append(rec["trace"])
            meta.append({"scenario": SCEN, "params": pat, "choices": rec["choices"]})
    c.cov["evaluations"] += total
    c.cov["distinct_nontrivial"] += len(traces)
    verdicts, stats = tlc.validate_traces("InotifyFdTrace", "InotifyFdTrace.cfg", traces, chunk=max(40, len(traces) // (c.jobs * 2) + 1),
                                          parallel=c.jobs)
    c.add_trace_stats("InotifyFdTrace(real emitters)", len(traces), stats)
    c.cov["states"] += stats["distinct"]
    c.cov["transitions"] += stats["generated"]
    for tr, m, v in zip(traces, meta, verdicts):
        # "stop() may be called more than once and on an observer whose watched root has already disappeared"
        bad = [e for e in tr if e.get("e") == "ret" and e.get("op") == "stop" and e.get("ok") is False]
        if bad:
            rp = dict(m, trace=tr, trace_spec=["InotifyFdTrace", "InotifyFdTrace.cfg"])
            c.violation("P_C06_StopDoesNotRaise", f"stop() raised {bad[0].get('exc')} with the real {m['params']['observer']} emitter: "
                                                  f"{m['params']['threads']}", rp)
        if v["accepted"]:
            continue
        for clause in v["viol"]:
            if clause in MAP:
                rp = dict(m, trace=tr, trace_spec=["InotifyFdTrace", "InotifyFdTrace.cfg"])
                c.violation(MAP[clause], f"{MAP[clause]} is FALSE with the real {m['params']['observer']} emitter: {m['params']['threads']}", rp)
    c.note(f"real emitters (inotify on the real kernel, polling on a real directory, virtual clock): {total} executions of "
           f"{len(programs())} lifecycle programs, {len(traces)} distinct traces")
