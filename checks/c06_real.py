"""C06 part 2: real inotify / polling emitters (added later)."""


def run_real(c):
    return
