"""Spec -> code replay of InotifyFd.tla on the real InotifyBuffer / Inotify (DESIGN §13, C12).

A walk of the dumped state graph is executed action by action on the real classes over the real kernel, through the OS
seam (every kernel call is a yield point and goes through the descriptor shadow table):

    CtorInit(ok) / CtorPipe / CtorAddWatch(ok)   the constructing thread, one kernel call per action; ok = FALSE is an
                                                 injected failure of exactly that call (ENOSPC / EMFILE)
    ROuter / R1 / RPoll / RRead / R4 / RProc     the InotifyBuffer thread between: the stop-flag test, the first locked
                                                 section, poll, read, the second locked section (which closes everything if
                                                 close() came in meanwhile), the processing section
    CStop(c) / CClose(c) / CJoin(c)              a thread calling InotifyBuffer.close(): flag, Inotify.close() under the
                                                 lock (rm_watch; kill-pipe write or close of all three), join
    KData                                        the replayer creates a file in the watched directory (the kernel queues an event)

After every action: the three descriptors' states in the shadow table, `_closed`, `_is_reading`, lock held, constructor
progress, stop flag, kill byte written, kernel data pending, and the shadow table's violation list must equal the model's.
"""

from __future__ import annotations

import errno
import os
import shutil
import tempfile

from harness import detsched, loader, replayer, seam as seam_mod

STATE_KEYS = ("fd", "closedFlag", "isReading", "lock", "ctor", "wcount", "rpc", "cpc", "stopFlag", "killWritten", "kdata", "ndata", "viol")
MASK = 0x100 | 0x200 | 0x400 | 0x40 | 0x80      # IN_CREATE | IN_DELETE | IN_DELETE_SELF | IN_MOVED_FROM | IN_MOVED_TO: no
# IN_OPEN / IN_CLOSE_NOWRITE, so the constructor's own directory listing queues nothing


def _world():
    w = loader.load()
    w.mod("observers.inotify_buffer")
    return w


def fd_replay(nw, closers, walk_actions, states):
    w = _world()
    th = w.shims["threading"]
    ic = w.mod("observers.inotify_c")
    Buf = w.mod("observers.inotify_buffer").InotifyBuffer
    acts = list(walk_actions)
    box = {"obj": None, "failed": False, "ndata": 0, "inotify": None}
    cnames = sorted(closers)

    base = tempfile.mkdtemp(prefix="verif-fdr-", dir=os.environ.get("TMPDIR", "/tmp"))
    root = os.path.join(base, "R")
    p = root
    for i in range(nw):
        os.mkdir(p)
        p = os.path.join(p, "d")
    rootb = os.fsencode(root)
    sm = seam_mod.Seam(w, log=False)

    def program(s):
        sm.install()
        sm.root = rootb
        # the Inotify object is needed before InotifyBuffer.__init__ returns: capture it at construction
        orig_init = ic.Inotify.__init__

        def init(self, *a, **k):
            box["inotify"] = self
            orig_init(self, *a, **k)

        ic.Inotify.__init__ = init
        try:
            def ctor():
                s.yield_("gate")
                try:
                    box["obj"] = Buf(rootb, recursive=True, event_mask=MASK)
                except OSError:
                    box["failed"] = True
                s.yield_("ctor_done")

            def closer():
                s.yield_("gate")
                box["obj"].close()
                s.yield_("closed")

            ts = [th.Thread(target=ctor, name="ctor")] + [th.Thread(target=closer, name=str(c)) for c in cnames]
            for t in ts:
                t.start()
            for t in ts:
                t.join()
        finally:
            ic.Inotify.__init__ = orig_init

    def lock_of():
        ino = box["inotify"]
        return None if ino is None else ino.__dict__.get("_lock")

    def task_of(a):
        name, args = a
        if name in ("CtorInit", "CtorPipe", "CtorAddWatch"):
            if name != "CtorPipe" and not args[0]:
                call = "inotify_init" if name == "CtorInit" else "inotify_add_watch"
                sm.faults[(call, sm.ncalls.get(call, 0) + 1)] = errno.ENOSPC if call == "inotify_add_watch" else errno.EMFILE
            return "ctor#1"
        if name in ("ROuter", "R1", "RPoll", "RRead", "R4", "RProc"):
            t = _reader_task()
            if t is None:
                raise detsched.Divergence(f"{a}: the reader thread does not exist")
            return t
        if name == "KData":
            return None
        return str(args[0]) + "#1"

    def _reader_task():
        sched = detsched._CUR
        for t in sched.tasks if sched is not None else []:
            if t.name.startswith("InotifyBuffer"):
                return t.name
        return None

    def env(a, sched):
        box["ndata"] += 1
        with open(os.path.join(root, f"k{box['ndata']}"), "w"):
            pass

    def boundary(t, seen):
        lab = t.label
        if seen is None:
            return not (t.name.startswith(("ctor", "c1", "c2")) and lab == "start")
        name, args = st.actions[st.k]
        lk = lock_of()
        if name == "CtorInit":
            return lab in ("sys:pipe", "ctor_done")
        if name == "CtorPipe":
            return lab in ("sys:inotify_add_watch", "ctor_done")
        if name == "CtorAddWatch":
            return lab == "ctor_done" or (lab == "sys:inotify_add_watch" and seen.count("sys:inotify_add_watch") >= 1)
        if name == "ROuter":
            return lab == "acq" and t.obj is lk
        if name == "R1":
            return lab in ("isset", "poll")
        if name == "RPoll":
            return lab == "sys:read" or (lab == "acq" and t.obj is lk)
        if name == "RRead":
            return lab == "acq" and t.obj is lk
        if name == "R4":
            return lab == "isset" or (lab == "acq" and t.obj is lk and "rel" in seen)
        if name == "RProc":
            return lab == "isset"
        if name == "CStop":
            return lab == "acq" and t.obj is lk
        if name == "CClose":
            if "sys:write" in seen:
                box["kw"] = True        # the wake-up byte went into the kill pipe
            return lab == "join"
        if name == "CJoin":
            return lab == "closed"
        return False

    def fdstate(kind):
        for v in sm.fds.values():
            if v[0].startswith(kind):
                return "open" if v[1] == "open" else "closed"
        return "none"

    def after(k, a, sched):
        try:
            return after_(k, a, sched)
        except detsched.SchedAbort:
            raise
        except Exception:  # noqa: BLE001
            import traceback

            return {"k": k, "action": a, "harness_error": traceback.format_exc()[-500:]}

    def after_(k, a, sched):
        N = states[k]
        ino = box["inotify"]
        obj = box["obj"]
        lk = lock_of()
        have = {"fd": {x: fdstate(x) for x in ("ino", "kr", "kw")},
                "closedFlag": bool(ino is not None and ino.__dict__.get("_closed", ino.__dict__.get("_ya__closed", False))),
                "isReading": bool(ino is not None and ino.__dict__.get("_is_reading", False)),
                "lock": "held" if (lk is not None and lk.locked()) else "free",
                "stopFlag": bool(obj is not None and obj.stopped_event._flag),
                "killWritten": bool(box.get("kw")),
                "ndata": box["ndata"],
                "viol": sorted((v[0], v[2][:3].rstrip("0123456789")) for v in sm.violations)}
        want = {"fd": {x: N["fd"][x] for x in ("ino", "kr", "kw")}, "closedFlag": N["closedFlag"], "isReading": N["isReading"],
                "lock": N["lock"], "stopFlag": N["stopFlag"], "killWritten": N["killWritten"], "ndata": N["ndata"],
                "viol": sorted((v[0], v[1]) for v in N["viol"])}
        diff = {x: {"model": want[x], "code": have[x]} for x in want if have[x] != want[x]}
        ctor_code = ("failed" if box["failed"] else "ready" if obj is not None else None)
        if N["ctor"] in ("failed", "ready") and ctor_code != N["ctor"]:
            diff["ctor"] = {"model": N["ctor"], "code": ctor_code}
        if diff:
            return {"k": k, "action": a, "diff": diff}
        return None

    st = replayer.MacroReplay(acts, task_of, boundary, after, env=env, stop_when_done=True, max_inner=400)
    try:
        s = detsched.run(program, st)
    finally:
        sm.cleanup()
        try:
            sm.remove()
        except Exception:  # noqa: BLE001
            pass
        shutil.rmtree(base, ignore_errors=True)
    if st.mismatch is not None:
        return st.mismatch
    if st.k != len(acts):
        return {"outcome": s.outcome, "error": str(s.error or s.divergence)[:300], "k": st.k, "action": acts[st.k] if st.k < len(acts) else None}
    return None
