"""C01  Replaying the native (inotify) event stream reproduces the real directory tree.

Histories: every paced history of <= 2 (quick) / <= 3 (thorough) operations from three start trees, taken from the
TLC state graph of FsGen.tla (FsKernel under the pacing condition); long seeded random paced histories beyond.
Each history runs on the real InotifyObserver against the real kernel under several timings (library drains after
every system call / driver back to back / random / PCT, random read splits), recursive and non-recursive, str and
bytes roots.  TLC replays the delivered created/deleted/moved events onto the start tree inside
PipelineTrace.tla (P_C01_ReplicaMatches) and compares with the real tree at every drain point."""
import os
import sys

sys.path.insert(0, os.path.dirname(os.path.dirname(os.path.abspath(__file__))))
from checks import pipeline_engine as pe  # noqa: E402
from harness import checklib  # noqa: E402


def run(c):
    pe.run_design(c, histories=False)
    K = 3 if c.thorough else 2
    cases = []
    nh = 0
    for start in ("small", "deep", "empty"):
        hs, r = pe.tlc_histories(start, K)
        c.add_tlc(f"FsGen:{start}:K={K}", r)
        nh += len(hs)
        for i, h in enumerate(hs):
            for rec in (True, False):
                if not rec and c.thorough is False and i % 2:
                    continue
                params = dict(pe.START[start], ops=h, recursive=rec, paced=True, spell="bytes" if i % 5 == 0 else "str")
                if i % 3 == 1:
                    params["names"] = pe.PREFIX_NAMES
                tms = pe.timings(c.seed + i, n_random=1, n_pct=0) if not c.thorough or len(h) > 2 else pe.timings(c.seed + i)
                for spec in tms:
                    cases.append((params, spec))
    for i, h in enumerate(pe.TWIN_HISTORIES):
        params = dict(pe.START["twin"], ops=list(h), recursive=True, paced=True, spell="str")
        for spec in pe.timings(c.seed + i, n_random=1, n_pct=0):
            cases.append((params, spec))
    c.note(f"{nh} paced histories of <= {K} operations from the TLC graph of FsGen.tla")
    recs = pe.run_cases(c, cases, "TLC histories")
    pe.validate(c, "C01", recs)
    # long random paced histories
    nrand = 1500 if c.thorough else 150
    cases = []
    for k in range(nrand):
        seed = c.seed * 1000003 + k
        hist = pe.random_history(seed, 20 + (k % 5) * 10 if c.thorough else 12 + (k % 3) * 6)
        params = dict(hist, recursive=(k % 4 != 3), paced=True, spell="bytes" if k % 3 == 0 else "str")
        for spec in [("prio", "driver"), ("random", seed, 0.7), ("pct", seed, 3)][: (3 if c.thorough else 2)]:
            cases.append((params, spec))
    recs = pe.run_cases(c, cases, "random paced histories")
    pe.validate(c, "C01", recs)
    # known finding D7: a directory that left the tree keeps its kernel watch; moving an entry into / out of it out
    # there is seen as a rename inside the tree
    cases = []
    for k, ops in enumerate([[["mkdir", "b"], ["moveout", "a", "z"], ["drain"], ["moveout", "b", "z/b"], ["drain"]],
                             [["moveout", "a", "z"], ["drain"], ["movein", "z/a", "c"], ["drain"]]]):
        params = dict(pe.START["small"], ops=ops, recursive=True, paced=True)
        for spec in pe.timings(c.seed + k, n_random=1, n_pct=0):
            cases.append((params, spec))
    recs = pe.run_cases(c, cases, "entries moved into / out of a directory that left the tree (D7)")
    pe.validate(c, "C01", recs)
    c.cov["rule"] = ("histories: all paths of <= %d operations in the TLC graph of FsGen.tla from 3 start trees (exhaustive) + %d "
                     "seeded random paced histories; each executed on the real observer/kernel under 3-5 timings; distinct = "
                     "distinct black-box traces" % (K, nrand))
    c.assumptions += ["no inotify queue overflow, no links; pacing condition as in FsKernel.PacingOK (DESIGN §7)",
                      "the scheduler's quiescence (all threads blocked, no timer pending) is the drain point"]


if __name__ == "__main__":
    checklib.main_wrapper("C01", run)
