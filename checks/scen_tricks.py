"""Scenarios on the real EventDebouncer / AutoRestartTrick / ShellCommandTrick (C18) under the deterministic
scheduler, with the simulated process table (harness.fakeproc) behind subprocess.Popen and kill_process.

Black-box trace lines (all times are small integers, `now`):
  hdr      kind = deb | ar | sh, the options of the object under test, `fam` (scenario family, for signatures)
  call/ret op = ev (event k handed in by thread t; trig = it is a triggering event), start, stop, join
  exc      an exception escaped from the call (op, exc)
  cbatch   the debouncer's callback was invoked with events ks ; cbret: it returned
  proc     k = spawn | kill | kill_gone | exit, pid (1, 2, ...), alive (after the step), why
  tick     virtual time moved
  ready    (white-box hint, never judged) the debouncer thread reached its first wait
  quiescent, final (live helper threads, restart_count), deadlock, uncaught,
  steplimit (the program did not come to rest within MAX_STEPS scheduler steps: a run-away loop)
"""

from __future__ import annotations

from harness import detsched, fakeproc, loader

HELPERS = ("EventDebouncer", "ProcessWatcher")
RUNAWAY_KEEP = 60
MAX_STEPS = 1200  # the programs here take < 400 scheduler steps; a run-away loop is cut here (line `steplimit`)


def _world():
    w = loader.load()
    w.mod("tricks").kill_process = fakeproc.kill_process
    return w


def _set_fine(cls, names, on):
    """Make reads/writes of the given instance attributes yield points (or undo it)."""
    for n in names:
        cur = cls.__dict__.get(n)
        if on and not isinstance(cur, detsched.YieldAttr):
            setattr(cls, n, detsched.YieldAttr(n))
        elif not on and isinstance(cur, detsched.YieldAttr):
            delattr(cls, n)


def _is_watcher(task):
    return type(getattr(task, "thread", None)).__name__ == "ProcessWatcher"


def _manual(task, label):
    # ProcessWatcher's `stopped_event.wait(timeout=0.1)` is a periodic timer: it only fires when the driver says so
    return label == "evwait" and _is_watcher(task)


def _live_helpers(s):
    return sorted(type(x.thread).__name__ for x in s.tasks
                  if x.kind == "lib" and x.state != "done" and type(x.thread).__name__ in HELPERS)


def _post(s, unit, hdr, deb_task_prefix="EventDebouncer"):
    """Project the scheduler's log to the black-box lines."""
    out = [hdr]
    ready = False
    stopper = None  # thread inside stop(): its first Event.set() is the debouncer's stop flag (hint `dbstop`)

    def u(x):
        return int(round((x - detsched.T0) / unit))

    for e in s.trace:
        k = e["e"]
        if k in ("call", "ret", "exc", "cbatch", "cbret", "quiescent", "final"):
            d = {a: b for a, b in e.items() if a not in ("i", "now")}
            d["now"] = u(e["now"])
            out.append(d)
            if k == "call" and e.get("op") == "stop" and hdr["debounced"]:
                stopper = e["t"]
        elif k == "set" and stopper is not None and e["t"] == stopper:
            stopper = None
            out.append({"t": e["t"], "e": "dbstop"})
        elif k == "proc":
            d = {"t": e["t"], "e": "proc", "k": e["k"], "pid": e["pid"] - 99, "alive": [p - 99 for p in e["alive"]],
                 "why": e.get("why", ""), "now": u(e["now"])}
            out.append(d)
        elif k == "tick":
            out.append({"t": "clock", "e": "tick", "now": u(e["now"])})
        elif k == "wait" and not ready and e["t"].startswith(deb_task_prefix):
            ready = True
            out.append({"t": e["t"], "e": "ready"})
        elif k == "uncaught":
            out.append({"t": e["th"], "e": "uncaught", "cls": e["cls"], "exc": e["exc"], "where": e.get("where", [])})
        elif k == "deadlock":
            out.append({"t": "sched", "e": "deadlock", "blocked": [f"{x['task']}@{x['at']}" for x in e.get("info", [])]})
    return out


def _wrap(program, unit, hdr, sched_kw):
    def wrapped(s):
        try:
            program(s)
        except detsched.Deadlock as d:
            tr = _post(s, unit, hdr)
            tr.append({"t": "sched", "e": "deadlock", "blocked": [f"{x['task']}@{x['at']}" for x in d.info]})
            return {"trace": tr, "deadlock": True}
        except detsched.StepLimit:
            # a run-away loop: the first lines tell the story (and keep the validation of the trace cheap)
            tr = _post(s, unit, hdr)[:RUNAWAY_KEEP]
            tr.append({"t": "sched", "e": "steplimit", "steps": s.steps})
            return {"trace": tr, "steplimit": True}
        return {"trace": _post(s, unit, hdr)}

    wrapped.sched_kw = sched_kw
    return wrapped


def _call(s, op, fn, **kw):
    s.log("call", op=op, **kw)
    try:
        fn()
    except detsched.SchedAbort:
        raise
    except Exception as e:  # noqa: BLE001
        s.log("exc", op=op, exc=type(e).__name__, msg=str(e)[:80])
        return False
    s.log("ret", op=op)
    return True


# ----------------------------------------------------------------------------- EventDebouncer alone

DEB_UNIT = 1.0  # one time unit = 1 s; intervals 0 / 2 units, gaps 0..3 units


def deb_program(params):
    """params: {"iv": 0|2, "threads": {"p": [op, ...], ...}, "slowcb": d, "fam": str}
    op: ["ev", k] | ["sleep", g] | ["stop"] | ["join"]"""
    w = _world()
    Deb = w.mod("utils.event_debouncer").EventDebouncer
    events = w.mod("events")
    th = w.shims["threading"]
    tm = w.shims["time"]
    iv = params["iv"]
    threads = params["threads"]
    slowcb = params.get("slowcb", 0)
    hdr = {"t": "main", "e": "hdr", "kind": "deb", "iv": iv, "timed": True, "fam": params.get("fam", "deb"),
           "roe": False, "debounced": True, "wait": False, "drop": False}

    def program(s):
        ids = {}

        def cb(evs):
            s.log("cbatch", ks=[ids.get(id(e), 0) for e in evs])
            if slowcb:
                tm.sleep(slowcb * DEB_UNIT)
            s.log("cbret")

        deb = Deb(iv * DEB_UNIT, cb)
        evobj = {}

        def mk(k):
            # params["equal"]: all events are equal (one file modified again and again) but distinct objects
            e = events.FileModifiedEvent("/w/f.py" if params.get("equal") else f"/w/f{k}.py")
            ids[id(e)] = k
            evobj[k] = e
            return e

        def worker(ops):
            for op in ops:
                if op[0] == "ev":
                    e = mk(op[1])
                    _call(s, "ev", lambda: deb.handle_event(e), k=op[1], trig=True)
                elif op[0] == "sleep":
                    tm.sleep(op[1] * DEB_UNIT)
                elif op[0] == "stop":
                    _call(s, "stop", deb.stop)
                elif op[0] == "join":
                    _call(s, "join", deb.join)

        _call(s, "start", deb.start)
        ts = [th.Thread(target=worker, args=(ops,), name=n) for n, ops in sorted(threads.items())]
        for t in ts:
            t.start()
        for t in ts:
            t.join()
        s.wait_quiescent()
        s.log("quiescent")
        s.log("final", live=_live_helpers(s), count=0)

    return _wrap(program, DEB_UNIT, hdr, {"white": True, "max_steps": MAX_STEPS})


def deb_random(params):
    """Random debouncer program derived from params['seed']: 1-2 producers, 2-5 events, a stopper now and then."""
    import random

    rng = random.Random(params["seed"] * 104729 + 7)
    iv = rng.choice([2, 2, 0])
    k = 0
    threads = {}
    for name in ("p", "q")[: rng.randint(1, 2)]:
        ops = []
        for _ in range(rng.randint(1, 3)):
            if rng.random() < 0.6:
                ops.append(["sleep", rng.choice([1, 2, 3])])
            k += 1
            ops.append(["ev", k])
        threads[name] = ops
    if rng.random() < 0.6:
        threads["s"] = ([["sleep", rng.choice([1, 2, 3, 4, 6])]] if rng.random() < 0.7 else []) + [["stop"], ["join"]]
    p = {"iv": iv, "threads": threads, "fam": "deb_random", "slowcb": rng.choice([0, 0, 0, 3])}
    prog = deb_program(p)
    prog.params = p
    return prog


# ----------------------------------------------------------------------------- AutoRestartTrick

AR_UNIT = 0.05
AR_ATTRS = ("process", "process_watcher", "_is_trick_stopping", "_is_process_stopping")


def _mk_event(events, spec, k):
    """spec: "m" matching modified, "x" modified but not matching the patterns, "o" opened (never a trigger),
    "c" closed-no-write (never a trigger), "v" moved onto a matching name"""
    if spec == "m":
        return events.FileModifiedEvent(f"/w/a{k}.py"), True
    if spec == "x":
        return events.FileModifiedEvent(f"/w/a{k}.txt"), False
    if spec == "o":
        return events.FileOpenedEvent(f"/w/a{k}.py"), False
    if spec == "c":
        return events.FileClosedNoWriteEvent(f"/w/a{k}.py"), False
    if spec == "v":
        return events.FileMovedEvent(f"/w/a{k}.tmp", f"/w/a{k}.py"), True
    raise ValueError(spec)


def _exit_child(s):
    """Environment step: the youngest live child exits by itself; the watchers' poll timers come due."""
    al = fakeproc.TABLE.alive()
    if al:
        al[-1]._exit(0, "self")
    s.fire_manual_timers()


def _settle(s, rounds=2):
    """Let every thread come to rest, every ProcessWatcher poll at least once more."""
    s.wait_quiescent()
    for _ in range(rounds):
        if s.fire_manual_timers():
            s.wait_quiescent()


def _stop_op(s, th, trick, rounds=6):
    """trick.stop() runs in a thread of its own while the calling driver stays passive (it only runs when nothing else
    can): should stop() block on something only a ProcessWatcher's periodic poll can provide (joining a watcher that
    was never stopped), the poll timers are let come due a few times; if that does not help, the final join() makes
    the scheduler report the exact deadlock."""
    st = th.Thread(target=lambda: _call(s, "stop", trick.stop), name="stopper")
    st.start()
    for _ in range(rounds):
        s.wait_quiescent()
        if st._finished or not s.fire_manual_timers():
            break
    st.join()


def ar_program(params):
    """params: {"roe": bool, "deb": 0|interval units, "dos": bool, "kill_after": seconds, "fine": bool, "fam": str,
                "threads": {"disp": [op...], "env": [...], "app": [...]}}
    op: ["ev", spec] | ["sleep", units] | ["exit"] | ["stop"] | ["settle"]"""
    w = _world()
    tricks = w.mod("tricks")
    events = w.mod("events")
    th = w.shims["threading"]
    tm = w.shims["time"]
    _set_fine(tricks.AutoRestartTrick, AR_ATTRS, bool(params.get("fine")))
    threads = params["threads"]
    debi = params.get("deb", 0)
    hdr = {"t": "main", "e": "hdr", "kind": "ar", "iv": debi, "timed": False, "fam": params.get("fam", "ar"),
           "roe": bool(params["roe"]), "debounced": bool(debi), "wait": False, "drop": False}

    def program(s):
        fakeproc.TABLE.reset()
        fakeproc.TABLE.die_on_signal = bool(params.get("dos", True))
        trick = tricks.AutoRestartTrick(["server"], patterns=["*.py"], kill_after=params.get("kill_after", 0.5),
                                        debounce_interval_seconds=debi * AR_UNIT, restart_on_command_exit=params["roe"])
        nev = [0]
        trick._verif_ids = {}

        def wrap_debouncer():
            if trick.event_debouncer is None or getattr(trick.event_debouncer, "_verif_wrapped", False):
                return
            inner = trick.event_debouncer.events_callback
            ids = trick._verif_ids

            def cb(evs):
                s.log("cbatch", ks=[ids.get(id(e), 0) for e in evs])
                try:
                    inner(evs)
                finally:
                    s.log("cbret")

            trick.event_debouncer.events_callback = cb
            trick.event_debouncer._verif_wrapped = True

        if not params.get("nostart"):
            _call(s, "start", trick.start)
            wrap_debouncer()

        def worker(ops):
            for op in ops:
                if op[0] == "ev":
                    nev[0] += 1
                    k = nev[0]
                    e, trig = _mk_event(events, op[1], k)
                    if trick.event_debouncer is not None:
                        trick._verif_ids[id(e)] = k
                    _call(s, "ev", lambda: trick.dispatch(e), k=k, trig=trig)
                elif op[0] == "sleep":
                    tm.sleep(op[1] * AR_UNIT)
                elif op[0] == "exit":
                    s.yield_("envexit")
                    _exit_child(s)
                elif op[0] == "stop":
                    _stop_op(s, th, trick)
                elif op[0] == "start":
                    _call(s, "start", trick.start)
                    wrap_debouncer()
                elif op[0] == "settle":
                    _settle(s)
                    s.log("quiescent")

        ts = [th.Thread(target=worker, args=(ops,), name=n) for n, ops in sorted(threads.items())]
        for t in ts:
            t.start()
        for t in ts:
            t.join()
        _settle(s)
        s.log("quiescent")
        s.log("final", live=_live_helpers(s), count=trick.restart_count)

    return _wrap(program, AR_UNIT, hdr, {"white": True, "manual_timer": _manual, "max_steps": MAX_STEPS})


def ar_random(params):
    """Random program + options derived from params['seed'] (explore.sample seeds the schedule with the same number)."""
    import random

    rng = random.Random(params["seed"] * 7919 + 13)
    disp = []
    for _ in range(rng.randint(1, 3)):
        disp.append(["ev", rng.choice("mmmmxov")])
        if rng.random() < 0.4:
            disp.append(["sleep", rng.choice([1, 2, 3, 6])])
    env = []
    for _ in range(rng.randint(0, 2)):
        if rng.random() < 0.5:
            env.append(["sleep", rng.choice([1, 2, 4])])
        env.append(["exit"])
    app = []
    if rng.random() < 0.75:
        if rng.random() < 0.5:
            app.append(["sleep", rng.choice([1, 3, 5])])
        app.append(["stop"])
    p = {"roe": rng.random() < 0.7, "deb": rng.choice([0, 0, 2]), "dos": rng.random() < 0.6,
         "kill_after": rng.choice([0, 0.5]), "fine": bool(params.get("fine", True)), "fam": "ar_random",
         "threads": {"disp": disp, "env": env, "app": app}}
    prog = ar_program(p)
    prog.params = p
    return prog


# ----------------------------------------------------------------------------- ShellCommandTrick

SH_UNIT = 0.05


def sh_program(params):
    """params: {"wait": bool, "drop": bool, "fam": str, "threads": {"disp": [...], "env": [...]}}
    op: ["ev", spec] | ["sleep", units] | ["exit"] | ["settle"]
    on_any_event is only ever called from the one dispatcher thread `disp`."""
    w = _world()
    tricks = w.mod("tricks")
    events = w.mod("events")
    th = w.shims["threading"]
    tm = w.shims["time"]
    threads = params["threads"]
    hdr = {"t": "main", "e": "hdr", "kind": "sh", "iv": 0, "timed": False, "fam": params.get("fam", "sh"),
           "roe": False, "debounced": False, "wait": bool(params["wait"]), "drop": bool(params["drop"])}

    def program(s):
        fakeproc.TABLE.reset()
        trick = tricks.ShellCommandTrick("make ${watch_src_path}", patterns=["*.py"], wait_for_process=params["wait"],
                                         drop_during_process=params["drop"])
        nev = [0]

        def worker(ops):
            for op in ops:
                if op[0] == "ev":
                    nev[0] += 1
                    e, trig = _mk_event(events, op[1], nev[0])
                    _call(s, "ev", lambda: trick.dispatch(e), k=nev[0], trig=trig)
                elif op[0] == "sleep":
                    tm.sleep(op[1] * SH_UNIT)
                elif op[0] == "exit":
                    s.yield_("envexit")
                    _exit_child(s)
                elif op[0] == "settle":
                    _settle(s)
                    s.log("quiescent")

        ts = [th.Thread(target=worker, args=(ops,), name=n) for n, ops in sorted(threads.items())]
        for t in ts:
            t.start()
        # the environment ends every command that is still running once the dispatcher is blocked or done
        # (wait_for_process blocks the dispatcher until its command has ended)
        for _ in range(12):
            _settle(s, rounds=1)
            if not fakeproc.TABLE.alive() and all(t._finished for t in ts):
                break
            _exit_child(s)
        for t in ts:
            t.join()
        _settle(s)
        s.log("quiescent")
        s.log("final", live=_live_helpers(s), count=len(fakeproc.TABLE.procs))

    return _wrap(program, SH_UNIT, hdr, {"white": True, "manual_timer": _manual, "max_steps": MAX_STEPS})
