"""Scenario for C08: the real InotifyBuffer (+ Inotify.read_events) fed with scripted native batches through the
os.read seam, virtual clock, consumer thread calling read_event()."""

from __future__ import annotations

import os
import shutil
import struct
import tempfile

from harness import detsched, loader, seam as seam_mod

UNIT = None  # virtual seconds per model time unit = InotifyBuffer.delay / 2, read from the class at run time


def pairing_program(params):
    """params: {"batches": [[["MF",1],["X",0]], [["MT",1]]], "gaps": [0, 1]}   gaps[i] = time units before batch i"""
    w = loader.load()
    th = w.shims["threading"]
    tm = w.shims["time"]
    C = w.mod("observers.inotify_c").InotifyConstants
    Buf = w.mod("observers.inotify_buffer").InotifyBuffer
    MASK = {"MF": C.IN_MOVED_FROM, "MT": C.IN_MOVED_TO, "X": C.IN_MODIFY, "IG": C.IN_IGNORED}
    batches = params["batches"]
    gaps = params.get("gaps", [0] * len(batches))
    UNIT = Buf.delay / 2.0   # the pairing delay is 2 model time units whatever its value in seconds

    def program(s):
        base = tempfile.mkdtemp(prefix="verif-pr-", dir=os.environ.get("TMPDIR", "/tmp"))
        root = os.path.join(base, "R")
        os.makedirs(os.path.join(root, "s"))
        sm = seam_mod.Seam(w, log=False).install()
        try:
            return body(s, sm, os.fsencode(root))
        finally:
            sm.cleanup()
            sm.remove()
            shutil.rmtree(base, ignore_errors=True)

    def t(s):
        v = (s.now - detsched.T0) / UNIT
        assert abs(v - round(v)) < 1e-6, v
        return int(round(v))

    def body(s, sm, rootb):
        buf = Buf(rootb, recursive=True)
        ino = buf._inotify
        sm.script_fd = ino._inotify_fd
        wd_root = ino._wd_for_path[rootb]
        wd_sub = ino._wd_for_path[os.path.join(rootb, b"s")]
        names = {}
        idx = [0]

        def encode(batch):
            out = b""
            evs = []
            for k, c in batch:
                idx[0] += 1
                if k == "IG":
                    name, wd = b"", wd_sub
                else:
                    name, wd = f"n{idx[0]}".encode(), wd_root
                names[(wd, MASK[k], c, name)] = idx[0]
                ln = 16 if name else 0
                out += struct.pack("iIII", wd, MASK[k], c, ln) + name.ljust(ln, b"\0")
                evs.append({"k": k, "c": c})
            return out, evs

        pending = {}

        def on_read(data):
            s.log("fed", now_u=t(s), evs=pending.pop(data))

        sm.on_script_read = on_read

        def ident(ev):
            return names.get((ev.wd, ev.mask, ev.cookie, ev.name), -1)

        def consumer():
            while True:
                ev = buf.read_event()
                if ev is None:
                    s.log("got", a=0, b=0, now_u=t(s))
                    return
                if isinstance(ev, tuple):
                    s.log("got", a=ident(ev[0]), b=ident(ev[1]), now_u=t(s))
                elif ident(ev) == -1 and ev.is_directory and (ev.is_open or ev.is_close_nowrite):
                    continue  # real-kernel noise of the constructor's own directory listing (before the script starts)
                else:
                    s.log("got", a=ident(ev), b=0, now_u=t(s))

        def driver():
            # let the real-kernel noise of the constructor's own directory listing drain first: the kernel never
            # delivers an event on a watch descriptor after its IN_IGNORED, and the script must not either
            s.wait_quiescent()
            for b, g in zip(batches, gaps):
                if g:
                    tm.sleep(g * UNIT)
                data, evs = encode(b)
                pending[data] = evs
                s.yield_("feed")
                sm.script.append(data)
            s.wait_quiescent()
            s.log("end")

        c = th.Thread(target=consumer, name="hconsumer")
        d = th.Thread(target=driver, name="hdriver")
        c.start()
        d.start()
        d.join()
        buf.close()
        c.join()
        return {}

    def post(s):
        out = []
        last = 0
        for e in s.trace:
            if e["e"] in ("fed", "got"):
                u = e["now_u"]
                if u != last:
                    out.append({"t": "clock", "e": "tick", "now": u})
                    last = u
                d = {k: v for k, v in e.items() if k not in ("i", "now", "now_u")}
                out.append(d)
            elif e["e"] in ("end", "uncaught"):
                out.append({"t": e["t"], "e": e["e"]})
        return out

    def wrapped(s):
        try:
            program(s)
        except detsched.Deadlock:
            return {"trace": post(s) + [{"t": "sched", "e": "deadlock"}]}
        return {"trace": post(s)}

    return wrapped
