"""C03  Every delivered event is justified and correctly typed; single operations meet their contract.

Soundness: on every history (TLC graph of FsGen.tla + random ones, all timings) each callback must be explained by an
operation that had begun before it (PipelineTrace.tla: Justified over the facts of the harness's own record of what
each operation did; flavour = kind of the entry; synthetic only for descendants of a moved / newly arrived directory).
Completeness: every history is also run one operation at a time (drain after each) and the events of each window are
compared with Contract(op) -- written from the property text and inotify(7) -- nothing missing, nothing added, top
events exactly once; recursive / non-recursive x normal / full emitter."""
import os
import sys

sys.path.insert(0, os.path.dirname(os.path.dirname(os.path.abspath(__file__))))
from checks import pipeline_engine as pe  # noqa: E402
from harness import checklib  # noqa: E402


def one_at_a_time(h):
    out = []
    for op in h:
        if op[0] == "drain":
            continue
        out += [op, ["drain"]]
    return out


def run(c):
    pe.run_design(c, histories=False)
    K = 3 if c.thorough else 2
    sound, contract = [], []
    nh = 0
    for start in ("small", "deep", "empty"):
        hs, r = pe.tlc_histories(start, K)
        c.add_tlc(f"FsGen:{start}:K={K}", r)
        nh += len(hs)
        for i, h in enumerate(hs):
            params = dict(pe.START[start], ops=h, recursive=(i % 3 != 2), paced=True, full=(i % 4 == 3))
            if i % 3 == 1:
                params["names"] = pe.PREFIX_NAMES
            for spec in pe.timings(c.seed + i, n_random=1, n_pct=0)[1:]:
                sound.append((params, spec))
            # contract: one operation at a time; every (recursive, full) combination over the histories
            combos = [(True, False), (False, False), (True, True), (False, True)]
            for j, (rec, full) in enumerate(combos):
                if not c.thorough and (i + j) % 2:
                    continue
                p2 = dict(pe.START[start], ops=one_at_a_time(h), recursive=rec, full=full, paced=True, contract=True,
                          final_probe=False)
                contract.append((p2, ("prio", "library") if (i + j) % 3 else ("random", c.seed + i, 0.6)))
    c.note(f"{nh} paced histories of <= {K} operations from the TLC graph of FsGen.tla")
    recs = pe.run_cases(c, sound, "soundness runs (back to back / random timing)")
    pe.validate(c, "C03", recs)
    recs = pe.run_cases(c, contract, "contract runs (one operation at a time)")
    pe.validate(c, "C03", recs)
    nrand = 1200 if c.thorough else 120
    cases = []
    for k in range(nrand):
        seed = c.seed * 1000003 + 104729 + k
        hist = pe.random_history(seed, 20 + (k % 5) * 10 if c.thorough else 12 + (k % 3) * 6)
        params = dict(hist, recursive=(k % 4 != 3), full=(k % 5 == 4), paced=True)
        for spec in [("prio", "driver"), ("random", seed, 0.7)]:
            cases.append((params, spec))
    recs = pe.run_cases(c, cases, "random paced histories")
    pe.validate(c, "C03", recs)
    # soundness does not depend on pacing: bursts that build a nested tree below a directory the library has not seen yet
    # (it learns about the contents from its own walk of the new directory): every event must still name something real
    cases = []
    bursts = [[["mkdir", "c"], ["mkdir", "c/d"], ["creat", "c/d/f"], ["creat", "c/g"], ["drain"]],
              [["makedirs", "c/d"], ["creat", "c/d/f"], ["mkdir", "c/d/ab"], ["creat", "c/d/ab/f"], ["drain"]],
              [["mkdir", "c"], ["mkdir", "c/d"], ["mkdir", "c/d/ab"], ["creat", "c/d/ab/f"], ["write", "c/d/ab/f"], ["drain"], ["chmod", "c/d/ab/f"], ["drain"]]]
    # (creation-only bursts.  A burst that also renames the fresh directory and goes on creating below the new name makes
    # the library's late walk of the destination announce, as synthetic moved events, entries that never existed under
    # the old name: an observation outside the pacing condition, recorded in DESIGN section 8, not claimed here.)
    for k, ops in enumerate(bursts):
        for start in ("empty", "small"):
            params = dict(pe.START[start], ops=ops, recursive=True, paced=False, final_probe=False)
            for spec in [("prio", "driver"), ("prio", "library"), ("random", c.seed + k, 0.8), ("random", c.seed + k + 50, 0.5)]:
                cases.append((params, spec))
    recs = pe.run_cases(c, cases, "unpaced bursts building nested trees (soundness only)")
    pe.validate(c, "C03", recs)
    # operations on a directory after it was moved out of the tree (its kernel watch is kept: known finding D7)
    cases = []
    for k, (tail, rec) in enumerate([([["owrite", "z/a"]], True), ([["ocreat", "z/n"], ["drain"], ["ounlink", "z/a"]], True),
                                     ([["omkdir", "z/m"], ["drain"], ["ormdir", "z/m"]], True), ([["owrite", "z/a"]], False)]):
        params = dict(pe.START["small"], ops=[["moveout", "a", "z"], ["drain"]] + tail + [["drain"]], recursive=rec, paced=True)
        for spec in pe.timings(c.seed + k, n_random=1, n_pct=0):
            cases.append((params, spec))
    recs = pe.run_cases(c, cases, "operations on a moved-out directory")
    pe.validate(c, "C03", recs)
    c.cov["rule"] = ("soundness: every callback of every execution; contract: every operation of every history of <= %d operations "
                     "(TLC graph of FsGen.tla) run one at a time, recursive/non-recursive x normal/full emitter" % K)
    c.assumptions += ["adjacent identical events may be coalesced (set comparison + exactly-once for created/deleted/moved)",
                      "an unpaired rename half may be reported as deleted / created (pairing is C08's business)"]


if __name__ == "__main__":
    checklib.main_wrapper("C03", run)
