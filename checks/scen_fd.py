"""Scenarios for C12: the real Inotify / InotifyBuffer / InotifyEmitter on a real scratch directory with the OS seam
(descriptor shadow table, fault directives) under the deterministic scheduler."""

from __future__ import annotations

import errno
import os
import shutil
import tempfile

from harness import detsched, loader, seam as seam_mod

ERR = {"ENOENT": errno.ENOENT, "ENOSPC": errno.ENOSPC, "EMFILE": errno.EMFILE, "EACCES": errno.EACCES}


def _world():
    w = loader.load()
    ino = w.mod("observers.inotify")
    # InotifyEmitter.on_thread_stop touches _inotify without the emitter lock
    detsched.install_yield_attr(ino.InotifyEmitter, "_inotify")
    return w


def _mktree(n):
    base = tempfile.mkdtemp(prefix="verif-fd-", dir=os.environ.get("TMPDIR", "/tmp"))
    root = os.path.join(base, "R")
    os.mkdir(root)
    p = root
    for i in range(1, n):
        p = os.path.join(p, f"d{i}")
        os.mkdir(p)
    return base, root


def fd_program(params):
    """params:
        level   : "inotify" | "buffer" | "observer"
        dirs    : number of directories of the (chain-shaped) tree, root included
        closers : number of threads that close/stop
        ops     : file-system operations done by a driver thread: ["mkdir", name] ["touch", name] ["rmdir", name]
        faults  : [[call, n, errname], ...]   fail the n-th call of that kind
        early   : close before the reader thread ever ran (observer level: stop right after start)
    """
    w = _world()
    th = w.shims["threading"]
    level = params.get("level", "buffer")
    ndirs = params.get("dirs", 2)
    nclosers = params.get("closers", 1)
    ops = params.get("ops", [])
    faults = params.get("faults", [])

    def program(s):
        base, root = _mktree(ndirs)
        sm = seam_mod.Seam(w).install()
        sm.root = os.fsencode(root)
        for call, n, en in faults:
            sm.faults[(call, n)] = ERR[en]
        try:
            return body(s, sm, root)
        finally:
            leaked = sm.cleanup()
            sm.remove()
            shutil.rmtree(base, ignore_errors=True)

    def body(s, sm, root):
        obj = None
        failed = None
        rootb = os.fsencode(root)

        def fsops():
            for op in ops:
                s.yield_("fsop")
                p = os.path.join(root, op[1])
                try:
                    if op[0] == "mkdir":
                        os.mkdir(p)
                    elif op[0] == "touch":
                        with open(p, "w"):
                            pass
                    elif op[0] == "rmdir":
                        os.rmdir(p)
                except OSError:
                    pass
                s.log("op", op=op[0], name=op[1])

        helpers = []
        if level == "inotify":
            Inotify = w.mod("observers.inotify_c").Inotify
            try:
                obj = Inotify(rootb, recursive=True)
            except OSError as e:
                failed = errno.errorcode.get(e.errno, str(e.errno))
            if obj is not None:
                def reader():
                    while True:
                        evs = obj.read_events()
                        if obj._closed:
                            break
                t = th.Thread(target=reader, name="hreader")
                helpers.append(t)
                t.start()
                closers = [th.Thread(target=obj.close, name=f"hcloser{i}") for i in range(nclosers)]
        elif level == "buffer":
            Buf = w.mod("observers.inotify_buffer").InotifyBuffer
            try:
                obj = Buf(rootb, recursive=True)
            except OSError as e:
                failed = errno.errorcode.get(e.errno, str(e.errno))
            if obj is not None:
                def consumer():
                    while obj.read_event() is not None:
                        pass
                t = th.Thread(target=consumer, name="hconsumer")
                helpers.append(t)
                t.start()
                closers = [th.Thread(target=obj.close, name=f"hcloser{i}") for i in range(nclosers)]
        else:  # observer
            inotify = w.mod("observers.inotify")
            events = w.mod("events")
            obs = inotify.InotifyObserver()
            obj = obs
            h = events.FileSystemEventHandler()

            def sched_start():
                nonlocal failed
                try:
                    obs.schedule(h, root, recursive=True)
                except OSError as e:
                    failed = errno.errorcode.get(e.errno, str(e.errno))
                try:
                    obs.start()
                except OSError as e:
                    failed = errno.errorcode.get(e.errno, str(e.errno))

            sched_start()

            def stopper():
                obs.stop()
                try:
                    obs.join()
                except RuntimeError:
                    pass
            closers = [th.Thread(target=stopper, name=f"hcloser{i}") for i in range(nclosers)]
        if failed:
            s.log("note", what="ctor_failed", err=failed)
        if obj is not None and not (failed and level != "observer"):
            d = th.Thread(target=fsops, name="hdriver")
            helpers.append(d)
            d.start()
            for c in closers:
                c.start()
            for c in closers:
                c.join()
            for t in helpers:
                t.join()
        live = sorted(x.name for x in s.tasks if x.kind == "lib" and x.state != "done" and not x.name.startswith("h"))
        s.log("final", open=sm.open_fds(), live=live)
        return {}

    keep = ("sys", "use_after_close", "double_close", "final", "uncaught", "note", "op")

    def post(s):
        out = []
        for e in s.trace:
            if e["e"] in keep:
                d = {k: v for k, v in e.items() if k not in ("i", "now") and v is not None}
                if e["e"] == "sys":
                    d["ok"] = e.get("res") != -1
                    if "res" in d and not isinstance(d["res"], (str, list)):
                        d["res"] = str(d["res"])
                out.append(d)
        return out

    def wrapped(s):
        try:
            program(s)
        except detsched.Deadlock as d:
            return {"trace": post(s) + [{"t": "sched", "e": "deadlock", "info": str(d.info)[:300]}]}
        return {"trace": post(s)}

    return wrapped


def real_lifecycle_program(params):
    """C06 with the REAL emitters: params = {"observer": "inotify"|"polling", "threads": {"app1": [op...], "app2": [...]},
    "dirs": n}.  op: ["schedule", sub] ["unschedule", sub] ["unschedule_all"] ["start"] ["stop"] ["join"] ["rmroot"]
    ["touch", name] ["cb_stop"] (schedule a handler that calls stop() from its first callback)."""
    w = _world()
    th = w.shims["threading"]
    kind = params.get("observer", "inotify")
    threads = params["threads"]

    def program(s):
        base, root = _mktree(params.get("dirs", 2))
        sm = seam_mod.Seam(w, log=False).install()
        sm.root = os.fsencode(root)
        try:
            return body(s, root)
        finally:
            sm.cleanup()
            sm.remove()
            shutil.rmtree(base, ignore_errors=True)

    def body(s, root):
        events = w.mod("events")
        if kind == "polling":
            obs = w.mod("observers.polling").PollingObserver(timeout=1.0)
        else:
            obs = w.mod("observers.inotify").InotifyObserver()
        watches = {}
        counter = [0]

        # sets of emitters / handlers iterate in id() order otherwise: executions would not be reproducible (DFS prefixes)
        class DetEmitter(obs._emitter_class):
            def __init__(self, *a, **k):
                counter[0] += 1
                self._det_id = counter[0]
                super().__init__(*a, **k)

            def __hash__(self):
                return self._det_id

            def __eq__(self, other):
                return self is other

        DetEmitter.__name__ = obs._emitter_class.__name__
        DetEmitter.__qualname__ = obs._emitter_class.__qualname__
        obs._emitter_class = DetEmitter

        class H(events.FileSystemEventHandler):
            def __init__(self, action=None):
                self.action = action
                self.n = 0
                counter[0] += 1
                self._det_id = counter[0]

            def __hash__(self):
                return self._det_id

            def __eq__(self, other):
                return self is other

            def on_any_event(self, event):
                self.n += 1
                if self.n == 1 and self.action:
                    do(self.action)

        def call(name, fn):
            s.log("call", op=name)
            try:
                fn()
                s.log("ret", op=name, ok=True)
            except detsched.SchedAbort:
                raise
            except Exception as e:  # noqa: BLE001
                s.log("ret", op=name, ok=False, exc=type(e).__name__)

        def do(op):
            k = op[0]
            if k == "schedule":
                p = root if op[1] == "." else os.path.join(root, op[1])
                call("schedule", lambda: watches.__setitem__(op[1], obs.schedule(H(), p, recursive=True)))
            elif k == "cb_stop":
                call("schedule", lambda: watches.__setitem__(".", obs.schedule(H(["stop"]), root, recursive=True)))
            elif k == "unschedule":
                if op[1] in watches:
                    call("unschedule", lambda: obs.unschedule(watches.pop(op[1])))
            elif k == "unschedule_all":
                call("unschedule_all", obs.unschedule_all)
            elif k == "start":
                call("start", obs.start)
            elif k == "stop":
                call("stop", obs.stop)
            elif k == "join":
                call("join", obs.join)
            elif k == "rmroot":
                s.yield_("fsop")
                shutil.rmtree(root, ignore_errors=True)
                s.log("op", op="rmroot")
            elif k == "touch":
                s.yield_("fsop")
                try:
                    open(os.path.join(root, op[1]), "w").close()
                except OSError:
                    pass
                s.log("op", op="touch")
            elif k == "poll":
                s.wait_quiescent()
                s.fire_manual_timers()
                s.wait_quiescent()

        def app(ops):
            for op in ops:
                do(op)

        ts = [th.Thread(target=app, args=(ops,), name="h" + n) for n, ops in sorted(threads.items())]
        for t in ts:
            t.start()
        for t in ts:
            t.join()
        live = sorted(x.name for x in s.tasks if x.kind == "lib" and x.state != "done" and not x.name.startswith("h"))
        s.log("final", open=[], live=live)
        return {}

    keep = ("call", "ret", "op", "final", "uncaught")

    def post(s):
        return [{k: v for k, v in e.items() if k not in ("i", "now")} for e in s.trace if e["e"] in keep]

    def wrapped(s):
        try:
            program(s)
        except detsched.Deadlock as d:
            return {"trace": post(s) + [{"t": "sched", "e": "deadlock", "info": str(d.info)[:300]}]}
        return {"trace": post(s)}

    if kind == "polling":
        wrapped.sched_kw = {"manual_timer": lambda task, label: label == "evwait"}
    return wrapped
