"""Scenarios on the real inotify pipeline (InotifyObserver -> InotifyEmitter -> InotifyBuffer -> Inotify) on a real
scratch directory against the real kernel, under the deterministic scheduler (C01, C02, C03, C07, C11, C19).

The driver performs file-system operations one system call at a time (each a yield point), keeps its own record of
the tree from the outcome of every system call, and logs black-box lines only:
    op         an operation of the history, with the tree (relative paths + kinds) after it
    cb         a handler callback: handler id, event class, src/dst projected to name sequences, synthetic flag, type tag
    quiescent  the scheduler found every thread blocked and no timer pending (stream drained), with the tree
    probe      a probe file was created in a directory (C02 / C07)
    uncaught / thread_exit / final
"""

from __future__ import annotations

import os
import shutil
import tempfile

from harness import detsched, loader, seam as seam_mod


def _world():
    w = loader.load()
    ino = w.mod("observers.inotify")
    detsched.install_yield_attr(ino.InotifyEmitter, "_inotify")
    return w


class WalkProxy:
    """`os` stand-in whose walk() is a yield point per directory listed (the tree may change under the walker)."""

    def __init__(self, label):
        self._label = label

    def __getattr__(self, k):
        if k == "walk":
            return self._walk
        return getattr(os, k)

    def _walk(self, top, *a, **kw):
        it = os.walk(top, *a, **kw)
        while True:
            s = detsched._CUR
            if s is not None and not s.aborting:
                s.yield_("walk:" + self._label)
            try:
                x = next(it)
            except StopIteration:
                return
            yield x


KIND = {"d": "dir", "f": "file"}


class Driver:
    """Performs operations on <base>/R (watched) and <base>/O (outside); keeps the model tree of R."""

    def __init__(self, s, base, rootname=b"R"):
        self.s = s
        self.base = os.fsencode(base)
        self.R = os.path.join(self.base, rootname)
        self.O = os.path.join(self.base, b"O")
        self.tree = {}  # relpath tuple (of str names) -> "dir" | "file"   (R itself is not an entry)
        self.otree = {}
        self.nprobe = 0
        self.moved_out = {}  # outside path of a directory that was moved out -> its old path inside the tree
        self.names = {}  # logical name -> bytes on disk (C19: odd spellings)
        self.known = set()

    def b(self, name):
        d = self.names.get(name, name.encode())
        self.known.add(d)       # every on-disk name the driver ever used (C19: a component outside this set is not a name)
        return d

    def rp(self, rel):
        return os.path.join(self.R, *[self.b(n) for n in rel]) if rel else self.R

    def op_(self, rel):
        return os.path.join(self.O, *[self.b(n) for n in rel])

    def setup(self, start, outside):
        os.mkdir(self.R)
        os.mkdir(self.O)
        for rel, k in start:
            rel = tuple(rel.split("/"))
            if k == "d":
                os.mkdir(self.rp(rel))
            else:
                open(self.rp(rel), "w").close()
            self.tree[rel] = KIND[k]
        for rel, k in outside:
            rel = tuple(rel.split("/"))
            if k == "d":
                os.mkdir(self.op_(rel))
            else:
                open(self.op_(rel), "w").close()
            self.otree[rel] = KIND[k]

    def y(self):
        if not self.s.aborting:
            self.s.yield_("fsop")

    def listing(self):
        return [{"p": list(p), "k": k} for p, k in sorted(self.tree.items())]

    @staticmethod
    def _sub(tree, rel):
        n = len(rel)
        return {p: k for p, k in tree.items() if p[:n] == rel}

    def _move(self, src_tree, src, dst_tree, dst):
        moved = self._sub(src_tree, src)
        for p in moved:
            del src_tree[p]
        for p in list(self._sub(dst_tree, dst)):
            del dst_tree[p]
        for p, k in moved.items():
            dst_tree[dst + p[len(src):]] = k

    def describe(self, op):
        """The harness's own record of what the operation is about to do (computed from the model tree before it
        runs): kind of the entry, the descendants that travel with it, the entries a recursive delete removes."""
        k = op[0]
        T = self.tree

        def seq(x):
            return list(x.split("/")) if isinstance(x, str) else list(x)

        def subs(tree, rel):
            n = len(rel)
            return [{"r": list(p[n:]), "k": kk} for p, kk in sorted(tree.items()) if p[:n] == rel and len(p) > n]

        d = {"k": k, "p": [], "q": [], "kind": "none", "sub": [], "made": [], "victim": "none", "alias": [], "back": []}
        if k in ("owrite", "ocreat", "omkdir", "ounlink", "ormdir"):
            rel = tuple(seq(op[1]))
            d["kind"] = "dir" if k in ("omkdir", "ormdir") else "file"
            for pre, old in self.moved_out.items():
                if rel[: len(pre)] == pre and len(rel) > len(pre):
                    d["alias"] = list(old + rel[len(pre):])
            return d
        if k in ("mkdir", "creat", "write", "chmod", "unlink", "rmdir", "read"):
            rel = tuple(seq(op[1]))
            d["p"] = list(rel)
            d["kind"] = "dir" if k in ("mkdir", "rmdir") else ("file" if k in ("creat", "write", "unlink", "read") else T.get(rel, "none"))
        elif k == "makedirs":
            rel = tuple(seq(op[1]))
            d["p"] = list(rel)
            d["kind"] = "dir"
            d["made"] = [list(rel[:i]) for i in range(1, len(rel) + 1) if rel[:i] not in T]
        elif k == "rmtree":
            rel = tuple(seq(op[1]))
            d["p"] = list(rel)
            d["kind"] = "dir"
            d["sub"] = subs(T, rel)
        elif k == "rename":
            a, b = tuple(seq(op[1])), tuple(seq(op[2]))
            d["p"], d["q"] = list(a), list(b)
            d["kind"] = T.get(a, "none")
            d["sub"] = subs(T, a)
            d["victim"] = T.get(b, "none")
        elif k == "moveout":
            a = tuple(seq(op[1]))
            d["p"] = list(a)
            d["kind"] = T.get(a, "none")
            d["sub"] = subs(T, a)
            dst = tuple(seq(op[2]))
            for pre, old in self.moved_out.items():   # moved INTO a directory that left the tree earlier (D7)
                if dst[: len(pre)] == pre and len(dst) > len(pre):
                    d["alias"] = list(old + dst[len(pre):])
        elif k == "movein":
            a, b = tuple(seq(op[1])), tuple(seq(op[2]))
            d["q"] = list(b)
            d["kind"] = self.otree.get(a, "none")
            d["sub"] = subs(self.otree, a)
            d["victim"] = T.get(b, "none")
            for pre, old in self.moved_out.items():   # moved in FROM a directory that left the tree earlier (D7)
                if a[: len(pre)] == pre and len(a) > len(pre):
                    d["alias"] = list(old + a[len(pre):])
                if a[: len(pre)] == pre and d["kind"] == "dir":
                    # a directory that had left the tree (or one below it) comes back: `back` = its old in-tree path; once
                    # the library has seen it arrive, its watch is re-keyed and the old path is excused no longer
                    d["back"] = list(old + a[len(pre):])
        elif k == "rmroot":
            d["kind"] = "dir"
            d["sub"] = subs(T, ())
        return d

    def do(self, op):
        """Performs the operation, one system call at a time (each preceded by a yield point)."""
        k = op[0]
        T = self.tree
        if k == "mkdir":
            rel = tuple(op[1].split("/"))
            self.y()
            os.mkdir(self.rp(rel))
            T[rel] = "dir"
        elif k == "makedirs":  # burst: a/b/c created back to back
            rel = tuple(op[1].split("/"))
            for i in range(1, len(rel) + 1):
                if rel[:i] not in T:
                    self.y()
                    os.mkdir(self.rp(rel[:i]))
                    T[rel[:i]] = "dir"
        elif k == "creat":
            rel = tuple(op[1].split("/"))
            self.y()
            fd = os.open(self.rp(rel), os.O_CREAT | os.O_WRONLY | os.O_EXCL)
            self.y()
            os.close(fd)
            T[rel] = "file"
        elif k == "write":
            rel = tuple(op[1].split("/"))
            self.y()
            fd = os.open(self.rp(rel), os.O_WRONLY | os.O_APPEND)
            self.y()
            os.write(fd, b"x")
            self.y()
            os.close(fd)
        elif k == "chmod":
            rel = tuple(op[1].split("/"))
            self.y()
            st = os.stat(self.rp(rel))
            os.chmod(self.rp(rel), (st.st_mode & 0o777) ^ 0o010)
        elif k == "read":
            rel = tuple(op[1].split("/"))
            self.y()
            fd = os.open(self.rp(rel), os.O_RDONLY)
            self.y()
            os.close(fd)
        elif k == "unlink":
            rel = tuple(op[1].split("/"))
            self.y()
            os.unlink(self.rp(rel))
            del T[rel]
        elif k == "rmdir":
            rel = tuple(op[1].split("/"))
            self.y()
            os.rmdir(self.rp(rel))
            del T[rel]
        elif k == "rmtree":  # recursive delete, bottom-up, back to back
            rel = tuple(op[1].split("/"))
            sub = sorted(self._sub(T, rel), key=lambda p: (-len(p), p))
            for p in sub:
                self.y()
                if T[p] == "dir":
                    os.rmdir(self.rp(p))
                else:
                    os.unlink(self.rp(p))
                del T[p]
        elif k == "rename":  # inside R, also replaces an existing target
            src, dst = tuple(op[1].split("/")), tuple(op[2].split("/"))
            self.y()
            os.rename(self.rp(src), self.rp(dst))
            self._move(T, src, T, dst)
        elif k == "moveout":
            src, dst = tuple(op[1].split("/")), tuple(op[2].split("/"))
            self.y()
            if T.get(src) == "dir":
                self.moved_out[dst] = src
            os.rename(self.rp(src), self.op_(dst))
            self._move(T, src, self.otree, dst)
        elif k == "movein":
            src, dst = tuple(op[1].split("/")), tuple(op[2].split("/"))
            self.y()
            os.rename(self.op_(src), self.rp(dst))
            self._move(self.otree, src, T, dst)
        elif k == "owrite":  # operate on an entry that has left the tree (C07)
            rel = tuple(op[1].split("/"))
            self.y()
            fd = os.open(self.op_(rel), os.O_WRONLY | os.O_APPEND)
            os.write(fd, b"x")
            os.close(fd)
        elif k == "omkdir":
            rel = tuple(op[1].split("/"))
            self.y()
            os.mkdir(self.op_(rel))
            self.otree[rel] = "dir"
        elif k == "ocreat":
            rel = tuple(op[1].split("/"))
            self.y()
            open(self.op_(rel), "w").close()
            self.otree[rel] = "file"
        elif k == "ounlink":
            rel = tuple(op[1].split("/"))
            self.y()
            os.unlink(self.op_(rel))
            self.otree.pop(rel, None)
        elif k == "ormdir":
            rel = tuple(op[1].split("/"))
            self.y()
            os.rmdir(self.op_(rel))
            self.otree.pop(rel, None)
        elif k == "ormtree":
            rel = tuple(op[1].split("/"))
            self.y()
            shutil.rmtree(self.op_(rel))
            for p in list(self._sub(self.otree, rel)):
                del self.otree[p]
        elif k == "rmroot":
            self.y()
            shutil.rmtree(self.R)
            T.clear()
        else:
            raise ValueError(op)

    def verify(self):
        """The model tree must equal the real tree (machinery sanity, checked after the observer stopped)."""
        real = {}
        if os.path.isdir(self.R):
            for root, dirs, files in os.walk(self.R):
                relroot = os.path.relpath(root, self.R)
                pre = () if relroot == b"." else tuple(relroot.split(b"/"))
                for d in dirs:
                    real[pre + (d,)] = "dir"
                for f in files:
                    real[pre + (f,)] = "file"
        model = {tuple(self.b(n) for n in p): k for p, k in self.tree.items()}
        return real == model, real, model


def pipeline_program(params):
    w = _world()
    th = w.shims["threading"]
    inotify = w.mod("observers.inotify")
    events = w.mod("events")
    start = params.get("start", [])
    outside = params.get("outside", [])
    recursive = params.get("recursive", True)
    full = params.get("full", False)
    spell = params.get("spell", "str")  # str | bytes
    ops = params["ops"]
    filt = params.get("filter")  # list of event class names for a second, filtered watch
    split = params.get("split_reads", True)
    final_probe = params.get("final_probe", True)
    prio = params.get("prio")  # None | "driver" | "library"

    def program(s):
        base = tempfile.mkdtemp(prefix="verif-pl-", dir=os.environ.get("TMPDIR", "/tmp"))
        sm = seam_mod.Seam(w, split_reads=split, log=False).install()
        import errno as _errno
        armed = [(call, n, getattr(_errno, en)) for call, n, en in params.get("faults", [])]
        saved = (w.mod("observers.inotify_c").os, events.os, inotify.os)
        w.mod("observers.inotify_c").os = _Chain(w.mod("observers.inotify_c").os, WalkProxy("reader"))
        events.os = WalkProxy("emitter")
        cwd = os.getcwd()
        try:
            return body(s, base, sm, armed)
        finally:
            os.chdir(cwd)
            w.mod("observers.inotify_c").os, events.os, inotify.os = saved
            sm.cleanup()
            sm.remove()
            shutil.rmtree(base, ignore_errors=True)

    def body(s, base, sm, armed):
        drv = Driver(s, base)
        drv.names = {k: v.encode("latin-1") if isinstance(v, str) else bytes(v) for k, v in params.get("names", {}).items()}
        drv.setup(start, outside)
        rootb = drv.R
        import pathlib

        if spell == "bytes":
            root = rootb
        elif spell == "path":
            root = pathlib.Path(os.fsdecode(rootb))
        elif spell == "slash":
            root = os.fsdecode(rootb) + "/"
        elif spell == "bslash":
            root = rootb + b"/"
        elif spell == "rel":
            os.chdir(base)
            root = "R"
        elif spell == "relbytes":
            os.chdir(base)
            root = b"R"
        else:
            root = os.fsdecode(rootb)
        given = os.fsencode(str(root) if isinstance(root, pathlib.Path) else root)
        given2 = given.rstrip(b"/")
        inv = {v: k for k, v in drv.names.items()}

        def proj(p):
            if p == "" or p == b"" or p is None:
                return None
            tag = "bytes" if isinstance(p, bytes) else "str"
            try:
                b = os.fsencode(p)
            except Exception:  # noqa: BLE001
                return {"ty": tag, "p": ["?"]}
            if b == given or b == given2:   # the root itself, with or without the trailing separator it was given with
                return {"ty": tag, "p": []}
            if not b.startswith(given2 + b"/"):
                return {"ty": tag, "p": ["?"]}
            comps = b[len(given2) + 1:].split(b"/")
            out = []
            for c in comps:
                if c in inv:
                    out.append(inv[c])
                elif c in drv.known:
                    try:
                        out.append(c.decode("ascii"))
                    except UnicodeDecodeError:
                        out.append("?")
                else:
                    out.append("?")     # not the exact name of anything the driver ever created
            return {"ty": tag, "p": out}

        class Rec(events.FileSystemEventHandler):
            def __init__(self, hid):
                self.hid = hid

            def on_any_event(self, event):
                a = proj(event.src_path)
                b = proj(event.dest_path)
                s.log("cb", h=self.hid, cls=type(event).__name__, src=a["p"] if a else [], hs=a is not None,
                      dst=b["p"] if b else [], hd=b is not None,
                      syn=bool(event.is_synthetic), ty=(a or b or {"ty": "none"})["ty"],
                      ty2=(b or a or {"ty": "none"})["ty"])

        s.log("cfg", recursive=bool(recursive), full=bool(full), ty="bytes" if isinstance(root, bytes) else "str", spell=spell, paced=bool(params.get("paced", True)),
              filter=sorted(filt) if filt is not None else [], filtered=filt is not None, contract=bool(params.get("contract", False)),
              ty3=("str" if isinstance(root, bytes) else "bytes") if params.get("other_type_watch") else "none")
        polling = params.get("observer") in ("polling", "pollingvfs")
        if params.get("observer") == "pollingvfs":
            # every stat / listdir of the snapshot walk is a yield point: the tree may change under the walker
            def ystat(path):
                if not s.aborting:
                    s.yield_("pstat")
                return os.stat(path)

            def ylist(path):
                if not s.aborting:
                    s.yield_("plist")
                return os.scandir(path)

            obs = w.mod("observers.polling").PollingObserverVFS(stat=ystat, listdir=ylist, polling_interval=1)
        elif polling:
            obs = w.mod("observers.polling").PollingObserver(timeout=1.0)
        else:
            obs = inotify.InotifyObserver(generate_full_events=full)

        def drain():
            if polling:
                s.wait_quiescent()
                s.fire_manual_timers()
            s.wait_quiescent()

        obs.schedule(Rec(1), root, recursive=recursive)
        if params.get("other_type_watch"):
            # the same directory scheduled once more with a root of the OTHER string type (handler 3): two watches, each
            # handler gets paths of the type it asked with (C19)
            other = os.fsdecode(root) if isinstance(root, bytes) else os.fsencode(str(root))
            obs.schedule(Rec(3), other, recursive=recursive)
        if filt is not None:
            classes = [getattr(events, n) for n in filt]
            obs.schedule(Rec(2), root, recursive=recursive, event_filter=classes)
        obs.start()
        s.wait_quiescent()
        s.log("quiescent", tree=drv.listing(), phase="start")
        # fault directives count kernel calls made AFTER the watch was set up
        for call, n, en in armed:
            sm.faults[(call, sm.ncalls.get(call, 0) + n - 1)] = en

        nops = [0]

        def probe_round(tag):
            dirs = [()] + sorted(p for p, k in drv.tree.items() if k == "dir")
            made = []
            for d in dirs:
                drv.nprobe += 1
                name = f"p{drv.nprobe}"
                rel = d + (name,)
                drv.y()
                try:
                    open(drv.rp(rel), "w").close()
                except OSError:
                    continue
                drv.tree[rel] = "file"
                made.append(rel)
                s.log("probe", path=list(rel), depth=len(rel), tag=tag)
            drain()
            s.log("quiescent", tree=drv.listing(), phase="probe")
            if tag == "mid":
                # a mid-history probe round must leave the tree as the history expects it: remove the probe files
                for rel in made:
                    op = ["unlink", "/".join(rel)]
                    nops[0] += 1
                    s.log("opb", n=nops[0], op=drv.describe(op))
                    drv.do(op)
                    s.log("op", n=nops[0], tree=drv.listing())
                drain()
                s.log("quiescent", tree=drv.listing(), phase="drain")

        ever = {p for p, k in drv.tree.items() if k == "dir"}      # every in-tree directory path the history has seen
        outed = []                                                   # in-tree paths of directories that were moved out (D7)

        def ghost_tour():
            """Every directory path of the past that is free again is re-created and renamed away, one system call at a
            time: a watch-table entry left behind under such a path would now be re-keyed onto a live watch, and the probe
            round that follows would be reported under a path that does not exist."""
            ghosts = [g for g in sorted(ever) if g not in drv.tree and (len(g) == 1 or drv.tree.get(g[:-1]) == "dir")
                      and not any(g[: len(o)] == o or o[: len(g)] == g for o in outed)]
            for i, g in enumerate(ghosts[:4]):
                for op in (["mkdir", "/".join(g)], ["rename", "/".join(g), "/".join(g[:-1] + (f"gh{i}",))]):
                    if op[0] == "rename" and drv.tree.get(g) != "dir":
                        continue
                    nops[0] += 1
                    s.log("opb", n=nops[0], op=drv.describe(op))
                    drv.do(op)
                    s.log("op", n=nops[0], tree=drv.listing())
                    drain()
                    s.log("quiescent", tree=drv.listing(), phase="drain")

        def drive():
            for op in ops:
                if op[0] == "poll":      # let a poll start and carry on without waiting for it
                    s.fire_manual_timers()
                elif op[0] == "drain":
                    drain()
                    s.log("quiescent", tree=drv.listing(), phase="drain")
                elif op[0] == "probe":
                    drain()
                    s.log("quiescent", tree=drv.listing(), phase="drain")
                    probe_round("mid")
                else:
                    nops[0] += 1
                    s.log("opb", n=nops[0], op=drv.describe(op))
                    drv.do(op)
                    s.log("op", n=nops[0], tree=drv.listing())
                    ever.update(p for p, k in drv.tree.items() if k == "dir")
                    if op[0] == "moveout":
                        outed.append(tuple(op[1].split("/")))
            if params.get("no_final_drain"):
                return  # stop() will race with the library threads while events are still flowing
            drain()
            s.log("quiescent", tree=drv.listing(), phase="end")
            if final_probe and os.path.isdir(drv.R):
                if params.get("ghost_tour", params.get("paced", True) and not armed and not polling):
                    ghost_tour()
                probe_round("final")

        d = th.Thread(target=drive, name="hdriver")
        d.start()
        d.join()
        root_alive = os.path.isdir(drv.R)
        ems = [bool(e.is_alive()) for e in list(obs.emitters)]
        obs.stop()
        obs.join()
        live = sorted(x.name for x in s.tasks if x.kind == "lib" and x.state != "done" and not x.name.startswith("h"))
        ok, real, model = drv.verify()
        s.log("final", live=live, root_alive=root_alive, emitters_alive=ems, model_ok=ok)
        return {"model_ok": ok}

    keep = ("cfg", "opb", "op", "cb", "quiescent", "probe", "final", "uncaught", "deadlock")

    def post(s):
        out = []
        for e in s.trace:
            if e["e"] in keep:
                d = {k: v for k, v in e.items() if k not in ("i", "now")}
                if e["e"] == "uncaught":
                    d = {"t": e["t"], "e": "uncaught", "th": e["th"], "cls": e["cls"], "exc": e["exc"], "where": e["where"]}
                out.append(d)
        return out

    def wrapped(s):
        extra = {}
        try:
            extra = program(s) or {}
        except detsched.Deadlock as d:
            return {"trace": post(s) + [{"t": "sched", "e": "deadlock", "info": str(d.info)[:400]}]}
        r = {"trace": post(s)}
        r.update(extra)
        return r

    if params.get("observer") in ("polling", "pollingvfs"):
        # the poll timer (stopped_event.wait(timeout)) only fires when the driver asks for a poll
        wrapped.sched_kw = {"manual_timer": lambda task, label: label == "evwait"}
    return wrapped


class _Chain:
    """First proxy wins for the attributes it overrides (seam's os proxy for pipe/read/write/close, then walk)."""

    def __init__(self, first, second):
        object.__setattr__(self, "_a", first)
        object.__setattr__(self, "_b", second)

    def __getattr__(self, k):
        if k == "walk":
            return getattr(object.__getattribute__(self, "_b"), k)
        return getattr(object.__getattribute__(self, "_a"), k)


class PriorityStrategy(detsched.Strategy):
    """'driver': the operating process outruns the observer (operations back to back, the library only runs when the
    driver waits for a drain); 'library': the observer drains after every system call."""

    def __init__(self, mode, seed=0):
        import random

        self.mode = mode
        self.rng = random.Random(seed)

    def pick(self, sched, enabled):
        drv = [t for t in enabled if t.name.startswith("hdriver")]
        rest = [t for t in enabled if not t.name.startswith("hdriver")]
        if self.mode == "driver":
            return drv[0] if drv else (sched.cur if sched.cur in rest else rest[0])
        return (sched.cur if sched.cur in rest else rest[0]) if rest else drv[0]

    def choose(self, sched, n, label):
        return n - 1  # hand out everything that is available (one read per batch)
