"""Scenarios on the real SkipRepeatsQueue / DelayedQueue (C16, C17)."""

from __future__ import annotations

import queue as realqueue

from harness import detsched, loader


class Item:
    """Queue item with identity (id) distinct from equality (v)."""

    __slots__ = ("id", "v")

    def __init__(self, id_, v):
        self.id = id_
        self.v = v

    def __eq__(self, o):
        return isinstance(o, Item) and self.v == o.v

    def __ne__(self, o):
        return not (isinstance(o, Item) and self.v == o.v)

    def __hash__(self):
        return hash(self.v)

    def __repr__(self):
        return f"Item({self.id},{self.v})"


def _world():
    w = loader.load()
    bricks = w.mod("utils.bricks")
    detsched.install_yield_attr(bricks.SkipRepeatsQueue, "_last_item")
    return w


def srq_program(params):
    """params: producers: list of lists of values; gets: list of 'n' (non-blocking) / 'b' (blocking);
    the consumer runs in its own thread."""
    w = _world()
    SRQ = w.mod("utils.bricks").SkipRepeatsQueue
    th = w.shims["threading"]
    producers = params["producers"]
    gets = params["gets"]
    if params.get("ins_yields"):
        # put() works on shared state outside the queue's mutex: every bytecode instruction of it is a yield point
        detsched.enable_instruction_yields([SRQ.put])

    def program(s):
        q = SRQ()
        ids = iter(range(1, 1000))
        items = [[Item(next(ids), v) for v in vs] for vs in producers]

        def prod(k):
            for it in items[k]:
                s.log("call", op="put", id=it.id, v=it.v)
                try:
                    q.put(it)
                except detsched.SchedAbort:
                    raise
                except Exception as e:  # noqa: BLE001  (an observation, not a harness error)
                    s.log("ret", op="put", exc=type(e).__name__)
                    continue
                s.log("ret", op="put")

        def cons():
            for g in gets:
                block = g == "b"
                s.log("call", op="get", block=block)
                try:
                    it = q.get(block=block)
                    res = it.id
                except realqueue.Empty:
                    res = 0
                s.log("ret", op="get", res=res)

        ts = [th.Thread(target=prod, args=(k,), name=f"p{k+1}") for k in range(len(producers))]
        ts.append(th.Thread(target=cons, name="c"))
        for t in ts:
            t.start()
        for t in ts:
            t.join()
        return {"trace": [e for e in s.trace if e["e"] in ("call", "ret")]}

    return program


def srq_word_program(params):
    """Sequential word over put(v)/get: list like [1, 2, 'g', 1]."""
    w = _world()
    SRQ = w.mod("utils.bricks").SkipRepeatsQueue
    word = params["word"]

    def program(s):
        q = SRQ()
        n = 0
        for x in word:
            if x == "g":
                s.log("call", op="get", block=False)
                try:
                    res = q.get(block=False).id
                except realqueue.Empty:
                    res = 0
                s.log("ret", op="get", res=res)
            else:
                n += 1
                it = Item(n, x)
                s.log("call", op="put", id=n, v=x)
                q.put(it)
                s.log("ret", op="put")
        return {"trace": [e for e in s.trace if e["e"] in ("call", "ret")]}

    return program


def srq_replay(walk_actions, states):
    """Spec -> code: replay one walk of SkipRepeatsQueue.tla.  walk_actions: [(name, args)], states: successor
    state dicts (parsed).  Returns None if every projected state matched, else a mismatch description."""
    from harness import replayer

    w = _world()
    SRQ = w.mod("utils.bricks").SkipRepeatsQueue
    th = w.shims["threading"]
    producers = sorted({a[1][0] for a in walk_actions if a[0] in ("PutRead1", "PutRead2", "PutEnq")})
    vals = {p: [a[1][1] for a in walk_actions if a[0] == "PutRead1" and a[1][0] == p] for p in producers}
    ngets = sum(1 for a in walk_actions if a[0] == "Get")
    box = {}

    def program(s):
        q = SRQ()
        box["q"] = q
        box["got"] = []
        counter = [0]

        def prod(p):
            for v in vals[p]:
                s.yield_("gate")
                counter[0] += 1
                q.put(Item(counter[0], v))
            s.yield_("gate")

        def cons():
            for _ in range(ngets):
                s.yield_("gate")
                try:
                    box["got"].append(q.get(block=False).id)
                except realqueue.Empty:
                    pass
            s.yield_("gate")

        ts = [th.Thread(target=prod, args=(p,), name=p) for p in producers]
        ts.append(th.Thread(target=cons, name="cons"))
        for t in ts:
            t.start()
        for t in ts:
            t.join()

    def task_of(a):
        return ("cons" if a[0] == "Get" else a[1][0]) + "#1"

    def boundary(t, seen):
        # yield points are *before* the access: a producer leaving its gate first parks before read 1
        if t.label == "gate":
            return True
        if t.name.startswith("cons"):
            return False
        q = box.get("q")
        if t.label == "rd:_last_item":
            if seen is None:
                return True  # parked before the second read: start of PutRead2
            return seen.count("rd:_last_item") == 2
        if t.label == "acq":
            return q is not None and t.obj is q.mutex
        return False

    def after(k, a, sched):
        q = box["q"]
        exp = states[k]
        last = q.__dict__.get("_ya__last_item")
        act = {"q": [it.id for it in q.queue], "last": 0 if last is None else last.id, "got": list(box["got"])}
        want = {"q": [it["id"] for it in exp["q"]], "last": exp["last"]["id"], "got": [it["id"] for it in exp["got"]]}
        if act != want:
            return {"k": k, "action": a, "expected": want, "actual": act}
        return None

    st = replayer.MacroReplay(walk_actions, task_of, boundary, after)
    s = detsched.run(program, st)
    if st.mismatch is not None:
        return st.mismatch
    if s.outcome != "ok":
        return {"outcome": s.outcome, "error": s.error or s.divergence, "k": st.k}
    if st.k != len(walk_actions):
        return {"outcome": "short", "k": st.k}
    return None


# ----------------------------------------------------------------------------- DelayedQueue (C17)

DELAY = 2.0


def _t(s):
    v = s.now - detsched.T0
    assert abs(v - round(v)) < 1e-9, v
    return int(round(v))


class _EqEl:
    """An element that is equal to every other one of its kind; [1] is its number (like the ("elem", k) tuples)."""

    def __init__(self, k):
        self.k = k

    def __eq__(self, other):
        return isinstance(other, _EqEl)

    def __hash__(self):
        return 7

    def __getitem__(self, i):
        return ("elem", self.k)[i]


def dq_program(params):
    """params: {"threads": {"name": [op, ...]}, "gets": n, "clock": k}
    op: ["put", el, delayed] | ["remove", el] | ["close"] | ["sleep", d]
    The consumer thread calls get() up to `gets` times (stops at the end marker).  A clock thread, if asked
    for, advances virtual time by 1 up to k times at scheduler-chosen moments (time passing while others run)."""
    w = loader.load()
    DQ = w.mod("utils.delayed_queue").DelayedQueue
    detsched.install_yield_attr(DQ, "_closed")
    th = w.shims["threading"]
    tm = w.shims["time"]
    threads = params["threads"]
    gets = params.get("gets", 3)
    clock = params.get("clock", 0)

    def program(s):
        q = DQ(DELAY)
        elems = {}

        def el(k):
            if k not in elems:
                # params["equal"]: all elements compare (and hash) equal although they are distinct objects - the queue
                # has to tell them apart by identity, as it does for the inotify events it carries
                elems[k] = _EqEl(k) if params.get("equal") else ("elem", k)
            return elems[k]

        def worker(ops):
            for op in ops:
                if op[0] == "put":
                    s.log("call", op="put", el=op[1], d=bool(op[2]))
                    q.put(el(op[1]), delay=bool(op[2]))
                    s.log("ret", op="put")
                elif op[0] == "remove":
                    target = el(op[1])
                    s.log("call", op="remove", el=op[1])
                    r = q.remove(lambda x: x is target)
                    s.log("ret", op="remove", res=0 if r is None else r[1])
                elif op[0] == "close":
                    s.log("call", op="close")
                    q.close()
                    s.log("ret", op="close")
                elif op[0] == "sleep":
                    tm.sleep(op[1])

        def consumer():
            for _ in range(gets):
                s.log("call", op="get")
                r = q.get()
                s.log("ret", op="get", res=0 if r is None else r[1])
                if r is None:
                    break

        def ticker():
            for _ in range(clock):
                s.yield_("clock")
                s.advance(1.0)

        ts = [th.Thread(target=worker, args=(ops,), name=n) for n, ops in sorted(threads.items())]
        ts.append(th.Thread(target=consumer, name="cons"))
        if clock:
            ts.append(th.Thread(target=ticker, name="clock"))
        for t in ts:
            t.start()
        for t in ts:
            t.join()
        return {}

    def post(s):
        out = []
        for e in s.trace:
            if e["e"] in ("call", "ret"):
                d = {k: v for k, v in e.items() if k not in ("i", "now")}
                d["now"] = int(round(e["now"] - detsched.T0))
                out.append(d)
            elif e["e"] == "tick":
                out.append({"t": "clock", "e": "tick", "op": "tick", "now": int(round(e["now"] - detsched.T0)),
                            "adv": e.get("src") == "adv"})
            elif e["e"] == "deadlock":
                out.append({"t": "sched", "e": "deadlock", "op": "deadlock"})
        return out

    def wrapped(s):
        try:
            program(s)
        except detsched.Deadlock:
            return {"trace": post(s) + [{"t": "sched", "e": "deadlock", "op": "deadlock"}], "deadlock": True}
        return {"trace": post(s)}

    return wrapped


def dq_random(params):
    """Random program derived from params['seed'] (the schedule is seeded with the same number by explore.sample)."""
    from checks import c17

    return dq_program(c17.random_program(params["seed"]))


# ----------------------------------------------------------------------------- DelayedQueue: spec -> code replay


class _El:
    __slots__ = ("id",)

    def __init__(self, i):
        self.id = i


_PC_OF_LABEL = {"wait": {"waiting"}, "reacq": {"start"}, "rd:_closed": {"chk2"}, "rel": {"peeked"}, "sleep": {"sleeping"},
                "acq": {"start", "recheck", "peeked"}, "gate": {"start", "done"}}


def dq_replay(walk_actions, states):
    """Spec -> code: replay one walk of DelayedQueue.tla on the real DelayedQueue.  Consumer actions are macro-steps of the
    consumer thread between the yield points that delimit the model's atomic steps (acquire / `rd:_closed` / wait / reacquire
    / release / sleep); Put / Remove / CloseFlag / CloseNotify are macro-steps of the other thread; Tick(g) is executed by the
    replayer (virtual clock).  After every action the implementation's queue (ids, insert times, delay flags), closed flag,
    clock, lock ownership, hand-out history (with times) and removed set must equal the model's successor state."""
    from harness import replayer

    w = _world()
    DQ = w.mod("utils.delayed_queue").DelayedQueue
    detsched.install_yield_attr(DQ, "_closed")
    th = w.shims["threading"]
    # C_SleepDone + the C_Delay that follows it are one macro-step of the code (no yield point in between)
    acts = []
    after_sleep = False
    for a in walk_actions:
        if a[0] == "C_Delay" and after_sleep:
            acts.append(("C_DelayStutter", ()))
            after_sleep = False
            continue
        if a[0] == "C_SleepDone":
            after_sleep = True
        elif a[0].startswith("C_"):
            after_sleep = False
        acts.append(a)
    other_ops = [a for a in acts if a[0] in ("Put", "Remove", "CloseFlag")]
    box = {}

    def program(s):
        q = DQ(DELAY)
        box.update(q=q, got=[], removed=[], s=s)

        def other():
            n = 0
            for op in other_ops:
                s.yield_("gate")
                if op[0] == "Put":
                    n += 1
                    q.put(_El(n), delay=bool(op[1][0]))
                elif op[0] == "Remove":
                    k = op[1][0]
                    r = q.remove(lambda e: e.id == k)
                    if r is not None:
                        box["removed"].append(r.id)
                else:
                    q.close()
            s.yield_("gate")

        def cons():
            while True:
                s.yield_("gate")
                x = q.get()
                box["got"].append((0 if x is None else x.id, _t(s)))
                if x is None:
                    break

        to = th.Thread(target=other, name="other")
        tc = th.Thread(target=cons, name="cons")
        to.start()
        tc.start()
        to.join()
        q.close()      # after the walk: let the consumer finish
        tc.join()

    def task_of(a):
        if a[0] in ("Tick", "C_DelayStutter"):
            return None
        return ("cons" if a[0].startswith("C_") else "other") + "#1"

    def raw_closed(q):
        return bool(q.__dict__.get("_ya__closed", False))

    def boundary(t, seen):
        lab = t.label
        if seen is None:
            return lab in ("gate", "acq", "reacq", "wait", "rd:_closed", "rel", "sleep")
        a = st.actions[st.k][0]
        q = box["q"]
        if a in ("Put", "Remove", "CloseNotify"):
            return lab == "gate"
        if a == "CloseFlag":
            return lab == "acq" and "wr:_closed" in seen
        if a == "C_While":
            return lab == "wait" or (lab == "rd:_closed" and (len(q._queue) > 0 or seen.count("rd:_closed") == 2))
        if a == "C_Chk2":
            return lab == "gate" if raw_closed(q) else lab == "rel"
        if a == "C_Wake":
            return lab == "reacq"
        if a == "C_Delay":
            return lab in ("sleep", "acq")
        if a == "C_SleepDone":
            return lab in ("sleep", "acq")
        if a == "C_Recheck":
            return lab == "gate" or (lab == "acq" and "rel" in seen)
        return False

    def env(a, sched):
        if a[0] == "Tick":
            sched.advance(float(a[1][0]))

    def after(k, a, sched):
        q = box["q"]
        exp = states[k]
        act = {"dq": [(it[0].id, int(round(it[1] - detsched.T0)), bool(it[2])) for it in q._queue], "closed": raw_closed(q),
               "now": _t(sched), "out": list(box["got"]), "lockC": q._lock.locked(), "removed": sorted(box["removed"])}
        want = {"dq": [(x["e"], x["t"], x["d"]) for x in exp["dq"]], "closed": exp["closed"], "now": exp["now"],
                "out": [(o["e"], o["at"]) for o in exp["out"]], "lockC": exp["lockC"], "removed": sorted(exp["removed"])}
        if act != want:
            return {"k": k, "action": a, "expected": want, "actual": act}
        ct = [t for t in sched.tasks if t.name == "cons#1"]
        if ct:
            lab = "done" if ct[0].state == "done" else ct[0].label
            if exp["pc"] not in _PC_OF_LABEL.get(lab, {"done"} if lab == "done" else set()):
                return {"k": k, "action": a, "expected_pc": exp["pc"], "consumer_parked_at": lab}
        return None

    st = replayer.MacroReplay(acts, task_of, boundary, after, env=env)
    s = detsched.run(program, st)
    if st.mismatch is not None:
        return st.mismatch
    if s.outcome != "ok":
        return {"outcome": s.outcome, "error": s.error or s.divergence, "k": st.k, "action": acts[st.k] if st.k < len(acts) else None}
    if st.k != len(acts):
        return {"outcome": "short", "k": st.k}
    return None
