"""C13  Registry stays consistent over any call sequence; failed calls leave no trace."""
import os
import sys

sys.path.insert(0, os.path.dirname(os.path.dirname(os.path.abspath(__file__))))
from checks import observer_design, observer_engine as oe  # noqa: E402
from harness import checklib  # noqa: E402


def run(c):
    observer_design.run_design(c, "C13")
    observer_design.run_replay(c, "C13")
    L = 4 if c.thorough else 3
    seqs = oe.fam_sequential(L)
    fails = oe.fam_failures(6)
    keys = oe.fam_watch_keys(3)
    if not c.thorough:
        import random

        random.Random(c.seed).shuffle(keys)
        keys = keys[:400]
    fams = [("sequential", seqs, None), ("failures", fails, None), ("start() fails part-way, then is retried", oe.fam_failing_start(), None), ("watch keys (spellings of path / recursive / filter)", keys, None),
            ("start_race", oe.fam_start_race(), 2 if c.thorough else 1)]
    oe.run_families(c, "C13", fams, bound=1, random_n=2000 if c.thorough else 200)
    c.cov["exhaustive"] = True
    c.cov["rule"] = ("every sequentially valid API call sequence up to length %d over 2 watches x 2 handlers with a black-box "
                     "probe (observer.emitters, is_alive, marker-event routes) after every call; schedule() failures "
                     "(emitter cannot be created / started) at every position of short sequences; schedule racing with "
                     "start under DFS; random longer programs" % L)


if __name__ == "__main__":
    checklib.main_wrapper("C13", run)
