"""Helper shared by the function-shaped checks (C14, C15): validate independent CASE LINES in batches.

A batch trace spec for function-shaped properties consumes one line per case and adds <<clause, line>> to `viol`
for every monitor clause that is FALSE on that line.  TLC pretty-prints long tuples over several lines
(`<< "TRACE", ...`), which harness.tlc.find_tagged does not recognise; until that is changed in the harness the
output is normalised here, for the duration of the call only.
"""

from __future__ import annotations

import contextlib

from harness import tlc


@contextlib.contextmanager
def _tolerant_find_tagged():
    orig = tlc.find_tagged

    def find_tagged(output, tag):
        return orig(output.replace('<< "', '<<"'), tag)

    tlc.find_tagged = find_tagged
    try:
        yield
    finally:
        tlc.find_tagged = orig


def validate_lines(module, cfg, lines, *, batch=400, jobs=16, heap="2g"):
    """Returns (failing, stats, ntraces): failing = list of (clause, line dict) for every monitor clause found FALSE."""
    traces = [lines[i: i + batch] for i in range(0, len(lines), batch)]
    if not traces:
        return [], {"generated": 0, "distinct": 0, "jvms": 0, "wall_s": 0.0}, 0
    with _tolerant_find_tagged():
        verdicts, stats = tlc.validate_traces(module, cfg, traces, chunk=max(1, -(-len(traces) // (jobs * 2))),
                                              parallel=jobs, dfs_queue=False, heap=heap)
    failing = []
    for tr, v in zip(traces, verdicts):
        if v["accepted"]:
            continue
        if not v["viol"]:
            raise tlc.TLCError(f"{module} could not consume a batch beyond line {v['furthest']}: "
                               f"{tr[v['furthest'] - 1] if 0 < v['furthest'] <= len(tr) else None}")
        for clause, ln in v["viol"]:
            failing.append((clause, tr[ln - 1]))
    return failing, stats, len(traces)
