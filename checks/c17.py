"""C17  Delay queue: FIFO, never early, loses or duplicates nothing; close() unblocks.

1. TLC checks DelayedQueue.tla (implementation-shaped) exhaustively, incl. the liveness property
   C17_CloseUnblocks under fairness.
2. code -> spec: the real DelayedQueue runs under the deterministic scheduler with virtual time: all
   sequential words, bounded-preemption DFS on concurrent programs (consumer / producer / remover-closer,
   optionally a clock thread that lets time pass while others run), random schedules on longer programs.
   TLC validates every call/return/tick trace against DelayedQueueTrace.tla (Level P).
"""

from __future__ import annotations

import os
import random
import sys

sys.path.insert(0, os.path.dirname(os.path.dirname(os.path.abspath(__file__))))

from harness import checklib, detsched, explore, tlc  # noqa: E402

SCEN = "checks.scen_queues:dq_program"


def words(maxlen):
    """Sequential programs of one thread: puts/removes/sleeps/gets (a get only when it cannot block), then close+get."""
    out = []

    def rec(word, nput, qlen, closed):
        if word:
            out.append(list(word))
        if len(word) >= maxlen or closed:
            return
        rec(word + [["put", nput + 1, True]], nput + 1, qlen + 1, closed)
        rec(word + [["put", nput + 1, False]], nput + 1, qlen + 1, closed)
        for k in range(1, nput + 1):
            rec(word + [["remove", k]], nput, qlen, closed)  # qlen becomes an over-approximation: gets guarded below
        for d in (1, 2, 3):
            if not word or word[-1][0] != "sleep":
                rec(word + [["sleep", d]], nput, qlen, closed)
        rec(word + [["get"]], nput, qlen, closed)
        rec(word + [["close"], ["get"]], nput, qlen, True)

    rec([], 0, 0, False)
    return out


def word_program(params):
    """Single-threaded word; 'get' is skipped when it would block (queue empty and not closed)."""
    from checks import scen_queues
    from harness import loader

    w = loader.load()
    DQ = w.mod("utils.delayed_queue").DelayedQueue
    tm = w.shims["time"]
    word = params["word"]

    def program(s):
        q = DQ(scen_queues.DELAY)
        elems = {}
        closed = False

        def now():
            return int(round(s.now - detsched.T0))

        tr = []
        s_len = 0
        for op in word:
            if op[0] == "put":
                e = elems.setdefault(op[1], ("elem", op[1]))
                tr.append({"t": "m", "e": "call", "op": "put", "el": op[1], "d": bool(op[2]), "now": now()})
                q.put(e, delay=bool(op[2]))
                tr.append({"t": "m", "e": "ret", "op": "put", "now": now()})
            elif op[0] == "remove":
                e = elems.setdefault(op[1], ("elem", op[1]))
                tr.append({"t": "m", "e": "call", "op": "remove", "el": op[1], "now": now()})
                r = q.remove(lambda x: x is e)
                tr.append({"t": "m", "e": "ret", "op": "remove", "res": 0 if r is None else r[1], "now": now()})
            elif op[0] == "sleep":
                t0 = now()
                tm.sleep(op[1])
                tr.append({"t": "clock", "e": "tick", "op": "tick", "now": now(), "adv": False})
            elif op[0] == "close":
                tr.append({"t": "m", "e": "call", "op": "close", "now": now()})
                q.close()
                closed = True
                tr.append({"t": "m", "e": "ret", "op": "close", "now": now()})
            elif op[0] == "get":
                if len(q._queue) == 0 and not closed:
                    continue
                tr.append({"t": "m", "e": "call", "op": "get", "now": now()})
                t0 = now()
                r = q.get()
                if now() != t0:
                    tr.append({"t": "clock", "e": "tick", "op": "tick", "now": now(), "adv": False})
                tr.append({"t": "m", "e": "ret", "op": "get", "res": 0 if r is None else r[1], "now": now()})
        return {"trace": tr}

    return program


def _word_job(ws):
    out = []
    for wd in ws:
        s = detsched.run(word_program({"word": wd}), detsched.PrefixStrategy(()))
        out.append((wd, s.outcome, s.error, s.result["trace"] if s.outcome == "ok" else None))
    return out


PROGRAMS = [
    # removed head with a delayed successor; close at the end
    {"threads": {"o": [["put", 1, True], ["put", 2, True]], "r": [["remove", 1], ["sleep", 3], ["close"]]}, "gets": 9},
    # delayed head, undelayed successor, remove of the head while the consumer sleeps on it
    {"threads": {"o": [["put", 1, True], ["put", 2, False], ["remove", 1], ["sleep", 1], ["close"]]}, "gets": 9},
    # two delayed in a row with a gap at the delay boundary
    {"threads": {"o": [["put", 1, True], ["sleep", 1], ["put", 2, True], ["sleep", 2], ["put", 3, False], ["sleep", 3],
                       ["close"]]}, "gets": 9},
    # time passes while threads run (clock thread)
    {"threads": {"o": [["put", 1, True], ["put", 2, False]], "r": [["sleep", 4], ["close"]]}, "gets": 9, "clock": 2},
    # close racing with a get in progress, elements left behind
    {"threads": {"o": [["put", 1, False], ["put", 2, True]], "r": [["close"]]}, "gets": 9},
]
# the same races with elements that are all EQUAL but distinct objects (identity, not equality, must decide)
PROGRAMS += [dict(p, equal=True) for p in PROGRAMS[:2]]
PROGRAMS_THOROUGH = [
    {"threads": {"o": [["put", 1, True], ["put", 2, True], ["put", 3, False]], "r": [["remove", 2], ["sleep", 2], ["remove", 1],
                                                                                 ["sleep", 1], ["close"]]}, "gets": 9},
    {"threads": {"o": [["put", 1, False], ["sleep", 1], ["put", 2, True]], "r": [["remove", 2], ["put", 3, True], ["sleep", 2],
                                                                              ["close"]]}, "gets": 9, "clock": 2},
]


REPLAY_KEYS = ("dq", "closed", "now", "out", "lockC", "removed", "pc")


def _replay_job(args):
    from checks import scen_queues

    return scen_queues.dq_replay(*args)


def random_program(seed):
    rng = random.Random(seed)
    n = 0
    threads = {}
    for name in ("o", "r"):
        ops = []
        for _ in range(rng.randint(3, 6)):
            x = rng.random()
            if x < 0.45:
                n += 1
                ops.append(["put", n, rng.random() < 0.6])
            elif x < 0.65 and n:
                ops.append(["remove", rng.randint(1, n)])
            else:
                ops.append(["sleep", rng.choice([1, 2, 3])])
        threads[name] = ops
    threads["r"] += [["sleep", 3], ["close"]]
    return {"threads": threads, "gets": 99, "clock": rng.choice([0, 0, 2]), "equal": rng.random() < 0.3}


def run(c: checklib.Check):
    for cfg, live in (("DelayedQueue_thorough.cfg" if c.thorough else "DelayedQueue_quick.cfg", False),
                      ("DelayedQueue_live.cfg", True)):
        r = tlc.run_tlc("DelayedQueue", cfg, workers=c.jobs, coverage=not live, timeout=3000, heap="8g")
        c.add_tlc("DelayedQueue:" + cfg, r)
        if not live:
            for act in ("C_While", "C_Chk2", "C_Wake", "C_Delay", "C_SleepDone", "C_Recheck", "Put", "Remove", "CloseFlag",
                        "CloseNotify", "Tick"):
                if r.coverage.get(act, 0) == 0:
                    c.machinery_failure(f"vacuity: action {act} never taken in {cfg}")
        if not r.ok:
            c.machinery_failure(f"design spec {cfg} violated: {r.violated} {r.errors[:2]}")
        c.note(f"TLC {cfg}: {r.distinct} distinct states, depth {r.depth}, {r.wall:.1f}s")

    import multiprocessing as mp

    # ---- spec -> code: a transition cover of the dumped graph of DelayedQueue_cover.cfg replayed on the real DelayedQueue
    from harness import tlagraph

    tmp = tlc.scratch_dir()
    try:
        dot = os.path.join(tmp, "dq.dot")
        r2 = tlc.run_tlc("DelayedQueue", "DelayedQueue_cover.cfg", workers=c.jobs, dump=dot, timeout=900)
        tlc.require_ok(r2, "cover model")
        g = tlagraph.load_dot(dot)
    finally:
        import shutil

        shutil.rmtree(tmp, ignore_errors=True)
    walks, nedges = tlagraph.transition_cover(g, max_len=40, skip_labels=("Finished",))
    if not c.thorough:
        random.Random(c.seed).shuffle(walks)
        walks = walks[:4000]
    jobs = []
    for _root, walk in walks:
        acts = [tlagraph.parse_label(lab) for lab, _ in walk]
        states = [{k: g.state(n)[k] for k in REPLAY_KEYS} for _, n in walk]
        jobs.append((acts, states))
    del g
    with mp.get_context("fork").Pool(c.jobs) as pool:
        res = pool.map(_replay_job, jobs, chunksize=50)
    nbad = 0
    for (acts, _states), mm in zip(jobs, res):
        if mm is not None:
            nbad += 1
            # divergence from the implementation-shaped model = drift (the design-level results no longer transfer to
            # this code); whether a property is broken is decided by Level P below
            if nbad <= 3:
                c.note(f"spec->code drift: {mm} on walk {[str(a) for a in acts]}")
    c.cov["model_edges"] = nedges
    c.cov["walks_replayed"] = len(jobs)
    c.cov["model_edges_replayed"] = sum(len(a) for a, _ in jobs)
    c.cov["drift_traces"] = c.cov.get("drift_traces", 0) + nbad
    c.cov["evaluations"] += len(jobs)
    c.note(f"spec->code: {len(jobs)} walks ({c.cov['model_edges_replayed']} steps) of a transition cover of {nedges} edges replayed on "
           f"the real DelayedQueue, state compared after every action, {nbad} diverged")

    traces, meta = [], []
    total = 0
    # (a) sequential words

    ws = words(5 if c.thorough else 4)
    chunks = [ws[i :: c.jobs] for i in range(c.jobs)]
    with mp.get_context("fork").Pool(c.jobs) as pool:
        for part in pool.map(_word_job, chunks):
            for wd, outcome, err, tr in part:
                if outcome != "ok":
                    if outcome == "deadlock":
                        c.violation("P_C17_NoBlockedGet", f"sequential word blocks forever: {wd}", {"word": wd})
                        continue
                    c.machinery_failure(f"word program {wd}: {outcome} {err}")
                traces.append(tr)
                meta.append({"scenario": "checks.c17:word_program", "params": {"word": wd}, "choices": []})
    total += len(ws)
    c.note(f"words: {len(ws)} sequential programs")
    # (b) DFS
    bound = 3 if c.thorough else 2
    progs = PROGRAMS + (PROGRAMS_THOROUGH if c.thorough else [])
    for pat in progs:
        bnd = bound - 1 if pat.get("clock") else bound
        n, recs = explore.dfs(SCEN, pat, bnd, jobs=c.jobs, split_depth=4)
        total += n
        for rec in recs:
            traces.append(rec["trace"])
            meta.append({"scenario": SCEN, "params": pat, "choices": rec["choices"]})
        c.note(f"dfs b={bnd} {list(pat['threads'].values())} clock={pat.get('clock', 0)}: {n} executions, {len(recs)} distinct traces")
    # (c) random programs x random schedules
    nprog = 3000 if c.thorough else 400
    base = c.seed * 1000003
    n, recs = explore.sample("checks.scen_queues:dq_random", {}, range(base, base + nprog), jobs=c.jobs,
                             extra={"stickiness": 0.7, "seed_param": "seed"})
    total += n
    for rec in recs:
        traces.append(rec["trace"])
        meta.append({"scenario": "checks.scen_queues:dq_random", "params": {"seed": rec["seed"]}, "choices": rec["choices"]})
    c.note(f"random: {nprog} random programs, one random schedule each, {len(recs)} distinct traces")

    c.cov["evaluations"] += total
    c.cov["distinct_nontrivial"] = len(traces)
    c.cov["rule"] = ("executions of the real DelayedQueue on a virtual clock: every sequential word up to length %d, "
                     "bounded-preemption DFS (b=%d) on %d concurrent programs, %d random programs; distinct = distinct "
                     "call/return/tick traces" % (5 if c.thorough else 4, bound, len(progs), nprog))
    verdicts, stats = tlc.validate_traces("DelayedQueueTrace", "DelayedQueueTrace.cfg", traces,
                                          chunk=max(50, len(traces) // (c.jobs * 2) + 1), parallel=c.jobs)
    c.add_trace_stats("DelayedQueueTrace", len(traces), stats)
    c.cov["states"] += stats["distinct"]
    c.cov["transitions"] += stats["generated"]
    for tr, m, v in zip(traces, meta, verdicts):
        rp = dict(m)
        rp["trace"] = tr
        rp["trace_spec"] = ["DelayedQueueTrace", "DelayedQueueTrace.cfg"]
        if not v["accepted"]:
            line = tr[v["furthest"] - 1] if 0 < v["furthest"] <= len(tr) else None
            c.violation("P_C17_Explainable",
                        f"no C17-conformant explanation of the trace beyond line {v['furthest']}: {line}", rp)
        for clause in v["viol"]:
            c.violation(clause, "get() blocked forever (scheduler reported deadlock)", rp)
    c.sample({"trace": traces[len(ws) + 1][:14]})
    c.sample({"word": ws[len(ws) // 2]})
    c.assumptions += ["virtual clock: time.time/sleep are the shim's; integral gaps around the delay boundary",
                      "DelayedQueue._closed accesses are yield points (unlocked write in close())"]


if __name__ == "__main__":
    checklib.main_wrapper("C17", run)
