"""C11  An event filter only removes events; it never alters the rest of the stream.

Two handlers are scheduled on the same real root, one with an event filter and one without; both watches see the
same history (one operation at a time).  PipelineTrace.tla compares, at the end, the run-collapsed sequence of the
filtered handler with the unfiltered sequence restricted to the filter's classes (base classes included):
P_C11_FilterOnlyRemoves.  Filters: every concrete event class, both base classes, pairs; recursive and non-recursive,
normal and full emitter; histories: a tour through the whole operation vocabulary + paced histories from the TLC graph
of FsGen.tla + random paced histories."""
import itertools
import os
import sys

sys.path.insert(0, os.path.dirname(os.path.dirname(os.path.abspath(__file__))))
from checks import pipeline_engine as pe  # noqa: E402
from checks.c03 import one_at_a_time  # noqa: E402
from harness import checklib  # noqa: E402

CONCRETE = ["FileCreatedEvent", "DirCreatedEvent", "FileDeletedEvent", "DirDeletedEvent", "FileMovedEvent", "DirMovedEvent",
            "FileModifiedEvent", "DirModifiedEvent", "FileOpenedEvent", "FileClosedEvent", "FileClosedNoWriteEvent"]
BASES = ["FileSystemEvent", "FileSystemMovedEvent"]

TOUR = [["mkdir", "c"], ["creat", "c/x"], ["write", "c/x"], ["read", "c/x"], ["chmod", "c/x"], ["rename", "c/x", "c/y"], ["mkdir", "c/d"],
        ["creat", "c/d/f"], ["rename", "c", "d"], ["write", "d/d/f"], ["moveout", "d/y", "zf"], ["movein", "t", "e"], ["creat", "e/u/n"],
        ["write", "e/h"], ["moveout", "e/u", "zd"], ["unlink", "e/h"], ["chmod", "e"], ["rmdir", "e"], ["rmtree", "d"], ["makedirs", "p/q"],
        ["creat", "p/q/r"], ["unlink", "p/q/r"]]
TOUR_OUTSIDE = [["t", "d"], ["t/u", "d"], ["t/u/g", "f"], ["t/h", "f"]]


def run(c):
    pe.run_design(c)
    singles = [[x] for x in CONCRETE + BASES]
    pairs = [list(p) for p in itertools.combinations(CONCRETE, 2)]
    if not c.thorough:
        pairs = pairs[c.seed % 5:: 5][:11]
    filters = singles + pairs + [[]]        # the empty filter is a filter too: it lets nothing through
    cases = []
    tour = one_at_a_time(TOUR)
    for i, f in enumerate(filters):
        for rec in (True, False):
            for full in ((False, True) if (c.thorough or i < len(singles)) else (False,)):
                params = {"start": [], "outside": TOUR_OUTSIDE, "ops": tour, "recursive": rec, "full": full, "paced": True,
                          "filter": f, "final_probe": True}
                cases.append((params, ("prio", "library") if (i + rec) % 2 else ("random", c.seed + i, 0.7)))
    recs = pe.run_cases(c, cases, f"tour through the vocabulary x {len(filters)} filters")
    pe.validate(c, "C11", recs)
    # histories from the TLC graph, one operation at a time, a rotating filter
    K = 3 if c.thorough else 2
    cases = []
    n = 0
    for start in ("small", "deep"):
        hs, r = pe.tlc_histories(start, K)
        step = 1 if c.thorough else 6
        for i, h in enumerate(hs[::step]):
            f = filters[(i * 7 + n) % len(filters)]
            params = dict(pe.START[start], ops=one_at_a_time(h), recursive=(i % 3 != 2), full=(i % 5 == 4), paced=True, filter=f,
                          final_probe=True)
            cases.append((params, ("prio", "library")))
        n += 1
    recs = pe.run_cases(c, cases, "TLC histories, rotating filters")
    pe.validate(c, "C11", recs)
    nrand = 600 if c.thorough else 60
    cases = []
    for k in range(nrand):
        seed = c.seed * 1000003 + 424243 + k
        hist = pe.random_history(seed, 16 + (k % 4) * 6)
        hist["ops"] = one_at_a_time(hist["ops"])
        params = dict(hist, recursive=(k % 4 != 3), paced=True, filter=filters[k % len(filters)], final_probe=True)
        cases.append((params, ("random", seed, 0.7)))
    recs = pe.run_cases(c, cases, "random paced histories, rotating filters")
    pe.validate(c, "C11", recs)
    c.cov["rule"] = ("%d filters (11 concrete classes, 2 base classes, pairs) x recursive/non-recursive x normal/full emitter over a "
                     "tour of the whole vocabulary; rotating filters over TLC / random histories" % len(filters))
    c.assumptions += ["both watches are driven one operation at a time (the comparison is between two independent inotify instances)"]


if __name__ == "__main__":
    checklib.main_wrapper("C11", run)
