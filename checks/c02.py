"""C02  A recursive watch covers every directory that exists, under its current name.

Same histories and timings as C01 (TLC graph of FsGen.tla + random paced histories); every scenario ends with a probe
round on the real tree: one probe file per existing directory, then drain.  PipelineTrace.tla requires a FileCreated
callback with exactly the probe's path before the next drain point (P_C02_ProbeReported) and, under a non-recursive
watch, no callback for anything below the root's direct children (P_C02_NonRecursiveSilentBelow).  Mid-history probe
rounds are inserted as well."""
import os
import sys

sys.path.insert(0, os.path.dirname(os.path.dirname(os.path.abspath(__file__))))
from checks import pipeline_engine as pe  # noqa: E402
from harness import checklib  # noqa: E402


def run(c):
    pe.run_design(c, histories=False)
    pe.replay_design_walks(c, every=1 if c.thorough else 3)
    K = 3 if c.thorough else 2
    cases = []
    nh = 0
    for start in ("small", "deep", "empty"):
        hs, r = pe.tlc_histories(start, K)
        c.add_tlc(f"FsGen:{start}:K={K}", r)
        # directory-shaping histories are the interesting ones for watch coverage
        hs = [h for h in hs if any(op[0] in ("mkdir", "makedirs", "rename", "movein", "moveout", "rmdir", "rmtree") for op in h)]
        nh += len(hs)
        for i, h in enumerate(hs):
            for rec in (True, False):
                if not rec and i % 3:
                    continue
                ops = list(h)
                if i % 4 == 0 and len(ops) > 1:
                    ops = ops[:1] + [["probe"]] + ops[1:]
                params = dict(pe.START[start], ops=ops, recursive=rec, paced=True, spell="str")
                if i % 3 == 1:
                    params["names"] = pe.PREFIX_NAMES
                for spec in pe.timings(c.seed + i, n_random=1, n_pct=1 if c.thorough else 0):
                    cases.append((params, spec))
    if not c.thorough:
        # the quick tier stops at two operations: add the three-step histories that re-create a directory where one had been
        nre = 0
        for start in ("small", "deep"):
            hs, r = pe.recreation_histories(start)
            nre += len(hs)
            for i, h in enumerate(hs):
                params = dict(pe.START[start], ops=list(h), recursive=True, paced=True, spell="str")
                if i % 3 == 1:
                    params["names"] = pe.PREFIX_NAMES
                for spec in pe.timings(c.seed + i, n_random=1, n_pct=0):
                    cases.append((params, spec))
        c.note(f"{nre} histories `take a directory away ; drain ; make one appear at or below its old path` from the K=3 graph")
    for i, h in enumerate(pe.TWIN_HISTORIES):
        params = dict(pe.START["twin"], ops=list(h), recursive=True, paced=True, spell="str")
        for spec in pe.timings(c.seed + i, n_random=1, n_pct=0):
            cases.append((params, spec))
    c.note(f"{nh} directory-shaping paced histories of <= {K} operations from the TLC graph of FsGen.tla")
    recs = pe.run_cases(c, cases, "TLC histories + probe rounds")
    pe.validate(c, "C02", recs)
    nrand = 1500 if c.thorough else 150
    cases = []
    for k in range(nrand):
        seed = c.seed * 1000003 + 7919 + k
        hist = pe.random_history(seed, 20 + (k % 5) * 10 if c.thorough else 12 + (k % 3) * 6)
        ops = hist["ops"]
        mid = len(ops) // 2
        hist["ops"] = ops[:mid] + [["probe"]] + ops[mid:]
        params = dict(hist, recursive=(k % 5 != 4), paced=True)
        for spec in [("prio", "driver"), ("random", seed, 0.7), ("pct", seed, 3)][: (3 if c.thorough else 2)]:
            cases.append((params, spec))
    recs = pe.run_cases(c, cases, "random paced histories + probe rounds")
    pe.validate(c, "C02", recs)
    c.cov["rule"] = ("directory-shaping histories of <= %d operations from the TLC graph of FsGen.tla (exhaustive) + %d random paced "
                     "histories, each with probe rounds (every directory of the real tree probed), several timings" % (K, nrand))
    c.assumptions += ["pacing condition as in FsKernel.PacingOK", "a probe is an ordinary file creation of a reserved name"]


if __name__ == "__main__":
    checklib.main_wrapper("C02", run)
