"""C08  A rename arrives as one paired move; no native event is lost or duplicated.

1. TLC checks Pairing.tla (reader grouping per event, delay queue, consumer, virtual clock) over every well-formed
   native sequence up to length 2 (quick) / 3 (thorough) over {MF1, MT1, MF2, MT2, X, IGNORED}, every cut into read
   batches, every gap from {delay-1, delay, delay+1} and every interleaving of reader and consumer.
2. The real InotifyBuffer + Inotify.read_events are fed the same scripted native sequences (raw inotify_event bytes
   through the os.read seam) on the virtual clock: every sequence x every batching x gaps around the delay, default /
   random schedules, bounded-preemption DFS on the interesting ones; TLC validates the fed/got/tick traces against
   PairingTrace.tla (same clauses as the design invariants, evaluated on what read_event() really returned)."""
import itertools
import os
import sys

sys.path.insert(0, os.path.dirname(os.path.dirname(os.path.abspath(__file__))))
from harness import checklib, detsched, explore, tlc  # noqa: E402

SCEN = "checks.scen_pairing:pairing_program"
ALPHA = [["MF", 1], ["MT", 1], ["MF", 2], ["MT", 2], ["X", 0], ["IG", 0]]


def wellformed(seq):
    for c in (1, 2):
        ks = [k for k, cc in seq if cc == c]
        if ks.count("MF") > 1 or ks.count("MT") > 1:
            return False
        if "MF" in ks and "MT" in ks and ks.index("MF") > ks.index("MT"):
            return False
    return sum(1 for k, _ in seq if k == "IG") <= 1


def cuts(n):
    """all ways of cutting a sequence of n events into consecutive batches"""
    for mask in range(1 << (n - 1)):
        sizes, cur = [], 1
        for i in range(n - 1):
            if mask >> i & 1:
                sizes.append(cur)
                cur = 1
            else:
                cur += 1
        sizes.append(cur)
        yield sizes


def programs(maxlen, gapset):
    out = []
    for L in range(1, maxlen + 1):
        for seq in itertools.product(ALPHA, repeat=L):
            seq = [list(x) for x in seq]
            if not wellformed(seq):
                continue
            for sizes in cuts(L):
                batches, i = [], 0
                for sz in sizes:
                    batches.append(seq[i : i + sz])
                    i += sz
                for gaps in itertools.product(gapset, repeat=len(batches) - 1):
                    out.append({"batches": batches, "gaps": [0] + list(gaps)})
    return out


def _job(ps):
    out = []
    for p, seed in ps:
        strat = detsched.PrefixStrategy(()) if seed is None else detsched.PrefixStrategy((), tail=detsched.RandomStrategy(seed, 0.5))
        rec, s = explore.execute(SCEN, p, strat)
        out.append((p, seed, rec["outcome"], rec["error"], rec["trace"], [r[2] for r in strat.record]))
    return out


def run(c):
    cfg = "Pairing_thorough.cfg" if c.thorough else "Pairing_quick.cfg"
    r = tlc.run_tlc("Pairing", cfg, workers=c.jobs, coverage=True, timeout=3000, heap="8g")
    c.add_tlc("Pairing:" + cfg, r)
    for act in ("Read", "GroupStep", "PutStep", "Get", "Tick"):
        if r.coverage.get(act, 0) == 0:
            c.machinery_failure(f"vacuity: action {act} never taken")
    if not r.ok:
        c.machinery_failure(f"design spec {cfg} violated: {r.violated} {r.errors[:2]}")
    c.note(f"TLC {cfg}: {r.distinct} distinct states, depth {r.depth}, {r.wall:.1f}s")

    import multiprocessing as mp

    progs = programs(4 if c.thorough else 3, (0, 1, 2, 3))
    if not c.thorough:
        progs = [p for i, p in enumerate(progs) if len(p["batches"]) <= 2 or i % 3 == 0]
    cases = []
    for i, p in enumerate(progs):
        cases.append((p, None))
        for k in range(2 if c.thorough else 1):
            cases.append((p, c.seed * 7919 + i * 3 + k))
    chunks = [cases[i :: c.jobs * 4] for i in range(c.jobs * 4)]
    traces, meta = [], []
    seen = set()
    with mp.get_context("fork").Pool(c.jobs) as pool:
        for part in pool.map(_job, [x for x in chunks if x]):
            for p, seed, outcome, err, tr, choices in part:
                if outcome in ("error", "divergence", "steplimit"):
                    c.machinery_failure(f"pairing scenario failed in the harness: {outcome} {err} {p}")
                key = str(tr)
                if key in seen:
                    continue
                seen.add(key)
                traces.append(tr)
                meta.append({"scenario": SCEN, "params": p, "choices": choices})
    c.cov["evaluations"] += len(cases)
    c.note(f"scripted sequences: {len(progs)} programs (sequence x batching x gaps), {len(cases)} executions, {len(traces)} distinct traces")
    # bounded-preemption DFS on the racy ones
    racy = [{"batches": [[["MF", 1]], [["MT", 1]]], "gaps": [0, 2]}, {"batches": [[["MF", 1], ["X", 0]], [["MT", 1], ["X", 0]]], "gaps": [0, 2]},
            {"batches": [[["MF", 1]], [["MF", 2]], [["MT", 1], ["MT", 2]]], "gaps": [0, 1, 1]}]
    for p in racy:
        n, recs = explore.dfs(SCEN, p, 2 if c.thorough else 1, jobs=c.jobs)
        c.cov["evaluations"] += n
        for rec in recs:
            traces.append(rec["trace"])
            meta.append({"scenario": SCEN, "params": p, "choices": rec["choices"]})
        c.note(f"dfs {p}: {n} executions, {len(recs)} distinct traces")
    c.cov["distinct_nontrivial"] = len(traces)
    verdicts, stats = tlc.validate_traces("PairingTrace", "PairingTrace.cfg", traces,
                                          chunk=max(50, len(traces) // (c.jobs * 2) + 1), parallel=c.jobs)
    c.add_trace_stats("PairingTrace", len(traces), stats)
    c.cov["states"] += stats["distinct"]
    c.cov["transitions"] += stats["generated"]
    for tr, m, v in zip(traces, meta, verdicts):
        if v["accepted"]:
            continue
        rp = dict(m, trace=tr, trace_spec=["PairingTrace", "PairingTrace.cfg"])
        for clause in (v["viol"] or ["P_C08_Explainable"]):
            c.violation(clause, f"{clause} is FALSE for native batches {m['params']['batches']} gaps {m['params']['gaps']}", rp)
    c.sample({"program": meta[0]["params"], "trace": traces[0]})
    c.cov["rule"] = ("every well-formed native sequence up to length %d over {MF1,MT1,MF2,MT2,X,IGNORED} x every batching x gaps "
                     "{0,d-1,d,d+1}, default + random schedules, DFS on racy programs" % (4 if c.thorough else 3))
    c.assumptions += ["scripted inotify_event bytes per inotify(7) layout stand for the kernel", "virtual clock; 'in time' is judged at "
                      "the reader's processing step, which coincides with the read under the scheduler (no clock thread)"]


if __name__ == "__main__":
    checklib.main_wrapper("C08", run)
