"""Environment validation (DESIGN §5.6): FsKernel.tla against the real kernel.

An independent recorder (ctypes inotify_init1 / inotify_add_watch / read; no watchdog code) runs TLC-generated
operation histories one system call at a time on a scratch tree, watching every directory, and logs the raw inotify
stream per system call; TLC validates every trace against FsKernelTrace.tla, which predicts the stream with the very
operators (MkdirEvents, RenameEvents, ...) that InotifyPipeline.tla composes with the library model.

Used by the pipeline checks (thorough tier and, in a small version, quick) as a gate: if this kernel disagreed with
the model, the G-FS checks would exit 2 instead of blaming the library."""

from __future__ import annotations

import ctypes
import os
import select
import shutil
import struct
import tempfile

MASK = 0x2 | 0x4 | 0x40 | 0x80 | 0x100 | 0x200 | 0x400 | 0x02000000 | 0x8 | 0x10 | 0x20   # = WATCHDOG_ALL_EVENTS
NAMES = {0x1: "ACCESS", 0x2: "MODIFY", 0x4: "ATTRIB", 0x8: "CLOSE_WRITE", 0x10: "CLOSE_NOWRITE", 0x20: "OPEN", 0x40: "MOVED_FROM",
         0x80: "MOVED_TO", 0x100: "CREATE", 0x200: "DELETE", 0x400: "DELETE_SELF", 0x800: "MOVE_SELF", 0x8000: "IGNORED",
         0x2000: "UNMOUNT", 0x4000: "Q_OVERFLOW"}
ISDIR = 0x40000000
libc = ctypes.CDLL(None, use_errno=True)


class Recorder:
    def __init__(self, base):
        self.base = base
        self.R = os.path.join(base, "R")
        self.O = os.path.join(base, "O")
        os.mkdir(self.R)
        os.mkdir(self.O)
        self.fd = libc.inotify_init1(0o4000)  # IN_NONBLOCK
        self.trace = []
        self.watched = set()  # inode numbers
        self.tree = {}  # (top, path tuple) -> kind
        self.watch(("R", ()))

    def path(self, at):
        top, p = at
        return os.path.join(self.R if top == "R" else self.O, *p)

    def watch(self, at):
        p = self.path(at)
        ino = os.stat(p).st_ino
        if ino in self.watched:
            return
        wd = libc.inotify_add_watch(self.fd, p.encode(), MASK)
        self.watched.add(ino)
        self.trace.append({"e": "watch", "at": {"top": at[0], "p": list(at[1])}, "wd": wd})

    def read(self):
        evs = []
        cookies = {}
        pl = select.poll()
        pl.register(self.fd, select.POLLIN)
        while pl.poll(0):
            buf = os.read(self.fd, 65536)
            i = 0
            while i + 16 <= len(buf):
                wd, mask, cookie, ln = struct.unpack_from("iIII", buf, i)
                name = buf[i + 16 : i + 16 + ln].rstrip(b"\0").decode()
                i += 16 + ln
                ts = [n for b, n in NAMES.items() if mask & b]
                evs.append({"wd": wd, "t": ts[0] if len(ts) == 1 else "+".join(ts), "dir": bool(mask & ISDIR),
                            "ck": 1 if cookie else 0, "nm": name})
        return evs

    def sys(self, k, at, nm="", to=None, nm2=""):
        rec = {"e": "sys", "k": k, "at": {"top": at[0], "p": list(at[1])}, "nm": nm,
               "to": {"top": to[0], "p": list(to[1])} if to else {"top": "R", "p": []}, "nm2": nm2}
        p = self.path(at)
        if k == "mkdir":
            os.mkdir(os.path.join(p, nm))
        elif k == "creat":
            os.close(os.open(os.path.join(p, nm), os.O_CREAT | os.O_WRONLY | os.O_EXCL))
        elif k == "write":
            fd = os.open(p, os.O_WRONLY | os.O_APPEND)
            os.write(fd, b"x")
            os.close(fd)
        elif k == "chmod":
            os.chmod(p, (os.stat(p).st_mode & 0o777) ^ 0o010)
        elif k == "unlink":
            os.unlink(p)
        elif k == "rmdir":
            ino = os.stat(p).st_ino
            os.rmdir(p)
            self.watched.discard(ino)
        elif k == "rename":
            dst = os.path.join(self.path(to), nm2)
            if os.path.isdir(dst) and not os.path.islink(dst):
                self.watched.discard(os.stat(dst).st_ino)
            os.rename(p, dst)
        self.trace.append(rec)
        self.trace.append({"e": "evs", "evs": self.read()})

    def close(self):
        os.close(self.fd)


def run_history(start, outside, ops):
    """start/outside: [[relpath, 'd'|'f']]; ops: driver ops of checks/pipeline_engine.  Returns the trace.
    The recorder never lists a directory (that would queue OPEN / CLOSE_NOWRITE events of its own): it keeps its own
    record of the tree."""
    base = tempfile.mkdtemp(prefix="verif-kv-", dir=os.environ.get("TMPDIR", "/tmp"))
    r = Recorder(base)
    tree = {"R": {}, "O": {}}
    try:
        def T(s):
            return tuple(s.split("/"))

        def sub(top, p):
            return sorted(q for q in tree[top] if q[: len(p)] == p and q != p)

        for top, items in (("R", start), ("O", outside)):
            for rel, k in items:
                p = T(rel)
                r.sys("mkdir" if k == "d" else "creat", (top, p[:-1]), p[-1])
                tree[top][p] = k
                if top == "R" and k == "d":
                    r.watch((top, p))
        for op in ops:
            k = op[0]
            if k == "drain":
                continue
            if k in ("mkdir", "creat"):
                p = T(op[1])
                r.sys(k, ("R", p[:-1]), p[-1])
                tree["R"][p] = "d" if k == "mkdir" else "f"
                if k == "mkdir":
                    r.watch(("R", p))
            elif k == "makedirs":
                p = T(op[1])
                for i in range(1, len(p) + 1):
                    if p[:i] not in tree["R"]:
                        r.sys("mkdir", ("R", p[: i - 1]), p[i - 1])
                        tree["R"][p[:i]] = "d"
                        r.watch(("R", p[:i]))
            elif k in ("write", "chmod"):
                r.sys(k, ("R", T(op[1])))
            elif k in ("unlink", "rmdir"):
                r.sys(k, ("R", T(op[1])))
                del tree["R"][T(op[1])]
            elif k == "rmtree":
                p = T(op[1])
                for q in sorted(sub("R", p) + [p], key=lambda x: (-len(x), x)):
                    r.sys("rmdir" if tree["R"][q] == "d" else "unlink", ("R", q))
                    del tree["R"][q]
            elif k in ("rename", "moveout", "movein"):
                st, dt = ("R", "R") if k == "rename" else (("R", "O") if k == "moveout" else ("O", "R"))
                s_, d_ = T(op[1]), T(op[2])
                r.sys("rename", (st, s_), to=(dt, d_[:-1]), nm2=d_[-1])
                moved = {q: tree[st][q] for q in [s_] + sub(st, s_)}
                for q in moved:
                    del tree[st][q]
                for q in [d_] + sub(dt, d_):
                    tree[dt].pop(q, None)
                for q, kk in moved.items():
                    tree[dt][d_ + q[len(s_):]] = kk
                if dt == "R":
                    for q in sorted(q for q in [d_] + sub("R", d_) if tree["R"][q] == "d"):
                        r.watch(("R", q))
        return r.trace
    finally:
        r.close()
        shutil.rmtree(base, ignore_errors=True)


def validate(c, histories, label="kernel validation"):
    """histories: list of (start, outside, ops).  Machinery failure (exit 2) if the kernel disagrees with FsKernel.tla."""
    from harness import tlc

    traces = [run_history(*h) for h in histories]
    verdicts, stats = tlc.validate_traces("FsKernelTrace", "FsKernelTrace.cfg", traces, chunk=max(20, len(traces) // c.jobs + 1),
                                          parallel=c.jobs)
    bad = [(h, v, t) for h, v, t in zip(histories, verdicts, traces) if not v["accepted"]]
    c.cov["kernel_model_traces_validated"] = c.cov.get("kernel_model_traces_validated", 0) + len(traces)
    c.cov["states"] += stats["distinct"]
    c.cov["transitions"] += stats["generated"]
    c.note(f"{label}: {len(traces)} raw inotify streams of the real kernel checked against FsKernel.tla, {len(bad)} disagree")
    if bad:
        h, v, t = bad[0]
        near = t[max(0, v["furthest"] - 3): v["furthest"] + 1]
        c.machinery_failure(f"the kernel in this sandbox disagrees with FsKernel.tla: history {h[2]} clause {v['viol']} near {near}")
