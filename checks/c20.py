"""C20  Windows and macOS translation layers meet the same contract on well-formed input; raw buffers decode to
exactly the encoded records.

What runs
---------
1. TLC checks the implementation-shaped translation tables  spec/WinXlat.tla  (WindowsApiEmitter.queue_events)  and
   spec/FSEventsXlat.tla  (FSEventsEmitter.queue_events / queue_event / _is_recursive_event)  over an abstract file
   system (names {a,b}, depth 2, an outside area), all histories of <= 2 (quick) / <= 4 (thorough; FSEvents: <= 3 back
   to back, <= 4 one at a time, <= 3 with inode re-use and sticky ItemCreated flags) operations rendered
   into native batches (all batch cuts, all FSEvents coalescings of adjacent same-item events, every placement of the
   reads / callbacks between the operations that the pacing allows), and  spec/Codec.tla  (framing of the
   two binary buffers: Encode ; Decode = identity, termination, no read past the buffer).  The main configs restrict
   the environment to the part on which the code meets the contract; the *_neg_* configs switch the restrictions off
   one at a time and TLC must then FIND the defect the code traces show (model and code agree about the finding).
2. code -> spec.  The REAL emitters are imported on Linux through import shims that exist only while the modules are
   being imported (a fake `ctypes.WinDLL` whose kernel32 functions are Python callables, a fake `_watchdog_fsevents`
   module whose NativeEvent(path, inode, flags, id) derives every is_* property from the public
   kFSEventStreamEventFlag* bit values exactly as src/watchdog_fsevents.c does).  Every operation history is executed on
   a real scratch directory (both layers stat / isdir / walk the real tree while translating), rendered into native
   notification batches by the documented-semantics SIMULATOR below and fed to the real code:
     Windows:  fake ReadDirectoryChangesW fills the caller's buffer with FILE_NOTIFY_INFORMATION records (the module's
               own FileNotifyInformation layout) -> real read_directory_changes -> real _parse_event_buffer -> real
               WinAPINativeEvent -> real WindowsApiEmitter.queue_events; root removal = ReadDirectoryChangesW fails,
               fake GetFinalPathNameByHandleW reports another path -> real _generate_observed_path_deleted_event.
     FSEvents: real FSEventsEmitter.events_callback(paths, inodes, flags, ids) -> fake NativeEvent -> real queue_events.
   The events the emitter puts on its event queue are normalized ([type, kind, src, dst, is_synthetic], paths as name-id
   sequences relative to the watched root) and validated by TLC against spec/XlatTrace.tla, whose monitors are the
   clauses of C20:  P_C20_ReplicaMatches, P_C20_RenameContract, P_C20_MoveInOut, P_C20_FSEventsNonRecursive,
   P_C20_DecodeEqualsEncoded  (and P_C20_NoException: the translation of well-formed input must not raise).
3. decoders.  Every record sequence within the Codec bounds (<= 3 records, name lengths 0..4, paddings 0..3; ASCII and
   non-ASCII names incl. a surrogate pair for the UTF-16 Windows names) is encoded per inotify(7) (struct "iIII" header +
   name + NULs) for the real Inotify._parse_event_buffer and per the winapi module's own FileNotifyInformation layout
   for the real winapi._parse_event_buffer; the decoded records go to the P_C20_DecodeEqualsEncoded monitor.

Simulator semantics (what "documented OS semantics" means here)
---------------------------------------------------------------
ReadDirectoryChangesW: names relative to the watched root; create = ADDED; write = MODIFIED (once or twice); delete =
  REMOVED (a recursive delete = REMOVED for every entry, children first); rename inside ONE directory =
  RENAMED_OLD_NAME immediately followed by RENAMED_NEW_NAME; a move between two directories of the watched tree =
  REMOVED(old) + ADDED(new) (what NTFS reports and what upstream's tests/test_emitter.py::test_move expects on
  Windows); move out = REMOVED; move in = ADDED of the top entry only; optional MODIFIED of the parent directory of a
  changed entry ("verbose" variant); non-recursive (bWatchSubtree = FALSE): only entries directly in the root are
  reported; removal of the watched root = the pending REMOVED records, then a failing read = FILE_ACTION_REMOVED_SELF.
  A read returns any non-empty prefix of the pending records (arbitrary batch cuts).  Scenarios with a cut BETWEEN
  RENAMED_OLD_NAME and RENAMED_NEW_NAME carry the flag `splitpair` (the API documentation does not promise that both
  records share a buffer; .NET's FileSystemWatcher handles the split explicitly) - likewise FSEvents rename pairs.
FSEvents (kFSEventStreamCreateFlagFileEvents | WatchRoot | UseExtendedData): absolute real paths, one event per item
  with the item's inode: ItemCreated / ItemRemoved / ItemModified / ItemRenamed, each with ItemIsFile or ItemIsDir
  (verbose variant: + ItemInodeMetaMod on writes, and ItemCreated repeated on later events of an item that an earlier
  batch announced as created - the "spurious is_created" the emitter's _fs_view exists for); a rename inside the tree = two ItemRenamed events (old path, new
  path) adjacent in the stream; move out / move in = ONE ItemRenamed event; only the top entry of a moved tree is
  reported; recursive delete = ItemRemoved per entry, children first; root removal = ItemRemoved of the root followed
  by an event with kFSEventStreamEventFlagRootChanged (no inode).  FSEvents is always recursive (the emitter filters).
  Coalescing: inside one callback batch ADJACENT events of the same (inode, path) may be merged (flags OR-ed): every
  maximal run of such events is partitioned into consecutive blocks in every way.  Events of one item+path that are
  separated by other events are NOT merged (where such a merged event would stand relative to the events in between is
  not documented; a simulator that guessed could raise unjustified alarms).  Batch cuts are arbitrary.
Delivery: `paced` = the native events of each operation are delivered (in every cut) before the next operation is
  issued (C03's "one at a time": the per-operation contract clauses are evaluated only here); `b2b` = a group of
  operations that respects the directory pacing condition of C01 (DESIGN section 7) is issued back to back and its
  native events are delivered afterwards (every cut / coalescing); only P_C20_ReplicaMatches (+ the non-recursive
  clause) is evaluated there.

Genuine defects (found by this check on the pinned tree)
--------------------------------------------------------
Each OPEN finding has a signature  <clause>:<id>:<name>  (FINDINGS below), a feature PREDICTOR written from the scenario
alone (`predict`) and a *_neg_<id>.cfg in which TLC finds the same violation in the model; they are registered in
/verif/known_findings.json (matched by ":<id>:"), so the check prints KNOWN-FINDING lines for them and exits 0.  A
failing clause is attributed to a finding only if the scenario has that finding's feature and the clause is one the
finding explains; every other failing clause gets the signature <clause>:<layer>:unexplained = VIOLATION, exit 1.
  W2  Windows: ADDED / NEW record translated after its path changed again (isdir at translation time; back to back)
  F1  FSEvents non-recursive: created / deleted / moved-away events of child DIRECTORIES dropped  (proposed_fixes/)
  F2  FSEvents non-recursive: moved events across the root / sub-directory boundary name a deep path (literal reading of
      "never reports anything below the root's direct children"; any path of any queued event counts)
  F3  FSEvents: rename pair split across callback batches -> deleted + created, not one moved event
  F4  FSEvents: an item renamed / moved twice before translation -> ItemRenamed events mis-paired by inode
FIXED in /repo, no longer predicted - a recurrence is "unexplained" and therefore a VIOLATION:
  W1  (ad9135d) Windows: RENAMED_OLD_NAME / RENAMED_NEW_NAME split across two reads gave Moved('' -> new); the scenarios
      with such a cut (flag `splitpair`) stay in the enumeration, WinXlat.tla models the repaired emitter and
      WinXlat_neg_W1.cfg (LocalRenameSource = TRUE, the old code) must still be refuted by TLC.
  W3  (dccf2bb) Windows decoder: names decoded with 'utf-16' swallowed a leading U+FEFF; the BOM names stay as decoder
      cases.

Readings of the property text chosen here
-----------------------------------------
* "renames inside a recursively watched tree become one moved event": demanded for renames the OS reports as a rename
  (ReadDirectoryChangesW: inside one directory; FSEvents: all); a Windows move between two directories of the tree is
  REMOVED + ADDED natively and is judged by the replica only.
* the File/Dir flavour of deleted events is not demanded (ReadDirectoryChangesW cannot tell; the emitter always says
  File); the flavour of created / moved events is (through the replica comparison).
* replay = Apply of DESIGN section 7 literally (a moved event carries the replica's subtree with ITS kinds).
* events whose paths lie outside the watched tree (e.g. DirModifiedEvent(dirname(root)) after root removal) are ignored.

Limits of the approach (stated)
-------------------------------
* The native streams come from the simulator above, not from Windows / macOS (the property says so itself).  If the
  simulator allows less than the OS, defects are missed; if it allowed more, a reported violation would be unjustified:
  every violation therefore carries the exact native batches in its replay file.
* LP64: ctypes.wintypes.DWORD is 8 bytes on this platform, so FILE_NOTIFY_INFORMATION buffers are laid out with the
  module's OWN FileNotifyInformation structure (header 24 bytes instead of 12).  The cursor logic (NextEntryOffset,
  FileNameLength, termination) is checked, the Windows ABI field width is not.
* Path separator is "/" (the emitter joins with os.path.join of this platform); Windows path semantics (case
  insensitivity, 8.3 names, "\\\\?\\" prefixes) are not exercised.  Watch paths are str (bytes roots: C19).
* inode numbers seen by the FSEvents layer are VIRTUAL (native events carry them, the emitter's os.stat() goes through
  a proxy bound to the name `os` of watchdog.observers.fsevents that maps the real st_ino to the scenario's number):
  whether a new entry RE-USES the number a removed entry has freed is an environment choice of the scenario (`reuse`),
  independent of what the scratch file system does (the driver keeps removed entries open so that the real numbers
  stay distinct).  The re-use family: every [create x] [write x] delete x, create y life cycle (3-4 operations), all
  <= 3-operation histories with a delete before a create in the thorough tier, random histories; with the verbose
  variant the delete arrives as the coalesced ItemCreated|[ItemModified|]ItemRemoved record that touches _fs_view.
  Coalescing is per ITEM: a record of the entry that re-uses a number is never merged into a record of the old one.
* The fake kernel32 / _watchdog_fsevents only implement what queue_events reaches; thread start-up, the CFRunLoop, the
  overlapped I/O of the real libraries are outside (C04-C07 cover the generic emitter life cycle).
* No replace-by-rename, links or permission faults in the histories; histories are bounded as stated in the evidence.
* "Never reads past the buffer" is checked on the Codec model; on the code only the decoded records are compared (a
  Python-level over-read of a bytes object cannot be observed without guard pages) - except that a decoder which runs
  far off the buffer takes the worker process down, which is detected and reported (P_C20_NoException).
* Windows names are well-formed UTF-16 (BMP characters and surrogate PAIRS); a lone surrogate - legal on NTFS - makes
  filename.decode("utf-16") raise UnicodeDecodeError; observed, not part of the enumerated universe.
* Scratch trees live under $TMPDIR if set, else /dev/shm (tmpfs; metadata operations on this machine's ext4 /tmp are ~5x
  slower), else /tmp - one directory per run, removed at exit also when workers died.
"""

from __future__ import annotations

import ctypes
import hashlib
import importlib
import itertools
import json
import logging
import multiprocessing as mp
import os
import random
import shutil
import struct
import sys
import tempfile
import types

sys.path.insert(0, os.path.dirname(os.path.dirname(os.path.abspath(__file__))))

from harness import checklib, loader, tlc  # noqa: E402

# --------------------------------------------------------------------------------------------------------------------
# import shims
# --------------------------------------------------------------------------------------------------------------------

# public FSEvents.h constants (CoreServices/FSEvents.h)
kRootChanged = 0x20
kItemCreated = 0x100
kItemRemoved = 0x200
kItemInodeMetaMod = 0x400
kItemRenamed = 0x800
kItemModified = 0x1000
kItemFinderInfoMod = 0x2000
kItemChangeOwner = 0x4000
kItemXattrMod = 0x8000
kItemIsFile = 0x10000
kItemIsDir = 0x20000
kItemIsSymlink = 0x40000

_FSE_FLAGS = {  # property name of src/watchdog_fsevents.c -> bit (FLAG_PROPERTY table, l.158-180)
    "must_scan_subdirs": 0x1, "is_user_dropped": 0x2, "is_kernel_dropped": 0x4, "is_event_ids_wrapped": 0x8,
    "is_history_done": 0x10, "is_root_changed": 0x20, "is_mount": 0x40, "is_unmount": 0x80,
    "is_created": 0x100, "is_removed": 0x200, "is_inode_meta_mod": 0x400, "is_renamed": 0x800,
    "is_modified": 0x1000, "is_item_finder_info_modified": 0x2000, "is_owner_change": 0x4000,
    "is_xattr_mod": 0x8000, "is_file": 0x10000, "is_directory": 0x20000, "is_symlink": 0x40000,
    "is_own_event": 0x80000, "is_hardlink": 0x100000, "is_last_hardlink": 0x200000, "is_cloned": 0x400000,
}


def make_fake_fsevents():
    m = types.ModuleType("_watchdog_fsevents")

    class NativeEvent:
        """Python transcription of the NativeEvent type of src/watchdog_fsevents.c."""

        __slots__ = ("path", "inode", "flags", "event_id")

        def __init__(self, path="", inode=None, flags=0, id=0):  # noqa: A002  (signature of the C type)
            self.path = path
            self.inode = inode
            self.flags = flags
            self.event_id = id

        @property
        def is_coalesced(self):
            masks = (kItemCreated | kItemRemoved, kItemCreated | kItemRenamed, kItemRemoved | kItemRenamed)
            return any((self.flags & k) == k for k in masks)

        def __repr__(self):
            return f'NativeEvent(path="{self.path}", inode={self.inode}, flags={self.flags:x}, id={self.event_id})'

    for name, bit in _FSE_FLAGS.items():
        setattr(NativeEvent, name, property(lambda self, _b=bit: bool(self.flags & _b)))
    m.NativeEvent = NativeEvent
    m.calls = []
    for fn in ("add_watch", "remove_watch", "read_events", "stop", "loop", "schedule", "unschedule"):
        setattr(m, fn, (lambda _n: (lambda *a, **k: m.calls.append(_n)))(fn))
    m._fake = True
    return m


class _FakeFn:
    """A kernel32 entry point: accepts restype/argtypes/errcheck assignments like a ctypes function pointer."""

    def __init__(self, dll, name):
        self._dll = dll
        self._name = name

    def __call__(self, *args):
        return getattr(self._dll, "do_" + self._name, self._dll.do_default)(*args)


class FakeKernel32:
    """Fake kernel32: ReadDirectoryChangesW is scripted by the driver (`script`: list of bytes | ("error", code))."""

    def __init__(self, name="kernel32"):
        self._fns = {}
        self.script = []
        self.final_path = None

    def __getattr__(self, name):
        if name.startswith("_") or name.startswith("do_"):
            raise AttributeError(name)
        fn = self._fns.get(name)
        if fn is None:
            fn = self._fns[name] = _FakeFn(self, name)
        return fn

    def do_default(self, *args):
        return 1

    def do_CreateFileW(self, *args):
        return 0x1234

    def do_ReadDirectoryChangesW(self, handle, buf, buflen, recursive, flags, nbytes, overlapped, routine):
        item = self.script.pop(0)
        if isinstance(item, tuple):
            e = OSError(f"[WinError {item[1]}] simulated")
            e.winerror = item[1]
            raise e
        assert len(item) <= buflen
        ctypes.memmove(buf._obj, item, len(item))
        nbytes._obj.value = len(item)
        return 1

    def do_GetFinalPathNameByHandleW(self, handle, buf, size, flags):
        buf.value = self.final_path if self.final_path is not None else ""
        return len(buf.value)


class Layers:
    pass


_layers = None


def load_layers():
    """Import the modules under test from loader.REPO_SRC with the shims installed only around the import."""
    global _layers
    if _layers is not None:
        return _layers
    src = loader.REPO_SRC
    if src not in sys.path:
        sys.path.insert(0, src)
    for k in [k for k in sys.modules if k == "watchdog" or k.startswith("watchdog.")]:
        del sys.modules[k]
    import ctypes.wintypes  # noqa: F401  (real module, imports on Linux)

    fake_fse = make_fake_fsevents()
    had_windll = hasattr(ctypes, "WinDLL")
    saved_fse = sys.modules.get("_watchdog_fsevents")
    if not had_windll:
        ctypes.WinDLL = FakeKernel32
    sys.modules["_watchdog_fsevents"] = fake_fse
    L = Layers()
    try:
        L.events = importlib.import_module("watchdog.events")
        L.api = importlib.import_module("watchdog.observers.api")
        L.winapi = importlib.import_module("watchdog.observers.winapi")
        L.rdc = importlib.import_module("watchdog.observers.read_directory_changes")
        L.fsevents = importlib.import_module("watchdog.observers.fsevents")
        L.inotify_c = importlib.import_module("watchdog.observers.inotify_c")
    finally:
        if not had_windll:
            del ctypes.WinDLL
        if saved_fse is None:
            sys.modules.pop("_watchdog_fsevents", None)
        else:
            sys.modules["_watchdog_fsevents"] = saved_fse
    for mod in (L.events, L.winapi, L.rdc, L.fsevents, L.inotify_c):
        if not os.path.realpath(mod.__file__).startswith(os.path.realpath(src)):
            raise RuntimeError(f"{mod.__name__} imported from {mod.__file__}, expected {src}")
    if L.fsevents.os is not os:
        raise RuntimeError("watchdog.observers.fsevents no longer binds the name `os`")
    L.fsevents.os = _OsProxy()          # virtual inode numbers for the emitter's os.stat()
    L.kernel32 = L.winapi.kernel32
    L.fake_fse = fake_fse
    if not isinstance(L.kernel32, FakeKernel32):
        raise RuntimeError("winapi.kernel32 is not the fake")
    # the FSEvents emitter swallows exceptions of its callback into its logger: capture them
    L.fse_errors = []

    class _H(logging.Handler):
        def emit(self, record):
            if record.exc_info:
                L.fse_errors.append(f"{record.getMessage()}: {record.exc_info[0].__name__}: {record.exc_info[1]}")

    L.fsevents.logger.addHandler(_H())
    L.fsevents.logger.propagate = False
    L.fsevents.logger.setLevel(logging.ERROR)
    _layers = L
    return L


# --------------------------------------------------------------------------------------------------------------------
# binary encoders (harness side, written from the format descriptions)
# --------------------------------------------------------------------------------------------------------------------


def win_encode(L, records, pads=None):
    """FILE_NOTIFY_INFORMATION chain with the module's own field layout: [NextEntryOffset][Action][FileNameLength]
    [FileName: UTF-16-LE, FileNameLength bytes][padding]; NextEntryOffset = 0 in the last record."""
    F = L.winapi.FileNotifyInformation
    dw = ctypes.sizeof(L.winapi.DWORD)
    hdr = F.FileName.offset
    assert (F.NextEntryOffset.offset, F.Action.offset, F.FileNameLength.offset, hdr) == (0, dw, 2 * dw, 3 * dw)
    out = b""
    for i, (action, name) in enumerate(records):
        nm = name.encode("utf-16-le")
        if pads is None:
            pad = (-(hdr + len(nm))) % dw
        else:
            pad = pads[i]
        size = hdr + len(nm) + pad
        nxt = 0 if i == len(records) - 1 else size
        out += nxt.to_bytes(dw, sys.byteorder) + action.to_bytes(dw, sys.byteorder) + len(nm).to_bytes(dw, sys.byteorder)
        out += nm + b"\0" * pad
    return out


def inotify_encode(records, pads):
    """inotify(7): struct inotify_event { int wd; uint32_t mask, cookie, len; char name[]; }; len counts the NULs."""
    out = b""
    for (wd, mask, cookie, name), pad in zip(records, pads):
        out += struct.pack("iIII", wd, mask, cookie, len(name) + pad) + name + b"\0" * pad
    return out


# --------------------------------------------------------------------------------------------------------------------
# the file-system driver + native-stream simulator
# --------------------------------------------------------------------------------------------------------------------

A_ADDED, A_REMOVED, A_MODIFIED, A_OLD, A_NEW, A_SELF = 1, 2, 3, 4, 5, 0xFFFE
NAMES = ("a", "b", "c", "d", "e", "f")
NAME_ID = {n: i + 1 for i, n in enumerate(NAMES)}
P_NONE = [0]      # the empty string (no path)
P_UNK = [99]      # a path that does not decompose into known names below the watched root

START_TREES = [
    {},
    {("a",): "d", ("a", "a"): "f", ("b",): "f"},
    {("a",): "d", ("a", "a"): "d", ("a", "b"): "f", ("b",): "d"},
]


def tree_json(tree):
    return [{"p": [NAME_ID[n] for n in p], "k": k} for p, k in sorted(tree.items())]


def enabled_ops(tree, names=("a", "b"), depth=2, with_root=False):
    """Operations enabled in the model tree (the same vocabulary as spec/WinXlat.tla / FSEventsXlat.tla)."""
    paths = [p for d in range(1, depth + 1) for p in itertools.product(names, repeat=d)]

    def parent_ok(p):
        return len(p) == 1 or tree.get(p[:-1]) == "d"

    def has_children(p):
        return any(len(q) > len(p) and q[: len(p)] == p for q in tree)

    ops = []
    for p in paths:
        if p not in tree and parent_ok(p):
            ops.append(("mkfile", p))
            ops.append(("mkdir", p))
            ops.append(("movein", "f", p))
            ops.append(("movein", "d", p))
            if len(p) < depth:
                ops.append(("movein", "t", p))
        if p in tree:
            if tree[p] == "f":
                ops.append(("write", p))
            ops.append(("delete", p))
            ops.append(("moveout", p))
            for q in paths:
                if q not in tree and parent_ok(q) and q[: len(p)] != p:
                    if has_children(p) and len(q) >= depth:
                        continue
                    ops.append(("rename", p, q))
    if with_root:
        ops.append(("rmroot",))
    return ops


def apply_model(tree, op):
    t = dict(tree)
    kind = op[0]

    def sub(p):
        return [q for q in t if q[: len(p)] == p]

    if kind == "mkfile":
        t[op[1]] = "f"
    elif kind == "mkdir":
        t[op[1]] = "d"
    elif kind in ("delete", "moveout"):
        for q in sub(op[1]):
            del t[q]
    elif kind == "rename":
        p, q = op[1], op[2]
        for x in sub(p):
            t[q + x[len(p):]] = t.pop(x)
    elif kind == "movein":
        k, q = op[1], op[2]
        t[q] = "f" if k == "f" else "d"
        if k == "t":
            t[q + ("a",)] = "f"
            t[q + ("b",)] = "d"
    elif kind == "rmroot":
        t.clear()
    return t


def shapes_dir(tree, op):
    """Is `op` a directory-shaping operation (C01 pacing)?  Returns (hot directory paths, hot names)."""
    kind = op[0]
    if kind == "mkdir":
        return [op[1]], [op[1]]
    if kind in ("delete", "moveout") and tree.get(op[1]) == "d":
        return [op[1]], [op[1]]
    if kind == "rename" and tree.get(op[1]) == "d":
        return [op[2]], [op[1], op[2]]
    if kind == "movein" and op[1] in ("d", "t"):
        return [op[2]], [op[2]]
    if kind == "rmroot":
        return [()], [()]
    return [], []


def pacing_ok(tree, ops):
    """C01 pacing inside one back-to-back group (DESIGN section 7, *Pacing*; = PacingOK / HotAfter of XlatCommon.tla).
    hot: one record per directory shaped in this group: [current path, names it has made hot]."""
    hot = []
    t = tree
    for op in ops:
        kind = op[0]
        if kind == "rmroot" and hot:
            return False                                      # removing the root touches the contents of hot directories
        touched = [op[1]] if kind in ("mkfile", "mkdir", "write", "delete", "moveout") else \
            [op[1], op[2]] if kind == "rename" else [op[2]] if kind == "movein" else []
        for d, _ns in hot:
            for p in touched:
                if len(p) > len(d) and p[: len(d)] == d:      # something BELOW a hot directory
                    return False
        if kind == "delete" and any(d == op[1] for d, _ in hot) and \
                any(len(q) > len(op[1]) and q[: len(op[1])] == op[1] for q in t):
            return False                                      # removing a hot directory needs to touch its contents
        new_names = [op[1]] if kind in ("mkfile", "mkdir") else [op[2]] if kind in ("rename", "movein") else []
        for p in new_names:
            for d, ns in hot:
                if p in ns and not (kind == "rename" and op[1] == d):
                    return False                              # onto a hot name (other than the hot directory coming back)
        if kind == "rename" and any(d == op[1] for d, _ in hot):
            hot = [[op[2], ns + [op[2]]] if d == op[1] else [d, ns] for d, ns in hot]
        else:
            d, n = shapes_dir(t, op)
            if d:
                hot.append([d[0], list(n)])
        t = apply_model(t, op)
    return True


_VINO = {}      # real st_ino -> virtual inode number of the scenario being run in this process


class _StatResult:
    """os.stat_result with st_ino replaced by the scenario's virtual inode number."""

    def __init__(self, st):
        self._st = st
        self.st_ino = _VINO.get(st.st_ino, st.st_ino)

    def __getattr__(self, name):
        return getattr(self._st, name)


class _OsProxy:
    """Stands for the name `os` inside watchdog.observers.fsevents: everything is the real os, except that stat() /
    lstat() report virtual inode numbers (the OS seam of the FSEvents layer: which inode a path has)."""

    def __getattr__(self, name):
        return getattr(os, name)

    @staticmethod
    def stat(path, *a, **k):
        return _StatResult(os.stat(path, *a, **k))

    @staticmethod
    def lstat(path, *a, **k):
        return _StatResult(os.lstat(path, *a, **k))


class Scratch:
    """A real scratch directory: <base>/w is the watched root, <base>/o the outside area."""

    PARENT = None     # set by scratch_parent(): every Scratch of this run (also of crashed workers) lives below it

    def __init__(self):
        self.base = os.path.realpath(tempfile.mkdtemp(prefix="s-", dir=Scratch.PARENT or scratch_parent()))
        self.root = os.path.join(self.base, "w")
        self.out = os.path.join(self.base, "o")
        self.fds = []
        self.n_out = 0

    # Inode numbers the FSEvents side sees are VIRTUAL: the native events carry them and the emitter's os.stat() (a proxy
    # installed on the fsevents module's `os` name, see load_layers) reports them for the real files.  That makes inode
    # RE-USE an environment choice: with reuse=True a newly created entry gets the number a removed entry has freed.
    def ino(self, fp):
        real = os.lstat(fp).st_ino
        if real not in _VINO:
            self.next_v += 1
            _VINO[real] = self.next_v
        return _VINO[real]

    def alloc(self, fp, reuse):
        real = os.lstat(fp).st_ino
        if reuse and self.free:
            _VINO[real] = self.free.pop()
        else:
            self.next_v += 1
            _VINO[real] = self.next_v
        self.gen[_VINO[real]] = self.gen.get(_VINO[real], 0) + 1
        return _VINO[real]

    def uid(self, v):
        """Identity of the ITEM that currently owns inode number v (a re-used number names a different item)."""
        return None if v is None else (v, self.gen.get(v, 0))

    def release(self, v):
        self.free.append(v)

    def reset(self, tree):
        _VINO.clear()
        self.gen = {}
        self.free = []
        self.next_v = 1000
        self.close_fds()
        for d in (self.root, self.out):
            shutil.rmtree(d, ignore_errors=True)
            os.mkdir(d)
        for p, k in sorted(tree.items()):
            fp = self.path(p)
            if k == "d":
                os.mkdir(fp)
            else:
                with open(fp, "w"):
                    pass
        self.n_out = 0

    def path(self, p):
        return os.path.join(self.root, *p)

    def rel(self, p):
        return os.sep.join(p)

    def hold(self, fp):
        """Keep the inode alive (not reusable) after the entry is removed."""
        try:
            self.fds.append(os.open(fp, os.O_RDONLY | os.O_NOFOLLOW))
        except OSError:
            pass

    def close_fds(self):
        for fd in self.fds:
            try:
                os.close(fd)
            except OSError:
                pass
        self.fds = []

    def listing(self):
        out = {}
        if not os.path.isdir(self.root):
            return out
        n = len(self.root) + 1
        for dp, dns, fns in os.walk(self.root):
            for x in dns:
                out[tuple(os.path.join(dp, x)[n:].split(os.sep))] = "d"
            for x in fns:
                out[tuple(os.path.join(dp, x)[n:].split(os.sep))] = "f"
        return out

    def destroy(self):
        self.close_fds()
        shutil.rmtree(self.base, ignore_errors=True)


def scratch_parent():
    """One directory per run: $TMPDIR if set; else tmpfs (/dev/shm: metadata operations are ~5x faster than on the
    ext4 /tmp of this machine); else /tmp.  Removed at exit, whatever happened to the workers."""
    import atexit

    if Scratch.PARENT is None:
        base = os.environ.get("TMPDIR") or ("/dev/shm" if os.access("/dev/shm", os.W_OK | os.X_OK) else "/tmp")
        Scratch.PARENT = os.path.realpath(tempfile.mkdtemp(prefix=f"verif-c20-{os.getpid()}-", dir=base))
        pid = os.getpid()

        def _rm(path=Scratch.PARENT):
            if os.getpid() == pid:
                shutil.rmtree(path, ignore_errors=True)

        atexit.register(_rm)
    return Scratch.PARENT


def post_order(fp):
    """Entries below directory fp, children first (the order a recursive delete removes them)."""
    out = []
    for dp, dns, fns in os.walk(fp, topdown=False):
        for x in sorted(fns):
            out.append((os.path.join(dp, x), "f"))
        for x in sorted(dns):
            out.append((os.path.join(dp, x), "d"))
    return out


def do_op(S, op, verbose=False, reuse=False):
    """Execute `op` on the real scratch tree.  Returns (win_events, fse_events, info):
    win_events: [(action, relative path tuple)] as a recursive ReadDirectoryChangesW watch reports them,
    fse_events: [(abs path, inode, flags)], info: fields of the trace's op line."""
    kind = op[0]
    win, fse = [], []
    info = {"op": kind, "src": P_NONE, "dst": P_NONE, "k": "f", "nat": "", "desc": []}

    def ids(p):
        return [NAME_ID[n] for n in p]

    def kflag(k):
        return kItemIsDir if k == "d" else kItemIsFile

    def parent_mod(p):
        if verbose and len(p) > 1:
            win.append((A_MODIFIED, p[:-1]))

    def rel_of(fp):
        return tuple(fp[len(S.root) + 1:].split(os.sep))

    def desc_of(fp):
        n = len(fp) + 1
        out = []
        for dp, dns, fns in os.walk(fp):
            for x in dns:
                out.append({"p": ids(tuple(os.path.join(dp, x)[n:].split(os.sep))), "k": "d"})
            for x in fns:
                out.append({"p": ids(tuple(os.path.join(dp, x)[n:].split(os.sep))), "k": "f"})
        return sorted(out, key=lambda r: r["p"])

    if kind in ("mkfile", "mkdir"):
        p = op[1]
        fp = S.path(p)
        k = "d" if kind == "mkdir" else "f"
        if k == "d":
            os.mkdir(fp)
        else:
            with open(fp, "x"):
                pass
        win.append((A_ADDED, p))
        parent_mod(p)
        fse.append((fp, S.alloc(fp, reuse), kItemCreated | kflag(k)))
        info.update(src=ids(p), k=k)
    elif kind == "write":
        p = op[1]
        fp = S.path(p)
        with open(fp, "a") as f:
            f.write("x")
        win.append((A_MODIFIED, p))
        if verbose:
            win.append((A_MODIFIED, p))
        fse.append((fp, S.ino(fp), kItemModified | kItemIsFile | (kItemInodeMetaMod if verbose else 0)))
        info.update(src=ids(p))
    elif kind == "delete":
        p = op[1]
        fp = S.path(p)
        k = "d" if os.path.isdir(fp) else "f"
        victims = (post_order(fp) if k == "d" else []) + [(fp, k)]
        for vp, vk in victims:
            ino = S.ino(vp)
            S.release(ino)
            S.hold(vp)
            if vk == "d":
                os.rmdir(vp)
            else:
                os.unlink(vp)
            win.append((A_REMOVED, rel_of(vp)))
            fse.append((vp, ino, kItemRemoved | kflag(vk)))
        parent_mod(p)
        info.update(src=ids(p), k=k)
    elif kind == "rename":
        p, q = op[1], op[2]
        fp, fq = S.path(p), S.path(q)
        k = "d" if os.path.isdir(fp) else "f"
        ino = S.ino(fp)
        assert not os.path.lexists(fq)
        os.rename(fp, fq)
        if p[:-1] == q[:-1]:
            win += [(A_OLD, p), (A_NEW, q)]
            parent_mod(p)
            nat = "pair"
        else:
            win += [(A_REMOVED, p)]
            parent_mod(p)
            win += [(A_ADDED, q)]
            parent_mod(q)
            nat = "split"
        fse += [(fp, ino, kItemRenamed | kflag(k)), (fq, ino, kItemRenamed | kflag(k))]
        info.update(src=ids(p), dst=ids(q), k=k, nat=nat, desc=desc_of(fq) if k == "d" else [])
    elif kind == "moveout":
        p = op[1]
        fp = S.path(p)
        k = "d" if os.path.isdir(fp) else "f"
        ino = S.ino(fp)
        S.n_out += 1
        os.rename(fp, os.path.join(S.out, f"out{S.n_out}"))
        win.append((A_REMOVED, p))
        parent_mod(p)
        fse.append((fp, ino, kItemRenamed | kflag(k)))
        info.update(src=ids(p), k=k)
    elif kind == "movein":
        what, q = op[1], op[2]
        fq = S.path(q)
        S.n_out += 1
        src = os.path.join(S.out, f"in{S.n_out}")
        k = "f" if what == "f" else "d"
        if what == "f":
            with open(src, "x"):
                pass
        else:
            os.mkdir(src)
            if what == "t":
                with open(os.path.join(src, "a"), "x"):
                    pass
                os.mkdir(os.path.join(src, "b"))
        assert not os.path.lexists(fq)
        os.rename(src, fq)
        win.append((A_ADDED, q))
        parent_mod(q)
        fse.append((fq, S.alloc(fq, reuse), kItemRenamed | kflag(k)))
        info.update(dst=ids(q), k=k, desc=desc_of(fq) if k == "d" else [])
    elif kind == "rmroot":
        ino_root = S.ino(S.root)
        for vp, vk in post_order(S.root):
            ino = S.ino(vp)
            S.release(ino)
            S.hold(vp)
            if vk == "d":
                os.rmdir(vp)
            else:
                os.unlink(vp)
            win.append((A_REMOVED, rel_of(vp)))
            fse.append((vp, ino, kItemRemoved | kflag(vk)))
        S.hold(S.root)
        os.rmdir(S.root)
        win.append((A_SELF, ()))
        fse.append((S.root, ino_root, kItemRemoved | kItemIsDir))
        fse.append((S.root, None, kRootChanged))
        info.update(src=[], k="d")
    else:
        raise ValueError(op)
    # 4th field (simulator bookkeeping, never shown to the emitter): the item's identity - FSEvents coalesces the
    # records of one ITEM at one path, and an item that re-uses a freed inode number is another item
    fse = [(p_, i_, fl, S.uid(i_)) for p_, i_, fl in fse]
    return win, fse, info


def compositions(n, forbid=()):
    """All cuts of a stream of n events into consecutive non-empty batches, as tuples of batch lengths; a cut directly
    after position i (1-based) is skipped for i in `forbid`."""
    if n == 0:
        return [()]
    out = []
    for mask in range(1 << (n - 1)):
        if any(mask >> (i - 1) & 1 for i in forbid):
            continue
        lens, cur = [], 1
        for i in range(n - 1):
            if mask >> i & 1:
                lens.append(cur)
                cur = 1
            else:
                cur += 1
        lens.append(cur)
        out.append(tuple(lens))
    return out


def block_partitions(k):
    """All partitions of 0..k-1 into consecutive blocks."""
    return [c for c in compositions(k)]


def fse_coalescings(batch):
    """All coalescings of one callback batch: every maximal run of ADJACENT events of the same (inode, path) is
    partitioned into consecutive blocks in every way; a block becomes one event with the flags OR-ed.
    Index 0 = everything merged, last index = nothing merged."""
    runs = []
    for i, ev in enumerate(batch):
        if runs and ev[3] is not None and batch[runs[-1][0]][0] == ev[0] and batch[runs[-1][0]][3] == ev[3]:
            runs[-1].append(i)
        else:
            runs.append([i])
    multi = [r for r in runs if len(r) > 1]
    if not multi:
        return [list(batch)]
    out = []
    for choice in itertools.product(*[block_partitions(len(r)) for r in multi]):
        drop = set()
        flags = {i: batch[i][2] for i in range(len(batch))}
        for idx, lens in zip(multi, choice):
            pos = 0
            for ln in lens:
                blk = idx[pos: pos + ln]
                for j in blk[1:]:
                    flags[blk[0]] |= flags[j]
                    drop.add(j)
                pos += ln
        out.append([(batch[i][0], batch[i][1], flags[i], batch[i][3]) for i in range(len(batch)) if i not in drop])
    return out


# --------------------------------------------------------------------------------------------------------------------
# feeding the real emitters
# --------------------------------------------------------------------------------------------------------------------


class _Sink:
    """Stands for the observer's event queue: records every (event, watch) the emitter puts."""

    def __init__(self):
        self.items = []

    def put(self, item, block=True, timeout=None):
        self.items.append(item)


def make_emitter(L, layer, root, recursive):
    sink = _Sink()
    watch = L.api.ObservedWatch(root, recursive=recursive)
    if layer == "win":
        em = L.rdc.WindowsApiEmitter(sink, watch, timeout=0.01)
        em.on_thread_start()           # real get_directory_handle -> fake CreateFileW
    else:
        em = L.fsevents.FSEventsEmitter(sink, watch, timeout=0.01)
        em.on_thread_start()
        import time as _t

        em._start_time = _t.monotonic()    # what run() does before add_watch
    return em, sink


def project_path(root, p):
    if isinstance(p, bytes):
        p = os.fsdecode(p)
    if p == "":
        return P_NONE
    if p == root:
        return []
    if not p.startswith(root + os.sep):
        return P_UNK
    parts = p[len(root) + 1:].split(os.sep)
    if any(x not in NAME_ID for x in parts):
        return P_UNK
    return [NAME_ID[x] for x in parts]


_TYPES = {"created": "created", "deleted": "deleted", "moved": "moved", "modified": "modified"}


def normalize(root, ev):
    return {"ty": _TYPES.get(ev.event_type, "other"), "k": "d" if ev.is_directory else "f",
            "src": project_path(root, ev.src_path), "dst": project_path(root, ev.dest_path) if ev.event_type == "moved"
            else P_NONE, "syn": bool(ev.is_synthetic), "cls": type(ev).__name__}


def feed(L, layer, em, sink, S, batch, recursive):
    """Feed one native batch to the real emitter; returns (normalized queued events, exception text or None)."""
    n0 = len(sink.items)
    err = None
    try:
        if layer == "win":
            if batch and batch[0][0] == A_SELF:
                L.kernel32.script.append(("error", 5))
                L.kernel32.final_path = "\\Device\\gone"
            else:
                recs = [(a, S.rel(p)) for a, p in batch]
                L.kernel32.script.append(win_encode(L, recs))
            em.queue_events(0.01)
        else:
            del L.fse_errors[:]
            em.events_callback([b[0] for b in batch], [b[1] for b in batch], [b[2] for b in batch],
                               list(range(1, len(batch) + 1)))
            if L.fse_errors:
                err = L.fse_errors[0]
    except Exception as e:  # noqa: BLE001
        err = f"{type(e).__name__}: {e}"
    finally:
        del L.kernel32.script[:]
    return [normalize(S.root, it[0]) for it in sink.items[n0:]], err


def win_visible(win, recursive):
    return [(a, p) for a, p in win if recursive or len(p) <= 1]


def run_scenario(L, S, sc, probe=False):
    """sc = {"layer", "rec", "tree": index or dict, "ops": [...], "groups": [n1, n2, ...] (ops per delivery group),
             "cuts": per group a tuple of batch lengths (None = one batch), "coal": per group per batch an index into
             fse_coalescings (None = 0 = everything merged ... the LAST index = nothing merged), "verbose": bool}.
    Returns (trace lines, detail for the replay file, flags); with probe=True only the native streams per group."""
    layer, rec = sc["layer"], sc["rec"]
    tree = START_TREES[sc["tree"]] if isinstance(sc["tree"], int) else sc["tree"]
    S.reset(tree)
    em, sink = make_emitter(L, layer, S.root, rec)
    lines = [{"e": "start", "layer": layer, "rec": rec, "tree": tree_json(S.listing())}]
    detail = []
    flags = set()
    streams = []
    sticky = set()
    inos = {}
    ops = [tuple(o) for o in sc["ops"]]
    pos = 0
    for gi, gn in enumerate(sc["groups"]):
        stream = []
        paced = gn == 1
        for op in ops[pos: pos + gn]:
            op = tuple(tuple(x) if isinstance(x, list) else x for x in op)
            win, fse, info = do_op(S, op, sc.get("verbose", False), sc.get("reuse", False))
            info["e"] = "op"
            info["paced"] = paced
            info["tree"] = tree_json(S.listing())
            lines.append(info)
            stream += win_visible(win, rec) if layer == "win" else fse
        pos += gn
        streams.append(stream)
        if probe:
            continue
        cuts = sc["cuts"][gi] if sc.get("cuts") and sc["cuts"][gi] is not None else ((len(stream),) if stream else ())
        at = 0
        for bi, ln in enumerate(cuts):
            batch = stream[at: at + ln]
            at += ln
            if layer == "fse":
                ci = sc["coal"][gi][bi] if sc.get("coal") and sc["coal"][gi] is not None else 0
                merged = fse_coalescings(batch)[ci]
                if len(merged) < len(batch):
                    flags.add("coalesced")
                if at < len(stream) and batch[-1][2] & kItemRenamed and stream[at][2] & kItemRenamed \
                        and stream[at][3] == batch[-1][3] and stream[at][0] != batch[-1][0]:
                    flags.add("splitpair")
                if sc.get("verbose"):
                    # sticky ItemCreated: FSEvents keeps reporting the flag on later events of an item it has announced
                    # as created (the "spurious is_created" the emitter's _fs_view exists for)
                    merged = [(p_, i_, fl | (kItemCreated if (u_, p_) in sticky else 0), u_) for p_, i_, fl, u_ in merged]
                    sticky.update((u_, p_) for p_, i_, fl, u_ in merged if fl & kItemCreated)
                batch = merged
            elif at < len(stream) and batch[-1][0] == A_OLD:
                flags.add("splitpair")
            if layer == "win" and any(a == A_SELF for a, _ in batch) and len(batch) > 1:
                i = [a for a, _ in batch].index(A_SELF)          # the failing read is a read of its own
                parts = [batch[:i], batch[i: i + 1]]
            else:
                parts = [batch]
            for part in parts:
                if not part:
                    continue
                evs, err = feed(L, layer, em, sink, S, part, rec)
                lines.append({"e": "feed", "evs": evs})
                if layer == "fse":      # replay files must not depend on the scratch name / inode numbers of the run
                    shown = [[x[0].replace(S.root, "<root>"), inos.setdefault(x[1], len(inos) + 1) if x[1] else None,
                              hex(x[2])] for x in part]
                else:
                    shown = [[{1: "ADDED", 2: "REMOVED", 3: "MODIFIED", 4: "RENAMED_OLD_NAME", 5: "RENAMED_NEW_NAME",
                               0xFFFE: "REMOVED_SELF"}[a], "/".join(p)] for a, p in part]
                detail.append({"native": shown,
                               "queued": [f"{e['cls']}({e['src']},{e['dst']},syn={e['syn']})" for e in evs]})
                if err:
                    lines.append({"e": "exc", "what": err[:200]})
        assert at == len(stream), (at, len(stream), cuts)
    if probe:
        return streams
    lines.append({"e": "end", "stopped": not em.should_keep_running()})
    return lines, detail, sorted(flags)


# --------------------------------------------------------------------------------------------------------------------
# scenario enumeration
# --------------------------------------------------------------------------------------------------------------------

MAX_ALL_CUTS = 6


def cut_family(n):
    """All cuts for short streams; for longer ones: one batch, all singletons, every single cut position."""
    if n <= MAX_ALL_CUTS:
        return compositions(n)
    fam = {(n,), tuple([1] * n)}
    for i in range(1, n):
        fam.add((i, n - i))
    return sorted(fam)


def histories(maxops, with_root=True):
    """All (tree index, ops) with 1..maxops operations over names {a,b}, depth 2; rmroot only as the last operation."""
    out = []
    for ti, t0 in enumerate(START_TREES):
        def rec(tree, ops):
            if ops:
                out.append((ti, tuple(ops)))
            if len(ops) >= maxops or (ops and ops[-1][0] == "rmroot"):
                return
            for op in enabled_ops(tree, with_root=with_root):
                rec(apply_model(tree, op), ops + [op])
        rec(t0, [])
    return out


def groupings(tree, ops):
    """Delivery groupings of a history: every composition of len(ops) whose groups of >= 2 operations respect the
    pacing condition of C01."""
    out = []
    for comp in compositions(len(ops)):
        t = tree
        pos = 0
        ok = True
        for gn in comp:
            grp = ops[pos: pos + gn]
            if gn > 1 and not pacing_ok(t, grp):
                ok = False
                break
            for op in grp:
                t = apply_model(t, op)
            pos += gn
        if ok:
            out.append(comp)
    return out


def expand_job(L, S, job):
    """job = (layer, rec, tree, ops, groups, verbose): run every cut / coalescing variant; returns list of
    (scenario dict, lines, detail, flags)."""
    layer, rec, tree, ops, groups, verbose = job[:6]
    base = {"layer": layer, "rec": rec, "tree": tree, "ops": [list(o) for o in ops], "groups": list(groups),
            "verbose": verbose, "reuse": bool(job[6]) if len(job) > 6 else False}
    streams = run_scenario(L, S, base, probe=True)
    per_group = []
    for stream in streams:
        variants = []
        for cuts in (cut_family(len(stream)) if stream else [()]):
            if layer == "fse":
                at = 0
                counts = []
                for ln in cuts:
                    counts.append(len(fse_coalescings(stream[at: at + ln])))
                    at += ln
                for coal in itertools.product(*[range(n) for n in counts]):
                    variants.append((cuts, list(coal)))
            else:
                variants.append((cuts, None))
        per_group.append(variants)
    out = []
    for combo in itertools.product(*per_group):
        sc = dict(base)
        sc["cuts"] = [list(c[0]) for c in combo]
        sc["coal"] = [c[1] for c in combo]
        lines, detail, flags = run_scenario(L, S, sc)
        out.append((sc, lines, detail, flags))
    return out


def _worker(jobs):
    """Runs jobs; returns (records, uniq): records = [(scenario, flags, key)], uniq = {key: canonical trace}.  The full
    lines / native detail are not shipped back (memory): the parent re-executes the few scenarios it reports."""
    L = load_layers()
    S = Scratch()
    recs, uniq = [], {}

    def add(sc, lines, flags):
        can = canonical(lines)
        key = hashlib.sha1(json.dumps(can, sort_keys=True).encode()).hexdigest()
        if key not in uniq:
            uniq[key] = can
        recs.append((sc, flags, key))

    try:
        for job in jobs:
            if job[0] == "random":
                for sc, lines, _detail, flags in random_job(L, S, job[1]):
                    add(sc, lines, flags)
            elif job[0] == "decode":
                tr = [run_decoder_case(L, cs) for cs in job[2]]
                add({"decoder": job[1], "n": len(tr)}, tr, [])
            else:
                for sc, lines, _detail, flags in expand_job(L, S, job):
                    add(sc, lines, flags)
    finally:
        S.destroy()
    return recs, uniq


def run_pool(chunks, jobs):
    """_worker over chunks in forked processes.  A worker that dies (e.g. the decoder read far beyond the buffer and
    the interpreter segfaulted) must not hang the run: the chunks are then re-run one process each and the crashing
    ones are returned as such.  Returns (list of (recs, uniq) | None per chunk)."""
    from concurrent.futures import ProcessPoolExecutor, ThreadPoolExecutor
    from concurrent.futures.process import BrokenProcessPool

    ctx = mp.get_context("fork")
    results = [None] * len(chunks)
    try:
        with ProcessPoolExecutor(max_workers=jobs, mp_context=ctx) as ex:
            futs = [ex.submit(_worker, ch) for ch in chunks]
            for i, f in enumerate(futs):
                results[i] = f.result()
        return results
    except BrokenProcessPool:
        pass

    def one(i):
        try:
            with ProcessPoolExecutor(max_workers=1, mp_context=ctx) as ex1:
                return ex1.submit(_worker, chunks[i]).result()
        except BrokenProcessPool:
            return None

    todo = [i for i, r in enumerate(results) if r is None]
    with ThreadPoolExecutor(max_workers=jobs) as tp:
        for i, r in zip(todo, tp.map(one, todo)):
            results[i] = r
    return results


def _random_history(rng, names, depth, n, accept):
    """Random history in delivery groups; `accept(ops, groups)` filters candidate extensions."""
    ops, groups = [], []
    t = {}
    while len(ops) < n:
        gn = rng.choice([1, 1, 2, 3, 4])
        grp = []
        tt = t
        for _ in range(gn):
            cand = enabled_ops(tt, names=names, depth=depth)
            rng.shuffle(cand)
            for op in cand[:12]:
                if pacing_ok(t, grp + [op]) and accept(ops + grp + [op], groups + [len(grp) + 1]):
                    grp.append(op)
                    tt = apply_model(tt, op)
                    break
        if not grp:
            break
        ops += grp
        groups.append(len(grp))
        t = tt
    return ops, groups


def random_job(L, S, seed):
    """Random longer histories (names a..d, depth 3, 8-24 operations) in random delivery groups that respect the
    pacing condition, random cuts and coalescings, both layers, recursive and not.  Two families per seed:
    `any` (one unrestricted history for the four layer/recursive combinations) and `clean` (per combination a history
    and cuts that avoid the features of the recorded findings, so that the scenario is expected to pass)."""
    rng = random.Random(seed)
    names = NAMES[:4]
    n = rng.randint(8, 24)
    ops_any, groups_any = _random_history(rng, names, 3, n, lambda o, g: True)
    out = []
    for layer in ("win", "fse"):
        for rec in (True, False):
            for fam in ("any", "clean"):
                if fam == "any":
                    ops, groups = ops_any, groups_any
                else:
                    def accept(o, g, layer=layer, rec=rec):
                        return not predict({"layer": layer, "rec": rec, "tree": {}, "ops": o, "groups": g}, ())
                    ops, groups = _random_history(rng, names, 3, n, accept)
                base = {"layer": layer, "rec": rec, "tree": {}, "ops": [list(o) for o in ops], "groups": groups,
                        "verbose": rng.random() < 0.5, "seed": seed, "family": fam,
                        "reuse": layer == "fse" and rng.random() < 0.5}
                streams = run_scenario(L, S, base, probe=True)
                cuts, coal = [], []
                for stream in streams:
                    fam_cuts = cut_family(len(stream)) if stream else [()]
                    if fam == "clean":
                        def splits(cc, stream=stream):
                            at = 0
                            for ln in cc[:-1]:
                                at += ln
                                prev, nxt = stream[at - 1], stream[at]
                                if layer == "win" and prev[0] == A_OLD:
                                    return True
                                if layer == "fse" and prev[2] & kItemRenamed and nxt[2] & kItemRenamed and \
                                        prev[3] == nxt[3] and prev[0] != nxt[0]:
                                    return True
                            return False
                        fam_cuts = [cc for cc in fam_cuts if not splits(cc)]
                    cc = rng.choice(fam_cuts)
                    cuts.append(list(cc))
                    if layer == "fse":
                        at = 0
                        ci = []
                        for ln in cc:
                            ci.append(rng.randrange(len(fse_coalescings(stream[at: at + ln]))))
                            at += ln
                        coal.append(ci)
                    else:
                        coal.append(None)
                sc = dict(base)
                sc["cuts"], sc["coal"] = cuts, coal
                lines, detail, flags = run_scenario(L, S, sc)
                out.append((sc, lines, detail, flags))
    return out


# --------------------------------------------------------------------------------------------------------------------
# genuine defects found on the unchanged tree: scenario features that PREDICT them (from the scenario alone, never
# from the emitter's output).  A failing clause of a scenario is reported under the finding's signature only if the
# scenario has the finding's feature and the clause is one the finding explains; everything else is "unexplained".
# --------------------------------------------------------------------------------------------------------------------

FINDINGS = {
    "W2": ("win-stale-isdir-at-translation-time", {"R"},
           "an ADDED / RENAMED_NEW_NAME record is translated after its path changed again (back to back, e.g. a directory "
           "created or moved in and immediately renamed): os.path.isdir(path) answers for another moment, a directory is "
           "announced as FileCreatedEvent and the following DirMovedEvent carries a file"),
    "F1": ("fse-nonrecursive-drops-child-directory-events", {"R", "M"},
           "non-recursive FSEvents watch: _is_recursive_event() compares the directory's OWN path with the watch path, so "
           "created / deleted / moved-away events of directories directly in the root are dropped"),
    "F2": ("fse-nonrecursive-moved-event-names-deep-path", {"F"},
           "non-recursive FSEvents watch: a rename between the root and a sub-directory is queued as a moved event whose "
           "other path lies below the root's direct children"),
    "F3": ("fse-rename-pair-split-across-batches", {"N"},
           "the two ItemRenamed events of one rename arrive in different callback batches: deleted + created instead of "
           "one moved event"),
    "F4": ("fse-renamed-flag-ambiguity-back-to-back", {"R", "F"},       # F: a mis-paired moved event may name a deep path
           "one item is renamed / moved more than once before the batch is translated (or a removed item's inode number is "
           "re-used by an entry moved in before the batch is translated): the emitter pairs an ItemRenamed event with the "
           "NEXT ItemRenamed event of the same inode, whatever it means"),
}


def predict(sc, flags):
    """Finding ids whose feature the scenario has."""
    layer, rec = sc["layer"], sc["rec"]
    tree = dict(START_TREES[sc["tree"]] if isinstance(sc["tree"], int) else sc["tree"])
    ops = [tuple(tuple(x) if isinstance(x, list) else x for x in o) for o in sc["ops"]]
    out = set()
    if "splitpair" in flags:
        if layer == "fse":        # (Windows: W1 is fixed - a split pair must translate like an unsplit one)
            out.add("F3")
    pos = 0
    t = tree
    for gn in sc["groups"]:
        grp = ops[pos: pos + gn]
        pos += gn
        states = [t]
        for op in grp:
            states.append(apply_model(states[-1], op))
        end = states[-1]
        ident = {}      # current path -> item id, to follow items through the group
        nxt = [0]

        def item(p):
            if p not in ident:
                nxt[0] += 1
                ident[p] = nxt[0]
            return ident[p]

        ren_count = {}
        for i, op in enumerate(grp):
            before = states[i]
            kind = op[0]
            if layer == "fse" and not rec:
                subj = op[1] if kind in ("mkdir", "delete", "moveout", "rename") else op[2] if kind == "movein" else None
                isdir = kind == "mkdir" or (kind == "movein" and op[1] in ("d", "t")) or \
                    (kind in ("delete", "moveout", "rename") and before.get(op[1]) == "d")
                if kind == "rmroot":
                    if any(len(p) == 1 and k == "d" for p, k in before.items()):
                        out.add("F1")
                elif isdir and kind != "rename" and len(subj) == 1:
                    out.add("F1")
                elif isdir and kind == "rename" and ((len(op[1]) == 1 and len(op[2]) > 1) or
                                                     ("splitpair" in flags and 1 in (len(op[1]), len(op[2])))):
                    out.add("F1")
                if kind == "rename" and (len(op[1]) == 1) != (len(op[2]) == 1):
                    out.add("F2")
            if gn > 1 and layer == "win":
                # W2: the path of an ADDED / RENAMED_NEW_NAME record answers os.path.isdir() differently when the
                # group's records are translated (after the group) than right after the operation
                p = op[1] if kind in ("mkfile", "mkdir") else op[2] if kind in ("movein", "rename") else None
                if p is not None and (rec or len(p) == 1) and \
                        (states[i + 1].get(p) == "d") != (end.get(p) == "d"):
                    out.add("W2")
            if gn > 1 and layer == "fse":
                if kind in ("rename", "moveout"):
                    it = ident.pop(op[1], None) or item(("anon", i))
                    ren_count[it] = ren_count.get(it, 0) + 1
                    src = op[1]
                    if kind == "rename":
                        dst = op[2]
                        ident[dst] = it
                        for p in [p for p in ident if p != dst and p[: len(src)] == src]:
                            ident[dst + p[len(src):]] = ident.pop(p)
                elif kind == "movein":
                    it = item(op[2])
                    ren_count[it] = ren_count.get(it, 0) + 1
                elif kind in ("mkfile", "mkdir"):
                    item(op[1])
                elif kind == "delete":
                    for p in [p for p in ident if p[: len(op[1])] == op[1]]:
                        del ident[p]
        if layer == "fse" and any(n >= 2 for n in ren_count.values()):
            out.add("F4")
        if layer == "fse" and gn > 1 and sc.get("reuse"):
            # the same pairing-by-inode, across two ITEMS: an entry with an untranslated ItemRenamed record is removed and
            # an entry moved in later in the group re-uses its inode number
            renamed, freed_renamed = set(), False
            for op in grp:
                if op[0] == "movein":
                    if freed_renamed:
                        out.add("F4")
                    renamed.add(op[2])
                elif op[0] == "rename":
                    renamed = {op[2] + p[len(op[1]):] if p[: len(op[1])] == op[1] else p for p in renamed} | {op[2]}
                elif op[0] == "delete" and any(p[: len(op[1])] == op[1] for p in renamed):
                    freed_renamed = True
        t = end
    return out


def signature(sc, flags, clause):
    for fid in sorted(predict(sc, flags)):
        name, clauses, _ = FINDINGS[fid]
        if clause in clauses:
            return f"{CLAUSES[clause]}:{fid}:{name}"
    return f"{CLAUSES[clause]}:{sc['layer']}:unexplained"


CLAUSES = {"R": "P_C20_ReplicaMatches", "N": "P_C20_RenameContract", "M": "P_C20_MoveInOut",
           "F": "P_C20_FSEventsNonRecursive", "X": "P_C20_NoException", "D": "P_C20_DecodeEqualsEncoded"}


def canonical(lines):
    """Trace as sent to TLC: adjacent feed lines merged (the monitors only see the concatenation), display-only
    fields dropped.  Many cut variants of one history collapse to the same canonical trace."""
    out = []
    for ln in lines:
        if ln["e"] == "feed":
            evs = [{k: v for k, v in e.items() if k != "cls"} for e in ln["evs"]]
            if out and out[-1]["e"] == "feed":
                out[-1]["evs"] += evs
            else:
                out.append({"e": "feed", "evs": evs})
        elif ln["e"] == "exc":
            out.append({"e": "exc"})
        else:
            out.append(ln)
    return out


def validate(c, recs, uniq, heap="3g"):
    """recs: [(scenario, flags, key)], uniq: {key: canonical trace}.  TLC validates every distinct canonical trace once.
    Returns per record the list of failing clause codes ('REJECTED@n' if the trace spec could not consume the trace)."""
    keys = sorted(uniq)
    pos = {k: i for i, k in enumerate(keys)}
    jobs = c.jobs if c is not None else 16
    if len(keys) < 40000:
        jobs = max(1, jobs // 2)          # few traces: JVM start-up dominates, fewer and larger chunks
    chunk = max(200, len(keys) // jobs + 1)
    verdicts, stats = tlc.validate_traces("XlatTrace", "XlatTrace.cfg", [uniq[k] for k in keys], chunk=chunk,
                                          parallel=jobs, heap=heap, dfs_queue=False)
    out = []
    for _sc, _flags, key in recs:
        v = verdicts[pos[key]]
        if v["accepted"]:
            out.append([])
        elif v["viol"]:
            out.append(list(v["viol"]))
        else:
            out.append(["REJECTED@%d" % v["furthest"]])
    return out, stats, len(keys)


_WIN_POOLS = ["abcd", "é雪ñ☃", "\U0001F600ü\U0001F40Dz", "xЖ\U00010348中"]      # BMP and surrogate pairs


def _win_name(pool, nl):
    """A well-formed UTF-16 name of exactly nl code units taken from the pool (a surrogate pair is never cut)."""
    out = b""
    for ch in pool * 2:
        u = ch.encode("utf-16-le")
        if len(out) + len(u) <= 2 * nl:
            out += u
    return out + b"q\0" * (nl - len(out) // 2)
_INO_POOLS = [b"abcd", b"\xc3\xa9\xe2\x98", b"\xff\xfe\x80\x81", b"a\xc3b\xa9"]
_WDS = [1, -1, 2 ** 31 - 1, 7]
_MASKS = [0x100, 0x40000100, 0x4000, 0x80000000 | 0x2]
_COOKIES = [0, 0xFFFFFFFF, 12345, 1]
_ACTIONS = [1, 2, 3, 4, 5, 0xFFFE]


def decoder_cases(max_recs=3, max_name=4, max_pad=3):
    """Every record sequence within the Codec bounds (the universe Codec.tla's Init enumerates), for both formats."""
    shapes = [(nl, pd) for nl in range(max_name + 1) for pd in range(max_pad + 1)]
    cases = []
    n = 0
    for cnt in range(max_recs + 1):
        for combo in itertools.product(shapes, repeat=cnt):
            n += 1
            win, ino = [], []
            for k, (nl, _pd) in enumerate(combo):
                pool = _WIN_POOLS[(n + k) % len(_WIN_POOLS)]
                units = _win_name(pool, nl)                          # nl UTF-16 code units
                win.append((_ACTIONS[(n + k) % len(_ACTIONS)], units))
                ino.append((_WDS[(n + k) % 4], _MASKS[(n + 2 * k) % 4], _COOKIES[(n + 3 * k) % 4],
                            _INO_POOLS[(n + k) % len(_INO_POOLS)][:nl]))
            cases.append(("win", win, [pd for _nl, pd in combo]))
            cases.append(("ino", ino, [pd for _nl, pd in combo]))
    return cases


def _units(b):
    return [int.from_bytes(b[i: i + 2], "little") for i in range(0, len(b), 2)]


def run_decoder_case(L, case):
    """Encode, run the REAL decoder, return the dec trace line (ints that do not fit TLC's 32 bits travel as strings)."""
    fmt, recs, pads = case
    try:
        if fmt == "win":
            F = L.winapi.FileNotifyInformation
            dw = ctypes.sizeof(L.winapi.DWORD)
            hdr = F.FileName.offset
            buf = b""
            for i, ((action, units), pad) in enumerate(zip(recs, pads)):
                size = hdr + len(units) + pad
                nxt = 0 if i == len(recs) - 1 else size
                buf += nxt.to_bytes(dw, sys.byteorder) + action.to_bytes(dw, sys.byteorder) + \
                    len(units).to_bytes(dw, sys.byteorder) + units + b"\0" * pad
            got = L.winapi._parse_event_buffer(buf, len(buf))
            dec = [[str(a), _units(s.encode("utf-16-le", "surrogatepass"))] for a, s in got]
            enc = [[str(a), _units(u)] for a, u in recs]
        else:
            buf = inotify_encode(recs, pads)
            got = list(L.inotify_c.Inotify._parse_event_buffer(buf))
            dec = [[str(a), str(b), str(c_), list(nm)] for a, b, c_, nm in got]
            enc = [[str(a), str(b), str(c_), list(nm)] for a, b, c_, nm in recs]
    except Exception as e:  # noqa: BLE001
        enc = [["case"]]
        dec = [[f"EXC {type(e).__name__}"]]
    return {"e": "dec", "fmt": fmt, "enc": enc, "dec": dec}


def bom_cases():
    """Windows names that start with U+FEFF / contain it later (a legal NTFS name character)."""
    out = []
    for name in ("﻿ab", "﻿", "a﻿b"):
        out.append(("win", [(1, name.encode("utf-16-le")), (3, "zz".encode("utf-16-le"))], [0, 2]))
    return out


# --------------------------------------------------------------------------------------------------------------------
# the check
# --------------------------------------------------------------------------------------------------------------------

DESIGN_RUNS = {
    # name: (module, cfg quick, cfg thorough, actions that must be covered)
    "WinXlat": ("WinXlat", "WinXlat_quick.cfg", "WinXlat_thorough.cfg",
                ["T_RenamedOld", "T_RenamedNewDir", "T_RenamedNewFile", "T_Modified", "T_AddedDir", "T_AddedFile",
                 "T_Removed", "T_RemovedSelf"]),
    "FSEventsXlat": ("FSEventsXlat", "FSEventsXlat_quick.cfg", "FSEventsXlat_thorough.cfg",
                     ["T_CreatedRemoved", "T_Plain", "T_RenamedPair", "T_RenamedIn", "T_RenamedOut", "T_RootChanged"]),
    "Codec": ("Codec", "Codec_quick.cfg", "Codec_thorough.cfg", ["D_WinRecord", "D_WinEnd", "D_InoRecord", "D_InoEnd"]),
    # thorough only: <= 4 operations delivered one at a time (B2B = FALSE).  The <= 4-operation back-to-back model
    # (FSEventsXlat_deep.cfg, 6.8 million states, holds) is not part of the registered run: on a busy machine it alone
    # can take longer than the tier's budget.
    "FSEventsXlat@4": ("FSEventsXlat", None, "FSEventsXlat_thorough4.cfg",      # (no coalesced create+remove one at a time)
                       ["T_Plain", "T_RenamedPair", "T_RenamedIn", "T_RenamedOut", "T_RootChanged"]),
    # the FSEvents model with inode RE-USE and sticky ItemCreated flags as environment choices (<= 3 operations;
    # quick: recursive, operations one at a time, no root removal)
    "FSEventsXlat+reuse": ("FSEventsXlat", "FSEventsXlat_reuse_quick.cfg", "FSEventsXlat_reuse.cfg",
                           ["T_CreatedRemoved", "T_Plain", "T_RenamedPair", "T_RenamedIn", "T_RenamedOut"]),
}
FIXED = {"W1": "ad9135d"}      # repaired in /repo: the neg config stays as a non-vacuity check of the model's switch
NEG_RUNS = {  # finding -> (module, cfg, invariant TLC must find violated)
    "W1": ("WinXlat", "WinXlat_neg_W1.cfg", "Xlat_ReplicaMatches"),
    "W2": ("WinXlat", "WinXlat_neg_W2.cfg", "Xlat_ReplicaMatches"),
    "F1": ("FSEventsXlat", "FSEventsXlat_neg_F1.cfg", "Xlat_ReplicaMatches"),
    "F2": ("FSEventsXlat", "FSEventsXlat_neg_F2.cfg", "FSEvents_NonRecursiveNothingBelowChildren"),
    "F3": ("FSEventsXlat", "FSEventsXlat_neg_F3.cfg", "Xlat_RenameIsOneMovedEvent"),
    "F4": ("FSEventsXlat", "FSEventsXlat_neg_F4.cfg", "Xlat_ReplicaMatches"),
    "view": ("FSEventsXlat", "FSEventsXlat_neg_view.cfg", "Xlat_ReplicaMatches"),
}
SEEDED = {"view": "the created+removed branch without its _fs_view.add / discard pair"}

def _frees_then_creates(tree, ops):
    """Does a later operation create an entry after an earlier one removed one (so that an inode number can be re-used)?"""
    freed = False
    for op in ops:
        if op[0] in ("mkfile", "mkdir", "movein") and freed:
            return True
        if op[0] == "delete":
            freed = True
    return False


def reuse_histories():
    """Item life cycles of 3-4 operations that end with an inode number being re-used, beyond the <= 2-operation
    histories of the quick tier: [create x] [write x] delete x, create y - every choice of x (a new entry or one of the
    start tree) and y.  With the verbose native variant (ItemCreated repeated on later records of an announced item) the
    delete arrives as the coalesced ItemCreated|[ItemModified|]ItemRemoved record that touches _fs_view."""
    out = []
    for ti, t0 in enumerate(START_TREES):
        firsts = [[]] + [[op] for op in enabled_ops(t0) if op[0] in ("mkfile", "mkdir") or (op[0] == "movein")]
        for first in firsts:
            t1 = apply_model(t0, first[0]) if first else t0
            x = (first[0][1] if first[0][0] != "movein" else first[0][2]) if first else None
            victims = [x] if first else [p for p in t1]
            for v in victims:
                mids = [[]] + ([[("write", v)]] if t1.get(v) == "f" else [])
                for mid in mids:
                    t2 = apply_model(t1, ("delete", v))
                    for last in enabled_ops(t2):
                        if last[0] in ("mkfile", "mkdir") or (last[0] == "movein" and last[1] != "t"):
                            out.append((ti, tuple(first + mid + [("delete", v), last])))
                # the entry leaves by a move out instead (its inode lives on elsewhere) and its path is taken again: by a
                # new entry, or by a rename / move in onto the old path
                if ("moveout", v) in enabled_ops(t1):
                    t2 = apply_model(t1, ("moveout", v))
                    for last in enabled_ops(t2):
                        dest = last[2] if last[0] in ("rename", "movein") else last[1] if last[0] in ("mkfile", "mkdir") else None
                        if dest == v:
                            out.append((ti, tuple(first + [("moveout", v), last])))
                        elif last[0] in ("mkfile", "mkdir") and len(last[1]) > 1:
                            t3 = apply_model(t2, last)
                            for last2 in enabled_ops(t3):
                                if last2[0] == "rename" and last2[1] == last[1] and last2[2] == v:
                                    out.append((ti, tuple(first + [("moveout", v), last, last2])))
    return out


def scenario_jobs(thorough):
    jobs = []
    maxops = 3 if thorough else 2
    seen = set()
    for ti, ops in histories(maxops):
        seen.add((ti, ops))
        for g in groupings(START_TREES[ti], ops):
            for layer in ("win", "fse"):
                for rec in (True, False):
                    jobs.append((layer, rec, ti, ops, g, False))
                    verbose = len(ops) <= (2 if thorough else 1) or (not thorough and all(x == 1 for x in g))
                    if verbose:
                        jobs.append((layer, rec, ti, ops, g, True))       # verbose native streams
                    if thorough and layer == "fse" and _frees_then_creates(START_TREES[ti], ops):
                        jobs.append((layer, rec, ti, ops, g, False, True))      # the freed inode number is re-used
                        if verbose:
                            jobs.append((layer, rec, ti, ops, g, True, True))
    n_reuse = 0
    for ti, ops in reuse_histories():
        if (ti, ops) in seen and thorough and len(ops) <= 2:
            continue
        n_reuse += 1
        n = len(ops)
        for g in groupings(START_TREES[ti], ops):
            if not thorough and g not in ((1,) * n, (n,), (1, n - 1)):
                continue                  # quick: one at a time / back to back / first delivered, rest back to back
            for rec in (True, False):
                for verbose in (False, True):
                    jobs.append(("fse", rec, ti, ops, g, verbose, True))
    return jobs, maxops


def describe(sc, detail):
    ops = " ; ".join(" ".join("/".join(x) if isinstance(x, (list, tuple)) else str(x) for x in o) for o in sc["ops"])
    nat = " | ".join(str(d["native"]) + " -> " + str(d["queued"]) for d in detail)
    return (f"{sc['layer']} {'recursive' if sc['rec'] else 'non-recursive'} start={sc['tree']} ops=[{ops}] "
            f"groups={sc['groups']} cuts={sc.get('cuts')} coal={sc.get('coal')}: {nat}")[:1500]


def run(c: checklib.Check):
    from concurrent.futures import ThreadPoolExecutor

    L = load_layers()
    c.note(f"modules under test imported from {loader.REPO_SRC} through shims (fake ctypes.WinDLL / _watchdog_fsevents); "
           f"shims removed: WinDLL={hasattr(ctypes, 'WinDLL')} fsevents={'_watchdog_fsevents' in sys.modules}; "
           f"sizeof(DWORD)={ctypes.sizeof(L.winapi.DWORD)}")

    # ---- 1. design specs (in the background while the scenarios run)
    tier = 2 if c.thorough else 1
    w = max(2, c.jobs // 4)

    def tlc_job(item):
        name, (mod, cfg) = item
        big = c.thorough and name in ("WinXlat", "FSEventsXlat@4")
        return name, cfg, tlc.run_tlc(mod, cfg, workers=max(w, c.jobs // 2) if big else w,
                                      coverage=not name.startswith("neg:"), timeout=1500, heap="8g")

    order = ["WinXlat", "FSEventsXlat@4", "FSEventsXlat+reuse", "FSEventsXlat", "Codec"]      # the largest models first
    items = [(n, (DESIGN_RUNS[n][0], DESIGN_RUNS[n][tier])) for n in order if DESIGN_RUNS[n][tier]] + \
            [("neg:" + f, (v[0], v[1])) for f, v in NEG_RUNS.items()]
    pool_t = ThreadPoolExecutor(max_workers=4)
    design_future = pool_t.map(tlc_job, items)

    # ---- 2. scenarios on the real emitters, 3. decoders (in worker processes: a decoder that runs off the buffer can
    #         take the interpreter down)
    scratch_parent()
    jobs, maxops = scenario_jobs(c.thorough)
    n_hist_jobs = len(jobs)
    nrand = 1500 if c.thorough else 150
    jobs += [("random", c.seed * 1000003 + i) for i in range(nrand)]
    cases = decoder_cases()
    jobs += [("decode", "codec-universe", cases[i: i + 600]) for i in range(0, len(cases), 600)]
    jobs.append(("decode", "bom", bom_cases()))
    nchunks = c.jobs * 16
    chunks = [jobs[i::nchunks] for i in range(nchunks)]
    parts = run_pool(chunks, c.jobs)
    recs, uniq = [], {}
    crashed = []
    for ch, part in zip(chunks, parts):
        if part is None:
            crashed.append(ch)
            continue
        recs += part[0]
        uniq.update(part[1])
    n_enum = sum(1 for r in recs if "ops" in r[0] and "seed" not in r[0])
    n_rand = sum(1 for r in recs if "seed" in r[0])
    c.note(f"scenarios: {n_hist_jobs} (history, delivery grouping, layer, recursive, verbose) jobs over histories of "
           f"<= {maxops} operations -> {n_enum} cut/coalescing variants; {nrand} random seeds -> {n_rand} long scenarios; "
           f"every one executed on a real scratch tree and fed to the real queue_events")
    c.note(f"decoders: {len(cases)} encoded buffers (all record sequences <= 3 records, names 0..4, paddings 0..3, two "
           f"formats) + {len(bom_cases())} BOM names through the real _parse_event_buffer functions")
    for ch in crashed:
        kinds = sorted({j[0] if j[0] in ("random", "decode") else j[0] + "-scenario" for j in ch})
        c.violation("P_C20_NoException",
                    f"a worker process DIED (no Python exception: the interpreter itself went down, e.g. a decoder reading "
                    f"far beyond the buffer) while running {len(ch)} jobs of kinds {kinds}; first job: {str(ch[0])[:300]}",
                    {"jobs": [str(j)[:300] for j in ch[:5]]}, signature="P_C20_NoException:crash:unexplained")

    # ---- 4. TLC validates every distinct canonical trace against XlatTrace.tla
    viols, stats, nuniq = validate(c, recs, uniq)
    c.add_trace_stats("XlatTrace", len(recs), stats)
    c.cov["states"] += stats["distinct"]
    c.cov["transitions"] += stats["generated"]
    c.cov["distinct_canonical_traces"] = nuniq

    by_sig = {}
    n_fail = 0
    for (sc, flags, key), vs in zip(recs, viols):
        if not vs:
            continue
        n_fail += 1
        for code in vs:
            if code.startswith("REJECTED"):
                sig, clause = "P_C20_Explainable:unexplained", "P_C20_Explainable"
            elif "decoder" in sc:
                clause = CLAUSES[code]
                sig = f"{clause}:decoder-{sc['decoder']}:unexplained"
            else:
                clause = CLAUSES[code]
                sig = signature(sc, flags, code)
            size = (len(sc.get("ops", [])), len(uniq[key]), sum(len(x) for x in sc.get("cuts") or []))
            cur = by_sig.get(sig)
            if cur is None:
                by_sig[sig] = {"n": 1, "size": size, "clause": clause, "sc": sc, "key": key, "flags": flags}
            else:
                cur["n"] += 1
                if size < cur["size"]:
                    cur.update(size=size, sc=sc, key=key, flags=flags)
    c.cov["failing_traces_by_signature"] = {k: v["n"] for k, v in sorted(by_sig.items())}
    c.note(f"trace validation: {len(recs)} traces ({nuniq} distinct canonical), {n_fail} with a failing clause; "
           f"signatures: " + json.dumps({k: v["n"] for k, v in sorted(by_sig.items())}))

    # unexplained signatures first (checklib prints the first five distinct ones); the reported scenario of each
    # signature is re-executed here to get its native batches and queued events for the replay file
    S = Scratch()
    try:
        rank = {f: i for i, f in enumerate(("W2", "F1", "F4", "F3", "F2"))}
        for sig in sorted(by_sig, key=lambda x: (0 if "unexplained" in x else 1, rank.get(x.split(":")[1], 9), x)):
            v = by_sig[sig]
            if "decoder" in v["sc"]:
                bad = [ln for ln in uniq[v["key"]] if ln["enc"] != ln["dec"]][:3]
                what = f"decoded records differ from the encoded ones in {v['n']} trace(s), e.g. {bad}"
                if v["sc"]["decoder"] == "bom":
                    what = "a Windows name with U+FEFF is not decoded as encoded (regression of dccf2bb?); " + what
                replay = {"decoder_lines": bad}
            else:
                lines, detail, _fl = run_scenario(L, S, v["sc"])
                fid = sig.split(":")[1]
                why = FINDINGS[fid][2] if fid in FINDINGS else "no recorded finding explains this scenario"
                what = f"{v['n']} scenario(s); {why}; smallest: {describe(v['sc'], detail)}"
                replay = {"c20_scenario": v["sc"], "flags": v["flags"], "native_and_queued": detail, "trace": lines,
                          "trace_spec": ["XlatTrace", "XlatTrace.cfg"], "clause": v["clause"]}
            if c.violation(v["clause"], what, replay, signature=sig):
                # checklib prints and stores only the first five signatures: store every one
                os.makedirs(checklib.REPLAY_DIR, exist_ok=True)
                name = "C20_" + "_".join(sig.split(":")[:2][::-1]) + ".json"
                with open(os.path.join(checklib.REPLAY_DIR, name), "w") as f:
                    json.dump({"property": "C20", "clause": v["clause"], "signature": sig, "what": what, "replay": replay},
                              f, indent=1, default=str)
                c.note(f"FINDING {sig} x{v['n']} replay=replays/{name}: {what[:500]}")
    finally:
        S.destroy()

    # ---- 5. design-spec results
    observed = {s.split(":")[1] for s in by_sig if s.split(":")[1] in FINDINGS}
    for name, cfg, r in design_future:
        c.add_tlc(f"{name}:{cfg}", r)
        if name.startswith("neg:"):
            fid = name[4:]
            want = NEG_RUNS[fid][2]
            if want not in r.violated:
                c.machinery_failure(f"{cfg}: the model does not reproduce finding {fid} (expected {want} violated, got "
                                    f"{r.violated} {r.errors[:2]})")
            how = (f"fixed in /repo by {FIXED[fid]}: the switch models the old code" if fid in FIXED else
                   f"a seeded mutant of the emitter ({SEEDED[fid]}): sensitivity of the model" if fid in SEEDED else
                   "also observed on the real emitter" if fid in observed else
                   "NOT observed on the real emitter: model drift")
            c.note(f"TLC {cfg}: {want} violated as expected (finding {fid}, {how}), {r.distinct} states, {r.wall:.1f}s")
            if fid not in observed and fid not in FIXED and fid not in SEEDED:
                c.cov["drift_traces"] += 1
        else:
            for act in DESIGN_RUNS[name][3]:
                if r.coverage.get(act, 0) == 0:
                    c.machinery_failure(f"vacuity: action {act} never taken in {cfg}")
            if not r.ok:
                c.machinery_failure(f"design spec {cfg} violated: {r.violated} {r.errors[:2]}")
            if name == "WinXlat":
                # spec -> code: the model's history universe is the one enumerated on the real emitters
                uni = tlc.find_tagged(r.output, "UNIVERSE")
                mine = {(len(t), len(enabled_ops(t)), sum(len(enabled_ops(apply_model(t, o))) for o in enabled_ops(t)))
                        for t in START_TREES}
                if not uni or set(uni[0][1]) != mine:
                    c.machinery_failure(f"history universe of the model {uni[:1]} differs from the enumerated one {mine}")
                c.note(f"history universe (entries, enabled operations, 2-operation histories per start tree) agrees "
                       f"between XlatCommon.tla and the Python enumeration: {sorted(mine)}")
            if name == "Codec":
                n_shapes = sum(20 ** k for k in range((3 if c.thorough else 2) + 1))
                if r.coverage.get("Init", 0) not in (0, 2 * n_shapes):
                    c.machinery_failure(f"Codec initial states {r.coverage.get('Init')} != 2 x {n_shapes} record shapes")
            c.note(f"TLC {cfg}: {r.generated} states generated, {r.distinct} distinct, depth {r.depth}, {r.wall:.1f}s")
    pool_t.shutdown()

    c.cov["evaluations"] += n_enum + n_rand + len(cases) + len(bom_cases())
    c.cov["distinct_nontrivial"] = nuniq
    c.cov["exhaustive"] = True
    c.cov["rule"] = (f"every history of <= {maxops} operations (create file/dir, write, recursive delete, rename, move out, "
                     "move in of a file / directory / directory tree, root removal last) over names {a,b}, depth 2, from 3 "
                     "start trees x every delivery grouping that respects the C01 pacing x Windows/FSEvents x recursive/"
                     f"non-recursive x every batch cut (streams <= {MAX_ALL_CUTS} events; longer: one batch, singletons, "
                     "every single cut) x every coalescing of adjacent same-item events; verbose native variants for the "
                     f"short histories; {nrand} seeded random histories of 8-24 operations over 4 names, depth 3 (clean and "
                     "unrestricted); every record sequence of the Codec universe for both decoders; distinct = distinct "
                     "canonical traces (adjacent feed lines merged)")
    S = Scratch()
    try:
        for want in ("win", "fse"):
            ex = next((r for r in recs if "ops" in r[0] and "seed" not in r[0] and len(r[0]["ops"]) == 2 and
                       r[0]["layer"] == want and (want == "win" or "coalesced" in r[1])), None)
            if ex:
                _lines, detail, _fl = run_scenario(L, S, ex[0])
                c.sample({"scenario": ex[0], "native_and_queued": detail})
    finally:
        S.destroy()
    dk = next((r[2] for r in recs if r[0].get("decoder") == "codec-universe"), None)
    if dk:
        c.sample({"decoder": uniq[dk][len(uniq[dk]) // 2]})
    c.assumptions += [
        "native streams are produced by the documented-semantics simulator of checks/c20.py, not by Windows / macOS",
        "LP64: FILE_NOTIFY_INFORMATION laid out with the module's own ctypes structure (DWORD = 8 bytes here); the cursor "
        "logic is checked, the Windows ABI field width is not",
        "FSEvents coalescing merges only ADJACENT events of one (inode, path); inode numbers are not reused inside a scenario",
        "'/' as path separator; str watch paths; fake kernel32 / _watchdog_fsevents implement only what queue_events reaches",
        "per-operation contract clauses are evaluated only for operations delivered one at a time (C03); back-to-back "
        "groups respect the C01 directory pacing and are judged by P_C20_ReplicaMatches",
    ]


def replay_main(path):
    """./check C20 --replay <file>: re-execute the recorded scenario on the real emitter and re-validate it."""
    d = json.load(open(path))
    rp = d.get("replay", {})
    print(f"replay of {d.get('property')} clause={d.get('clause')}: {d.get('what', '')[:600]}")
    if "c20_scenario" not in rp:
        print(json.dumps(rp, indent=1, default=str)[:4000])
        return 0
    L = load_layers()
    S = Scratch()
    try:
        lines, detail, flags = run_scenario(L, S, rp["c20_scenario"])
    finally:
        S.destroy()
    for dd in detail:
        print("  native", dd["native"], "->", dd["queued"])
    viols, _stats, _n = validate(None, [(rp["c20_scenario"], flags, "k")], {"k": canonical(lines)})
    names = [CLAUSES.get(x, x) for x in viols[0]]
    print("verdict:", names or "accepted")
    return 1 if names else 0


if __name__ == "__main__":
    if "--replay" in sys.argv:
        sys.exit(replay_main(sys.argv[sys.argv.index("--replay") + 1]))
    checklib.main_wrapper("C20", run)
