"""C20  Windows and macOS translation layers meet the same contract on well-formed input; raw buffers decode to
exactly the encoded records.

What runs
---------
1. TLC checks the implementation-shaped translation tables  spec/WinXlat.tla  (WindowsApiEmitter.queue_events)  and
   spec/FSEventsXlat.tla  (FSEventsEmitter.queue_events / queue_event / _is_recursive_event)  over an abstract file
   system (names {a,b}, depth 2, an outside area), all histories of <= 2 (quick) / <= 3 (thorough) operations rendered
   into native batches (all batch cuts, all FSEvents coalescings per item+path), and  spec/Codec.tla  (framing of the
   two binary buffers: Encode ; Decode = identity, termination, no read past the buffer).  The main configs restrict
   the environment to the part on which the code meets the contract; the *_neg_* configs switch the restrictions off
   one at a time and TLC must then FIND the defect the code traces show (model and code agree about the finding).
2. code -> spec.  The REAL emitters are imported on Linux through import shims that exist only while the modules are
   being imported (a fake `ctypes.WinDLL` whose kernel32 functions are Python callables, a fake `_watchdog_fsevents`
   module whose NativeEvent(path, inode, flags, id) derives every is_* property from the public
   kFSEventStreamEventFlag* bit values exactly as src/watchdog_fsevents.c does).  Every operation history is executed on
   a real scratch directory (both layers stat / isdir / walk the real tree while translating), rendered into native
   notification batches by the documented-semantics SIMULATOR below and fed to the real code:
     Windows:  fake ReadDirectoryChangesW fills the caller's buffer with FILE_NOTIFY_INFORMATION records (the module's
               own FileNotifyInformation layout) -> real read_directory_changes -> real _parse_event_buffer -> real
               WinAPINativeEvent -> real WindowsApiEmitter.queue_events; root removal = ReadDirectoryChangesW fails,
               fake GetFinalPathNameByHandleW reports another path -> real _generate_observed_path_deleted_event.
     FSEvents: real FSEventsEmitter.events_callback(paths, inodes, flags, ids) -> fake NativeEvent -> real queue_events.
   The events the emitter puts on its event queue are normalized ([type, kind, src, dst, is_synthetic], paths as name-id
   sequences relative to the watched root) and validated by TLC against spec/XlatTrace.tla, whose monitors are the
   clauses of C20:  P_C20_ReplicaMatches, P_C20_RenameContract, P_C20_MoveInOut, P_C20_FSEventsNonRecursive,
   P_C20_DecodeEqualsEncoded  (and P_C20_NoException: the translation of well-formed input must not raise).
3. decoders.  Every record sequence within the Codec bounds (<= 3 records, name lengths 0..4, paddings 0..3; ASCII and
   non-ASCII names incl. a surrogate pair for the UTF-16 Windows names) is encoded per inotify(7) (struct "iIII" header +
   name + NULs) for the real Inotify._parse_event_buffer and per the winapi module's own FileNotifyInformation layout
   for the real winapi._parse_event_buffer; the decoded records go to the P_C20_DecodeEqualsEncoded monitor.

Simulator semantics (what "documented OS semantics" means here)
---------------------------------------------------------------
ReadDirectoryChangesW: names relative to the watched root; create = ADDED; write = MODIFIED (once or twice); delete =
  REMOVED (a recursive delete = REMOVED for every entry, children first); rename inside ONE directory =
  RENAMED_OLD_NAME immediately followed by RENAMED_NEW_NAME; a move between two directories of the watched tree =
  REMOVED(old) + ADDED(new) (what NTFS reports and what upstream's tests/test_emitter.py::test_move expects on
  Windows); move out = REMOVED; move in = ADDED of the top entry only; optional MODIFIED of the parent directory of a
  changed entry ("verbose" variant); non-recursive (bWatchSubtree = FALSE): only entries directly in the root are
  reported; removal of the watched root = the pending REMOVED records, then a failing read = FILE_ACTION_REMOVED_SELF.
  A read returns any non-empty prefix of the pending records (arbitrary batch cuts).  A cut BETWEEN RENAMED_OLD_NAME
  and RENAMED_NEW_NAME is only produced in the scenario class `splitpair` (the API documentation does not promise
  that both records share a buffer; .NET's FileSystemWatcher handles the split explicitly).
FSEvents (kFSEventStreamCreateFlagFileEvents | WatchRoot | UseExtendedData): absolute real paths, one event per item
  with the item's inode: ItemCreated / ItemRemoved / ItemModified (+ ItemInodeMetaMod in the verbose variant) /
  ItemRenamed, each with ItemIsFile or ItemIsDir; a rename inside the tree = two ItemRenamed events (old path, new
  path) adjacent in the stream; move out / move in = ONE ItemRenamed event; only the top entry of a moved tree is
  reported; recursive delete = ItemRemoved per entry, children first; root removal = ItemRemoved of the root followed
  by an event with kFSEventStreamEventFlagRootChanged (no inode).  FSEvents is always recursive (the emitter filters).
  Coalescing: inside one callback batch ADJACENT events of the same (inode, path) may be merged (flags OR-ed): every
  maximal run of such events is partitioned into consecutive blocks in every way.  Events of one item+path that are
  separated by other events are NOT merged (where such a merged event would stand relative to the events in between is
  not documented; a simulator that guessed could raise unjustified alarms).  Batch cuts are arbitrary.
Delivery: `paced` = the native events of each operation are delivered (in every cut) before the next operation is
  issued (C03's "one at a time": the per-operation contract clauses are evaluated only here); `b2b` = a group of
  operations that respects the directory pacing condition of C01 (DESIGN section 7) is issued back to back and its
  native events are delivered afterwards (every cut / coalescing); only P_C20_ReplicaMatches (+ the non-recursive
  clause) is evaluated there.

Limits of the approach (stated)
-------------------------------
* The native streams come from the simulator above, not from Windows / macOS (the property says so itself).  If the
  simulator allows less than the OS, defects are missed; if it allowed more, a reported violation would be unjustified:
  every violation therefore carries the exact native batches in its replay file.
* LP64: ctypes.wintypes.DWORD is 8 bytes on this platform, so FILE_NOTIFY_INFORMATION buffers are laid out with the
  module's OWN FileNotifyInformation structure (header 24 bytes instead of 12).  The cursor logic (NextEntryOffset,
  FileNameLength, termination) is checked, the Windows ABI field width is not.
* Path separator is "/" (the emitter joins with os.path.join of this platform); Windows path semantics (case
  insensitivity, 8.3 names, "\\\\?\\" prefixes) are not exercised.  Watch paths are str (bytes roots: C19).
* inode numbers: macOS/APFS does not reuse an inode number while the stream runs; the driver keeps a descriptor open on
  every removed entry so that ext4 cannot reuse the number inside a scenario.
* The fake kernel32 / _watchdog_fsevents only implement what queue_events reaches; thread start-up, the CFRunLoop, the
  overlapped I/O of the real libraries are outside (C04-C07 cover the generic emitter life cycle).
* No replace-by-rename, links or permission faults in the histories; histories are bounded as stated in the evidence.
* "Never reads past the buffer" is checked on the Codec model; on the code only the decoded records are compared (a
  Python-level over-read of a bytes object cannot be observed without guard pages).
"""

from __future__ import annotations

import ctypes
import importlib
import itertools
import json
import logging
import multiprocessing as mp
import os
import random
import shutil
import struct
import sys
import tempfile
import types

sys.path.insert(0, os.path.dirname(os.path.dirname(os.path.abspath(__file__))))

from harness import checklib, loader, tlc  # noqa: E402

# --------------------------------------------------------------------------------------------------------------------
# import shims
# --------------------------------------------------------------------------------------------------------------------

# public FSEvents.h constants (CoreServices/FSEvents.h)
kRootChanged = 0x20
kItemCreated = 0x100
kItemRemoved = 0x200
kItemInodeMetaMod = 0x400
kItemRenamed = 0x800
kItemModified = 0x1000
kItemFinderInfoMod = 0x2000
kItemChangeOwner = 0x4000
kItemXattrMod = 0x8000
kItemIsFile = 0x10000
kItemIsDir = 0x20000
kItemIsSymlink = 0x40000

_FSE_FLAGS = {  # property name of src/watchdog_fsevents.c -> bit (FLAG_PROPERTY table, l.158-180)
    "must_scan_subdirs": 0x1, "is_user_dropped": 0x2, "is_kernel_dropped": 0x4, "is_event_ids_wrapped": 0x8,
    "is_history_done": 0x10, "is_root_changed": 0x20, "is_mount": 0x40, "is_unmount": 0x80,
    "is_created": 0x100, "is_removed": 0x200, "is_inode_meta_mod": 0x400, "is_renamed": 0x800,
    "is_modified": 0x1000, "is_item_finder_info_modified": 0x2000, "is_owner_change": 0x4000,
    "is_xattr_mod": 0x8000, "is_file": 0x10000, "is_directory": 0x20000, "is_symlink": 0x40000,
    "is_own_event": 0x80000, "is_hardlink": 0x100000, "is_last_hardlink": 0x200000, "is_cloned": 0x400000,
}


def make_fake_fsevents():
    m = types.ModuleType("_watchdog_fsevents")

    class NativeEvent:
        """Python transcription of the NativeEvent type of src/watchdog_fsevents.c."""

        __slots__ = ("path", "inode", "flags", "event_id")

        def __init__(self, path="", inode=None, flags=0, id=0):  # noqa: A002  (signature of the C type)
            self.path = path
            self.inode = inode
            self.flags = flags
            self.event_id = id

        @property
        def is_coalesced(self):
            masks = (kItemCreated | kItemRemoved, kItemCreated | kItemRenamed, kItemRemoved | kItemRenamed)
            return any((self.flags & k) == k for k in masks)

        def __repr__(self):
            return f'NativeEvent(path="{self.path}", inode={self.inode}, flags={self.flags:x}, id={self.event_id})'

    for name, bit in _FSE_FLAGS.items():
        setattr(NativeEvent, name, property(lambda self, _b=bit: bool(self.flags & _b)))
    m.NativeEvent = NativeEvent
    m.calls = []
    for fn in ("add_watch", "remove_watch", "read_events", "stop", "loop", "schedule", "unschedule"):
        setattr(m, fn, (lambda _n: (lambda *a, **k: m.calls.append(_n)))(fn))
    m._fake = True
    return m


class _FakeFn:
    """A kernel32 entry point: accepts restype/argtypes/errcheck assignments like a ctypes function pointer."""

    def __init__(self, dll, name):
        self._dll = dll
        self._name = name

    def __call__(self, *args):
        return getattr(self._dll, "do_" + self._name, self._dll.do_default)(*args)


class FakeKernel32:
    """Fake kernel32: ReadDirectoryChangesW is scripted by the driver (`script`: list of bytes | ("error", code))."""

    def __init__(self, name="kernel32"):
        self._fns = {}
        self.script = []
        self.final_path = None

    def __getattr__(self, name):
        if name.startswith("_") or name.startswith("do_"):
            raise AttributeError(name)
        fn = self._fns.get(name)
        if fn is None:
            fn = self._fns[name] = _FakeFn(self, name)
        return fn

    def do_default(self, *args):
        return 1

    def do_CreateFileW(self, *args):
        return 0x1234

    def do_ReadDirectoryChangesW(self, handle, buf, buflen, recursive, flags, nbytes, overlapped, routine):
        item = self.script.pop(0)
        if isinstance(item, tuple):
            e = OSError(f"[WinError {item[1]}] simulated")
            e.winerror = item[1]
            raise e
        assert len(item) <= buflen
        ctypes.memmove(buf._obj, item, len(item))
        nbytes._obj.value = len(item)
        return 1

    def do_GetFinalPathNameByHandleW(self, handle, buf, size, flags):
        buf.value = self.final_path if self.final_path is not None else ""
        return len(buf.value)


class Layers:
    pass


_layers = None


def load_layers():
    """Import the modules under test from loader.REPO_SRC with the shims installed only around the import."""
    global _layers
    if _layers is not None:
        return _layers
    src = loader.REPO_SRC
    if src not in sys.path:
        sys.path.insert(0, src)
    for k in [k for k in sys.modules if k == "watchdog" or k.startswith("watchdog.")]:
        del sys.modules[k]
    import ctypes.wintypes  # noqa: F401  (real module, imports on Linux)

    fake_fse = make_fake_fsevents()
    had_windll = hasattr(ctypes, "WinDLL")
    saved_fse = sys.modules.get("_watchdog_fsevents")
    if not had_windll:
        ctypes.WinDLL = FakeKernel32
    sys.modules["_watchdog_fsevents"] = fake_fse
    L = Layers()
    try:
        L.events = importlib.import_module("watchdog.events")
        L.api = importlib.import_module("watchdog.observers.api")
        L.winapi = importlib.import_module("watchdog.observers.winapi")
        L.rdc = importlib.import_module("watchdog.observers.read_directory_changes")
        L.fsevents = importlib.import_module("watchdog.observers.fsevents")
        L.inotify_c = importlib.import_module("watchdog.observers.inotify_c")
    finally:
        if not had_windll:
            del ctypes.WinDLL
        if saved_fse is None:
            sys.modules.pop("_watchdog_fsevents", None)
        else:
            sys.modules["_watchdog_fsevents"] = saved_fse
    for mod in (L.events, L.winapi, L.rdc, L.fsevents, L.inotify_c):
        if not os.path.realpath(mod.__file__).startswith(os.path.realpath(src)):
            raise RuntimeError(f"{mod.__name__} imported from {mod.__file__}, expected {src}")
    L.kernel32 = L.winapi.kernel32
    L.fake_fse = fake_fse
    if not isinstance(L.kernel32, FakeKernel32):
        raise RuntimeError("winapi.kernel32 is not the fake")
    # the FSEvents emitter swallows exceptions of its callback into its logger: capture them
    L.fse_errors = []

    class _H(logging.Handler):
        def emit(self, record):
            if record.exc_info:
                L.fse_errors.append(f"{record.getMessage()}: {record.exc_info[0].__name__}: {record.exc_info[1]}")

    L.fsevents.logger.addHandler(_H())
    L.fsevents.logger.propagate = False
    L.fsevents.logger.setLevel(logging.ERROR)
    _layers = L
    return L


# --------------------------------------------------------------------------------------------------------------------
# binary encoders (harness side, written from the format descriptions)
# --------------------------------------------------------------------------------------------------------------------


def win_encode(L, records, pads=None):
    """FILE_NOTIFY_INFORMATION chain with the module's own field layout: [NextEntryOffset][Action][FileNameLength]
    [FileName: UTF-16-LE, FileNameLength bytes][padding]; NextEntryOffset = 0 in the last record."""
    F = L.winapi.FileNotifyInformation
    dw = ctypes.sizeof(L.winapi.DWORD)
    hdr = F.FileName.offset
    assert (F.NextEntryOffset.offset, F.Action.offset, F.FileNameLength.offset, hdr) == (0, dw, 2 * dw, 3 * dw)
    out = b""
    for i, (action, name) in enumerate(records):
        nm = name.encode("utf-16-le")
        if pads is None:
            pad = (-(hdr + len(nm))) % dw
        else:
            pad = pads[i]
        size = hdr + len(nm) + pad
        nxt = 0 if i == len(records) - 1 else size
        out += nxt.to_bytes(dw, sys.byteorder) + action.to_bytes(dw, sys.byteorder) + len(nm).to_bytes(dw, sys.byteorder)
        out += nm + b"\0" * pad
    return out


def inotify_encode(records, pads):
    """inotify(7): struct inotify_event { int wd; uint32_t mask, cookie, len; char name[]; }; len counts the NULs."""
    out = b""
    for (wd, mask, cookie, name), pad in zip(records, pads):
        out += struct.pack("iIII", wd, mask, cookie, len(name) + pad) + name + b"\0" * pad
    return out


# --------------------------------------------------------------------------------------------------------------------
# the file-system driver + native-stream simulator
# --------------------------------------------------------------------------------------------------------------------

A_ADDED, A_REMOVED, A_MODIFIED, A_OLD, A_NEW, A_SELF = 1, 2, 3, 4, 5, 0xFFFE
NAMES = ("a", "b", "c", "d", "e", "f")
NAME_ID = {n: i + 1 for i, n in enumerate(NAMES)}
P_NONE = [0]      # the empty string (no path)
P_UNK = [99]      # a path that does not decompose into known names below the watched root

START_TREES = [
    {},
    {("a",): "d", ("a", "a"): "f", ("b",): "f"},
    {("a",): "d", ("a", "a"): "d", ("a", "b"): "f", ("b",): "d"},
]


def tree_json(tree):
    return [{"p": [NAME_ID[n] for n in p], "k": k} for p, k in sorted(tree.items())]


def enabled_ops(tree, names=("a", "b"), depth=2, with_root=False):
    """Operations enabled in the model tree (the same vocabulary as spec/WinXlat.tla / FSEventsXlat.tla)."""
    paths = [p for d in range(1, depth + 1) for p in itertools.product(names, repeat=d)]

    def parent_ok(p):
        return len(p) == 1 or tree.get(p[:-1]) == "d"

    def has_children(p):
        return any(len(q) > len(p) and q[: len(p)] == p for q in tree)

    ops = []
    for p in paths:
        if p not in tree and parent_ok(p):
            ops.append(("mkfile", p))
            ops.append(("mkdir", p))
            ops.append(("movein", "f", p))
            ops.append(("movein", "d", p))
            if len(p) < depth:
                ops.append(("movein", "t", p))
        if p in tree:
            if tree[p] == "f":
                ops.append(("write", p))
            ops.append(("delete", p))
            ops.append(("moveout", p))
            for q in paths:
                if q not in tree and parent_ok(q) and q[: len(p)] != p:
                    if has_children(p) and len(q) >= depth:
                        continue
                    ops.append(("rename", p, q))
    if with_root:
        ops.append(("rmroot",))
    return ops


def apply_model(tree, op):
    t = dict(tree)
    kind = op[0]

    def sub(p):
        return [q for q in t if q[: len(p)] == p]

    if kind == "mkfile":
        t[op[1]] = "f"
    elif kind == "mkdir":
        t[op[1]] = "d"
    elif kind in ("delete", "moveout"):
        for q in sub(op[1]):
            del t[q]
    elif kind == "rename":
        p, q = op[1], op[2]
        for x in sub(p):
            t[q + x[len(p):]] = t.pop(x)
    elif kind == "movein":
        k, q = op[1], op[2]
        t[q] = "f" if k == "f" else "d"
        if k == "t":
            t[q + ("a",)] = "f"
            t[q + ("b",)] = "d"
    elif kind == "rmroot":
        t.clear()
    return t


def shapes_dir(tree, op):
    """Is `op` a directory-shaping operation (C01 pacing)?  Returns (hot directory paths, hot names)."""
    kind = op[0]
    if kind == "mkdir":
        return [op[1]], [op[1]]
    if kind in ("delete", "moveout") and tree.get(op[1]) == "d":
        return [op[1]], [op[1]]
    if kind == "rename" and tree.get(op[1]) == "d":
        return [op[2]], [op[1], op[2]]
    if kind == "movein" and op[1] in ("d", "t"):
        return [op[2]], [op[2]]
    if kind == "rmroot":
        return [()], [()]
    return [], []


def pacing_ok(tree, ops):
    """C01 pacing inside one back-to-back group (DESIGN section 7, *Pacing*; = PacingOK / HotAfter of XlatCommon.tla).
    hot: one record per directory shaped in this group: [current path, names it has made hot]."""
    hot = []
    t = tree
    for op in ops:
        kind = op[0]
        if kind == "rmroot" and hot:
            return False                                      # removing the root touches the contents of hot directories
        touched = [op[1]] if kind in ("mkfile", "mkdir", "write", "delete", "moveout") else \
            [op[1], op[2]] if kind == "rename" else [op[2]] if kind == "movein" else []
        for d, _ns in hot:
            for p in touched:
                if len(p) > len(d) and p[: len(d)] == d:      # something BELOW a hot directory
                    return False
        if kind == "delete" and any(d == op[1] for d, _ in hot) and \
                any(len(q) > len(op[1]) and q[: len(op[1])] == op[1] for q in t):
            return False                                      # removing a hot directory needs to touch its contents
        new_names = [op[1]] if kind in ("mkfile", "mkdir") else [op[2]] if kind in ("rename", "movein") else []
        for p in new_names:
            for d, ns in hot:
                if p in ns and not (kind == "rename" and op[1] == d):
                    return False                              # onto a hot name (other than the hot directory coming back)
        if kind == "rename" and any(d == op[1] for d, _ in hot):
            hot = [[op[2], ns + [op[2]]] if d == op[1] else [d, ns] for d, ns in hot]
        else:
            d, n = shapes_dir(t, op)
            if d:
                hot.append([d[0], list(n)])
        t = apply_model(t, op)
    return True


class Scratch:
    """A real scratch directory: <base>/w is the watched root, <base>/o the outside area."""

    def __init__(self):
        # $TMPDIR if set; else tmpfs (/dev/shm: metadata operations are ~5x faster than on the ext4 /tmp); else /tmp
        base = os.environ.get("TMPDIR") or ("/dev/shm" if os.access("/dev/shm", os.W_OK | os.X_OK) else "/tmp")
        self.base = os.path.realpath(tempfile.mkdtemp(prefix="verif-c20-", dir=base))
        self.root = os.path.join(self.base, "w")
        self.out = os.path.join(self.base, "o")
        self.fds = []
        self.n_out = 0

    def reset(self, tree):
        self.close_fds()
        for d in (self.root, self.out):
            shutil.rmtree(d, ignore_errors=True)
            os.mkdir(d)
        for p, k in sorted(tree.items()):
            fp = self.path(p)
            if k == "d":
                os.mkdir(fp)
            else:
                with open(fp, "w"):
                    pass
        self.n_out = 0

    def path(self, p):
        return os.path.join(self.root, *p)

    def rel(self, p):
        return os.sep.join(p)

    def hold(self, fp):
        """Keep the inode alive (not reusable) after the entry is removed."""
        try:
            self.fds.append(os.open(fp, os.O_RDONLY | os.O_NOFOLLOW))
        except OSError:
            pass

    def close_fds(self):
        for fd in self.fds:
            try:
                os.close(fd)
            except OSError:
                pass
        self.fds = []

    def listing(self):
        out = {}
        if not os.path.isdir(self.root):
            return out
        n = len(self.root) + 1
        for dp, dns, fns in os.walk(self.root):
            for x in dns:
                out[tuple(os.path.join(dp, x)[n:].split(os.sep))] = "d"
            for x in fns:
                out[tuple(os.path.join(dp, x)[n:].split(os.sep))] = "f"
        return out

    def destroy(self):
        self.close_fds()
        shutil.rmtree(self.base, ignore_errors=True)


def post_order(fp):
    """Entries below directory fp, children first (the order a recursive delete removes them)."""
    out = []
    for dp, dns, fns in os.walk(fp, topdown=False):
        for x in sorted(fns):
            out.append((os.path.join(dp, x), "f"))
        for x in sorted(dns):
            out.append((os.path.join(dp, x), "d"))
    return out


def do_op(S, op, verbose=False):
    """Execute `op` on the real scratch tree.  Returns (win_events, fse_events, info):
    win_events: [(action, relative path tuple)] as a recursive ReadDirectoryChangesW watch reports them,
    fse_events: [(abs path, inode, flags)], info: fields of the trace's op line."""
    kind = op[0]
    win, fse = [], []
    info = {"op": kind, "src": P_NONE, "dst": P_NONE, "k": "f", "nat": "", "desc": []}

    def ids(p):
        return [NAME_ID[n] for n in p]

    def kflag(k):
        return kItemIsDir if k == "d" else kItemIsFile

    def parent_mod(p):
        if verbose and len(p) > 1:
            win.append((A_MODIFIED, p[:-1]))

    def rel_of(fp):
        return tuple(fp[len(S.root) + 1:].split(os.sep))

    def desc_of(fp):
        n = len(fp) + 1
        out = []
        for dp, dns, fns in os.walk(fp):
            for x in dns:
                out.append({"p": ids(tuple(os.path.join(dp, x)[n:].split(os.sep))), "k": "d"})
            for x in fns:
                out.append({"p": ids(tuple(os.path.join(dp, x)[n:].split(os.sep))), "k": "f"})
        return sorted(out, key=lambda r: r["p"])

    if kind in ("mkfile", "mkdir"):
        p = op[1]
        fp = S.path(p)
        k = "d" if kind == "mkdir" else "f"
        if k == "d":
            os.mkdir(fp)
        else:
            with open(fp, "x"):
                pass
        win.append((A_ADDED, p))
        parent_mod(p)
        fse.append((fp, os.lstat(fp).st_ino, kItemCreated | kflag(k)))
        info.update(src=ids(p), k=k)
    elif kind == "write":
        p = op[1]
        fp = S.path(p)
        with open(fp, "a") as f:
            f.write("x")
        win.append((A_MODIFIED, p))
        if verbose:
            win.append((A_MODIFIED, p))
        fse.append((fp, os.lstat(fp).st_ino, kItemModified | kItemIsFile | (kItemInodeMetaMod if verbose else 0)))
        info.update(src=ids(p))
    elif kind == "delete":
        p = op[1]
        fp = S.path(p)
        k = "d" if os.path.isdir(fp) else "f"
        victims = (post_order(fp) if k == "d" else []) + [(fp, k)]
        for vp, vk in victims:
            ino = os.lstat(vp).st_ino
            S.hold(vp)
            if vk == "d":
                os.rmdir(vp)
            else:
                os.unlink(vp)
            win.append((A_REMOVED, rel_of(vp)))
            fse.append((vp, ino, kItemRemoved | kflag(vk)))
        parent_mod(p)
        info.update(src=ids(p), k=k)
    elif kind == "rename":
        p, q = op[1], op[2]
        fp, fq = S.path(p), S.path(q)
        k = "d" if os.path.isdir(fp) else "f"
        ino = os.lstat(fp).st_ino
        assert not os.path.lexists(fq)
        os.rename(fp, fq)
        if p[:-1] == q[:-1]:
            win += [(A_OLD, p), (A_NEW, q)]
            parent_mod(p)
            nat = "pair"
        else:
            win += [(A_REMOVED, p)]
            parent_mod(p)
            win += [(A_ADDED, q)]
            parent_mod(q)
            nat = "split"
        fse += [(fp, ino, kItemRenamed | kflag(k)), (fq, ino, kItemRenamed | kflag(k))]
        info.update(src=ids(p), dst=ids(q), k=k, nat=nat, desc=desc_of(fq) if k == "d" else [])
    elif kind == "moveout":
        p = op[1]
        fp = S.path(p)
        k = "d" if os.path.isdir(fp) else "f"
        ino = os.lstat(fp).st_ino
        S.n_out += 1
        os.rename(fp, os.path.join(S.out, f"out{S.n_out}"))
        win.append((A_REMOVED, p))
        parent_mod(p)
        fse.append((fp, ino, kItemRenamed | kflag(k)))
        info.update(src=ids(p), k=k)
    elif kind == "movein":
        what, q = op[1], op[2]
        fq = S.path(q)
        S.n_out += 1
        src = os.path.join(S.out, f"in{S.n_out}")
        k = "f" if what == "f" else "d"
        if what == "f":
            with open(src, "x"):
                pass
        else:
            os.mkdir(src)
            if what == "t":
                with open(os.path.join(src, "a"), "x"):
                    pass
                os.mkdir(os.path.join(src, "b"))
        assert not os.path.lexists(fq)
        os.rename(src, fq)
        win.append((A_ADDED, q))
        parent_mod(q)
        fse.append((fq, os.lstat(fq).st_ino, kItemRenamed | kflag(k)))
        info.update(dst=ids(q), k=k, desc=desc_of(fq) if k == "d" else [])
    elif kind == "rmroot":
        ino_root = os.lstat(S.root).st_ino
        for vp, vk in post_order(S.root):
            ino = os.lstat(vp).st_ino
            S.hold(vp)
            if vk == "d":
                os.rmdir(vp)
            else:
                os.unlink(vp)
            win.append((A_REMOVED, rel_of(vp)))
            fse.append((vp, ino, kItemRemoved | kflag(vk)))
        S.hold(S.root)
        os.rmdir(S.root)
        win.append((A_SELF, ()))
        fse.append((S.root, ino_root, kItemRemoved | kItemIsDir))
        fse.append((S.root, None, kRootChanged))
        info.update(src=[], k="d")
    else:
        raise ValueError(op)
    return win, fse, info


def compositions(n, forbid=()):
    """All cuts of a stream of n events into consecutive non-empty batches, as tuples of batch lengths; a cut directly
    after position i (1-based) is skipped for i in `forbid`."""
    if n == 0:
        return [()]
    out = []
    for mask in range(1 << (n - 1)):
        if any(mask >> (i - 1) & 1 for i in forbid):
            continue
        lens, cur = [], 1
        for i in range(n - 1):
            if mask >> i & 1:
                lens.append(cur)
                cur = 1
            else:
                cur += 1
        lens.append(cur)
        out.append(tuple(lens))
    return out


def block_partitions(k):
    """All partitions of 0..k-1 into consecutive blocks."""
    return [c for c in compositions(k)]


def fse_coalescings(batch):
    """All coalescings of one callback batch: every maximal run of ADJACENT events of the same (inode, path) is
    partitioned into consecutive blocks in every way; a block becomes one event with the flags OR-ed.
    Index 0 = everything merged, last index = nothing merged."""
    runs = []
    for i, (path, ino, _fl) in enumerate(batch):
        if runs and ino is not None and batch[runs[-1][0]][0] == path and batch[runs[-1][0]][1] == ino:
            runs[-1].append(i)
        else:
            runs.append([i])
    multi = [r for r in runs if len(r) > 1]
    if not multi:
        return [list(batch)]
    out = []
    for choice in itertools.product(*[block_partitions(len(r)) for r in multi]):
        drop = set()
        flags = {i: batch[i][2] for i in range(len(batch))}
        for idx, lens in zip(multi, choice):
            pos = 0
            for ln in lens:
                blk = idx[pos: pos + ln]
                for j in blk[1:]:
                    flags[blk[0]] |= flags[j]
                    drop.add(j)
                pos += ln
        out.append([(batch[i][0], batch[i][1], flags[i]) for i in range(len(batch)) if i not in drop])
    return out


# --------------------------------------------------------------------------------------------------------------------
# feeding the real emitters
# --------------------------------------------------------------------------------------------------------------------


class _Sink:
    """Stands for the observer's event queue: records every (event, watch) the emitter puts."""

    def __init__(self):
        self.items = []

    def put(self, item, block=True, timeout=None):
        self.items.append(item)


def make_emitter(L, layer, root, recursive):
    sink = _Sink()
    watch = L.api.ObservedWatch(root, recursive=recursive)
    if layer == "win":
        em = L.rdc.WindowsApiEmitter(sink, watch, timeout=0.01)
        em.on_thread_start()           # real get_directory_handle -> fake CreateFileW
    else:
        em = L.fsevents.FSEventsEmitter(sink, watch, timeout=0.01)
        em.on_thread_start()
        import time as _t

        em._start_time = _t.monotonic()    # what run() does before add_watch
    return em, sink


def project_path(root, p):
    if isinstance(p, bytes):
        p = os.fsdecode(p)
    if p == "":
        return P_NONE
    if p == root:
        return []
    if not p.startswith(root + os.sep):
        return P_UNK
    parts = p[len(root) + 1:].split(os.sep)
    if any(x not in NAME_ID for x in parts):
        return P_UNK
    return [NAME_ID[x] for x in parts]


_TYPES = {"created": "created", "deleted": "deleted", "moved": "moved", "modified": "modified"}


def normalize(root, ev):
    return {"ty": _TYPES.get(ev.event_type, "other"), "k": "d" if ev.is_directory else "f",
            "src": project_path(root, ev.src_path), "dst": project_path(root, ev.dest_path) if ev.event_type == "moved"
            else P_NONE, "syn": bool(ev.is_synthetic), "cls": type(ev).__name__}


def feed(L, layer, em, sink, S, batch, recursive):
    """Feed one native batch to the real emitter; returns (normalized queued events, exception text or None)."""
    n0 = len(sink.items)
    err = None
    try:
        if layer == "win":
            if batch and batch[0][0] == A_SELF:
                L.kernel32.script.append(("error", 5))
                L.kernel32.final_path = "\\Device\\gone"
            else:
                recs = [(a, S.rel(p)) for a, p in batch]
                L.kernel32.script.append(win_encode(L, recs))
            em.queue_events(0.01)
        else:
            del L.fse_errors[:]
            em.events_callback([b[0] for b in batch], [b[1] for b in batch], [b[2] for b in batch],
                               list(range(1, len(batch) + 1)))
            if L.fse_errors:
                err = L.fse_errors[0]
    except Exception as e:  # noqa: BLE001
        err = f"{type(e).__name__}: {e}"
    finally:
        del L.kernel32.script[:]
    return [normalize(S.root, it[0]) for it in sink.items[n0:]], err


def win_visible(win, recursive):
    return [(a, p) for a, p in win if recursive or len(p) <= 1]


def run_scenario(L, S, sc, probe=False):
    """sc = {"layer", "rec", "tree": index or dict, "ops": [...], "groups": [n1, n2, ...] (ops per delivery group),
             "cuts": per group a tuple of batch lengths (None = one batch), "coal": per group per batch an index into
             fse_coalescings (None = 0 = everything merged ... the LAST index = nothing merged), "verbose": bool}.
    Returns (trace lines, detail for the replay file, flags); with probe=True only the native streams per group."""
    layer, rec = sc["layer"], sc["rec"]
    tree = START_TREES[sc["tree"]] if isinstance(sc["tree"], int) else sc["tree"]
    S.reset(tree)
    em, sink = make_emitter(L, layer, S.root, rec)
    lines = [{"e": "start", "layer": layer, "rec": rec, "tree": tree_json(S.listing())}]
    detail = []
    flags = set()
    streams = []
    ops = [tuple(o) for o in sc["ops"]]
    pos = 0
    for gi, gn in enumerate(sc["groups"]):
        stream = []
        paced = gn == 1
        for op in ops[pos: pos + gn]:
            op = tuple(tuple(x) if isinstance(x, list) else x for x in op)
            win, fse, info = do_op(S, op, sc.get("verbose", False))
            info["e"] = "op"
            info["paced"] = paced
            info["tree"] = tree_json(S.listing())
            lines.append(info)
            stream += win_visible(win, rec) if layer == "win" else fse
        pos += gn
        streams.append(stream)
        if probe:
            continue
        cuts = sc["cuts"][gi] if sc.get("cuts") and sc["cuts"][gi] is not None else ((len(stream),) if stream else ())
        at = 0
        for bi, ln in enumerate(cuts):
            batch = stream[at: at + ln]
            at += ln
            if layer == "fse":
                ci = sc["coal"][gi][bi] if sc.get("coal") and sc["coal"][gi] is not None else 0
                merged = fse_coalescings(batch)[ci]
                if len(merged) < len(batch):
                    flags.add("coalesced")
                if at < len(stream) and batch[-1][2] & kItemRenamed and stream[at][2] & kItemRenamed \
                        and stream[at][1] == batch[-1][1] and stream[at][0] != batch[-1][0]:
                    flags.add("splitpair")
                batch = merged
            elif at < len(stream) and batch[-1][0] == A_OLD:
                flags.add("splitpair")
            if layer == "win" and any(a == A_SELF for a, _ in batch) and len(batch) > 1:
                i = [a for a, _ in batch].index(A_SELF)          # the failing read is a read of its own
                parts = [batch[:i], batch[i: i + 1]]
            else:
                parts = [batch]
            for part in parts:
                if not part:
                    continue
                evs, err = feed(L, layer, em, sink, S, part, rec)
                lines.append({"e": "feed", "evs": evs})
                detail.append({"native": [list(x) for x in part],
                               "queued": [f"{e['cls']}({e['src']},{e['dst']},syn={e['syn']})" for e in evs]})
                if err:
                    lines.append({"e": "exc", "what": err[:200]})
        assert at == len(stream), (at, len(stream), cuts)
    if probe:
        return streams
    lines.append({"e": "end", "stopped": not em.should_keep_running()})
    return lines, detail, sorted(flags)


# --------------------------------------------------------------------------------------------------------------------
# scenario enumeration
# --------------------------------------------------------------------------------------------------------------------

MAX_ALL_CUTS = 6


def cut_family(n):
    """All cuts for short streams; for longer ones: one batch, all singletons, every single cut position."""
    if n <= MAX_ALL_CUTS:
        return compositions(n)
    fam = {(n,), tuple([1] * n)}
    for i in range(1, n):
        fam.add((i, n - i))
    return sorted(fam)


def histories(maxops, with_root=True):
    """All (tree index, ops) with 1..maxops operations over names {a,b}, depth 2; rmroot only as the last operation."""
    out = []
    for ti, t0 in enumerate(START_TREES):
        def rec(tree, ops):
            if ops:
                out.append((ti, tuple(ops)))
            if len(ops) >= maxops or (ops and ops[-1][0] == "rmroot"):
                return
            for op in enabled_ops(tree, with_root=with_root):
                rec(apply_model(tree, op), ops + [op])
        rec(t0, [])
    return out


def groupings(tree, ops):
    """Delivery groupings of a history: every composition of len(ops) whose groups of >= 2 operations respect the
    pacing condition of C01."""
    out = []
    for comp in compositions(len(ops)):
        t = tree
        pos = 0
        ok = True
        for gn in comp:
            grp = ops[pos: pos + gn]
            if gn > 1 and not pacing_ok(t, grp):
                ok = False
                break
            for op in grp:
                t = apply_model(t, op)
            pos += gn
        if ok:
            out.append(comp)
    return out


def expand_job(L, S, job):
    """job = (layer, rec, tree, ops, groups, verbose): run every cut / coalescing variant; returns list of
    (scenario dict, lines, detail, flags)."""
    layer, rec, tree, ops, groups, verbose = job
    base = {"layer": layer, "rec": rec, "tree": tree, "ops": [list(o) for o in ops], "groups": list(groups),
            "verbose": verbose}
    streams = run_scenario(L, S, base, probe=True)
    per_group = []
    for stream in streams:
        variants = []
        for cuts in (cut_family(len(stream)) if stream else [()]):
            if layer == "fse":
                at = 0
                counts = []
                for ln in cuts:
                    counts.append(len(fse_coalescings(stream[at: at + ln])))
                    at += ln
                for coal in itertools.product(*[range(n) for n in counts]):
                    variants.append((cuts, list(coal)))
            else:
                variants.append((cuts, None))
        per_group.append(variants)
    out = []
    for combo in itertools.product(*per_group):
        sc = dict(base)
        sc["cuts"] = [list(c[0]) for c in combo]
        sc["coal"] = [c[1] for c in combo]
        lines, detail, flags = run_scenario(L, S, sc)
        out.append((sc, lines, detail, flags))
    return out


def _worker(jobs):
    L = load_layers()
    S = Scratch()
    out = []
    try:
        for job in jobs:
            if job[0] == "random":
                out.extend(random_job(L, S, job[1]))
            else:
                out.extend(expand_job(L, S, job))
    finally:
        S.destroy()
    return out


def random_job(L, S, seed):
    """One random longer history (names a..d, depth 3, 8-24 operations), random delivery groups respecting the pacing
    condition, random cuts and coalescings; both layers, recursive and not."""
    rng = random.Random(seed)
    names = NAMES[:4]
    tree = {}
    ops = []
    groups = []
    n = rng.randint(8, 24)
    t = dict(tree)
    while len(ops) < n:
        gn = rng.choice([1, 1, 2, 3, 4])
        grp = []
        tt = t
        for _ in range(gn):
            cand = enabled_ops(tt, names=names, depth=3)
            rng.shuffle(cand)
            for op in cand:
                if pacing_ok(t, grp + [op]):
                    grp.append(op)
                    tt = apply_model(tt, op)
                    break
        if not grp:
            break
        ops += grp
        groups.append(len(grp))
        t = tt
    out = []
    for layer in ("win", "fse"):
        for rec in (True, False):
            base = {"layer": layer, "rec": rec, "tree": tree, "ops": [list(o) for o in ops], "groups": groups,
                    "verbose": rng.random() < 0.5, "seed": seed}
            streams = run_scenario(L, S, base, probe=True)
            cuts, coal = [], []
            for stream in streams:
                c = rng.choice(cut_family(len(stream))) if stream else ()
                cuts.append(list(c))
                if layer == "fse":
                    at = 0
                    cc = []
                    for ln in c:
                        cc.append(rng.randrange(len(fse_coalescings(stream[at: at + ln]))))
                        at += ln
                    coal.append(cc)
                else:
                    coal.append(None)
            sc = dict(base)
            sc["cuts"], sc["coal"] = cuts, coal
            lines, detail, flags = run_scenario(L, S, sc)
            out.append((sc, lines, detail, flags))
    return out


# --------------------------------------------------------------------------------------------------------------------
# genuine defects found on the unchanged tree: scenario features that PREDICT them (from the scenario alone, never
# from the emitter's output).  A failing clause of a scenario is reported under the finding's signature only if the
# scenario has the finding's feature and the clause is one the finding explains; everything else is "unexplained".
# --------------------------------------------------------------------------------------------------------------------

FINDINGS = {
    "W1": ("win-rename-pair-split-across-reads", {"R", "N"},
           "RENAMED_OLD_NAME is the last record of one ReadDirectoryChangesW buffer and RENAMED_NEW_NAME the first of the "
           "next: queue_events() forgets the source (local variable reset per call) and queues Moved('' -> new)"),
    "W2": ("win-stale-isdir-at-translation-time", {"R"},
           "an ADDED / RENAMED_NEW_NAME record is translated after its path changed again (back to back, e.g. a directory "
           "created or moved in and immediately renamed): os.path.isdir(path) answers for another moment, a directory is "
           "announced as FileCreatedEvent and the following DirMovedEvent carries a file"),
    "F1": ("fse-nonrecursive-drops-child-directory-events", {"R", "M"},
           "non-recursive FSEvents watch: _is_recursive_event() compares the directory's OWN path with the watch path, so "
           "created / deleted / moved-away events of directories directly in the root are dropped"),
    "F2": ("fse-nonrecursive-moved-event-names-deep-path", {"F"},
           "non-recursive FSEvents watch: a rename between the root and a sub-directory is queued as a moved event whose "
           "other path lies below the root's direct children"),
    "F3": ("fse-rename-pair-split-across-batches", {"N"},
           "the two ItemRenamed events of one rename arrive in different callback batches: deleted + created instead of "
           "one moved event"),
    "F4": ("fse-renamed-flag-ambiguity-back-to-back", {"R"},
           "one item is renamed / moved more than once before the batch is translated: the emitter pairs an ItemRenamed "
           "event with the NEXT ItemRenamed event of the same inode, whatever it means"),
}


def predict(sc, flags):
    """Finding ids whose feature the scenario has."""
    layer, rec = sc["layer"], sc["rec"]
    tree = dict(START_TREES[sc["tree"]] if isinstance(sc["tree"], int) else sc["tree"])
    ops = [tuple(tuple(x) if isinstance(x, list) else x for x in o) for o in sc["ops"]]
    out = set()
    if "splitpair" in flags:
        out.add("W1" if layer == "win" else "F3")
    pos = 0
    t = tree
    for gn in sc["groups"]:
        grp = ops[pos: pos + gn]
        pos += gn
        states = [t]
        for op in grp:
            states.append(apply_model(states[-1], op))
        end = states[-1]
        ident = {}      # current path -> item id, to follow items through the group
        nxt = [0]

        def item(p):
            if p not in ident:
                nxt[0] += 1
                ident[p] = nxt[0]
            return ident[p]

        ren_count = {}
        for i, op in enumerate(grp):
            before = states[i]
            kind = op[0]
            if layer == "fse" and not rec:
                subj = op[1] if kind in ("mkdir", "delete", "moveout", "rename") else op[2] if kind == "movein" else None
                isdir = kind == "mkdir" or (kind == "movein" and op[1] in ("d", "t")) or \
                    (kind in ("delete", "moveout", "rename") and before.get(op[1]) == "d")
                if kind == "rmroot":
                    if any(len(p) == 1 and k == "d" for p, k in before.items()):
                        out.add("F1")
                elif isdir and kind != "rename" and len(subj) == 1:
                    out.add("F1")
                elif isdir and kind == "rename" and ((len(op[1]) == 1 and len(op[2]) > 1) or
                                                     ("splitpair" in flags and 1 in (len(op[1]), len(op[2])))):
                    out.add("F1")
                if kind == "rename" and (len(op[1]) == 1) != (len(op[2]) == 1):
                    out.add("F2")
            if gn > 1 and layer == "win":
                # W2: the path of an ADDED / RENAMED_NEW_NAME record answers os.path.isdir() differently when the
                # group's records are translated (after the group) than right after the operation
                p = op[1] if kind in ("mkfile", "mkdir") else op[2] if kind in ("movein", "rename") else None
                if p is not None and (rec or len(p) == 1) and \
                        (states[i + 1].get(p) == "d") != (end.get(p) == "d"):
                    out.add("W2")
            if gn > 1 and layer == "fse":
                if kind in ("rename", "moveout"):
                    it = ident.pop(op[1], None) or item(("anon", i))
                    ren_count[it] = ren_count.get(it, 0) + 1
                    src = op[1]
                    if kind == "rename":
                        dst = op[2]
                        ident[dst] = it
                        for p in [p for p in ident if p != dst and p[: len(src)] == src]:
                            ident[dst + p[len(src):]] = ident.pop(p)
                elif kind == "movein":
                    it = item(op[2])
                    ren_count[it] = ren_count.get(it, 0) + 1
                elif kind in ("mkfile", "mkdir"):
                    item(op[1])
                elif kind == "delete":
                    for p in [p for p in ident if p[: len(op[1])] == op[1]]:
                        del ident[p]
        if layer == "fse" and any(n >= 2 for n in ren_count.values()):
            out.add("F4")
        t = end
    return out


def signature(sc, flags, clause):
    for fid in sorted(predict(sc, flags)):
        name, clauses, _ = FINDINGS[fid]
        if clause in clauses:
            return f"{CLAUSES[clause]}:{fid}:{name}"
    return f"{CLAUSES[clause]}:{sc['layer']}:unexplained"


CLAUSES = {"R": "P_C20_ReplicaMatches", "N": "P_C20_RenameContract", "M": "P_C20_MoveInOut",
           "F": "P_C20_FSEventsNonRecursive", "X": "P_C20_NoException", "D": "P_C20_DecodeEqualsEncoded"}


def canonical(lines):
    """Trace as sent to TLC: adjacent feed lines merged (the monitors only see the concatenation), display-only
    fields dropped.  Many cut variants of one history collapse to the same canonical trace."""
    out = []
    for ln in lines:
        if ln["e"] == "feed":
            evs = [{k: v for k, v in e.items() if k != "cls"} for e in ln["evs"]]
            if out and out[-1]["e"] == "feed":
                out[-1]["evs"] += evs
            else:
                out.append({"e": "feed", "evs": evs})
        elif ln["e"] == "exc":
            out.append({"e": "exc"})
        else:
            out.append(ln)
    return out


def validate(c, results, heap="3g"):
    """results: list of (scenario, lines, detail, flags).  Returns per result the sorted list of failing clause codes
    (None-entry 'REJECTED' if the trace spec could not consume the trace)."""
    index, uniq, keys = [], [], {}
    for _sc, lines, _d, _f in results:
        can = canonical(lines)
        k = json.dumps(can, sort_keys=True)
        if k not in keys:
            keys[k] = len(uniq)
            uniq.append(can)
        index.append(keys[k])
    jobs = c.jobs if c is not None else 16
    chunk = max(200, len(uniq) // (jobs * 2) + 1)
    verdicts, stats = tlc.validate_traces("XlatTrace", "XlatTrace.cfg", uniq, chunk=chunk, parallel=jobs, heap=heap,
                                          dfs_queue=False)
    out = []
    for i in index:
        v = verdicts[i]
        if v["accepted"]:
            out.append([])
        elif v["viol"]:
            out.append(list(v["viol"]))
        else:
            out.append(["REJECTED@%d" % v["furthest"]])
    return out, stats, len(uniq)
