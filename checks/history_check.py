"""Pure model of the tree + the pacing condition of C01 (mirror of FsKernel.PacingOK), used to (a) assert that every
generated history is valid and paced before it is executed and (b) shrink failing histories (tools/reduce.py)."""


def simulate(start, outside, ops, paced=True):
    """Returns (reason, T, O): reason None if the history is executable (and, if paced, respects the pacing condition);
    T / O = the trees after the history (only meaningful when reason is None)."""
    T = {tuple(p.split("/")): ("dir" if k == "d" else "file") for p, k in start}
    O = {tuple(p.split("/")): ("dir" if k == "d" else "file") for p, k in outside}
    hotD = set()
    hotN = {}        # path -> set of owner ids (0: made hot by a removal); only the owner itself may move onto it
    hot_out = set()  # outside paths of directories that left the tree since the last drain (they are still 'hot')
    ident = {}       # (top, path) -> id of the directory (travels with renames)
    nid = [0]

    def idof(top, p):
        if (top, p) not in ident:
            nid[0] += 1
            ident[(top, p)] = nid[0]
        return ident[(top, p)]

    def hot(p, owner):
        hotN.setdefault(p, set()).add(owner)

    def below_hot(p):  # a hot directory is p itself or an ancestor of p
        return any(p[: len(h)] == h for h in hotD)

    def sub(tree, p):
        return [q for q in tree if q[: len(p)] == p and q != p]

    def isdir(tree, p):
        return p == () or tree.get(p) == "dir"

    for n, op in enumerate(ops):
        k = op[0]
        where = f"op {n} {op}"
        if k == "poll":
            continue
        if k in ("drain", "probe"):
            hotD.clear()
            hotN.clear()
            hot_out.clear()
            continue
        if k in ("mkdir", "creat"):
            p = tuple(op[1].split("/"))
            if p in T or not isdir(T, p[:-1]):
                return (where + ": target exists / parent missing", T, O)
            if paced and (below_hot(p[:-1]) or p in hotN):
                return (where + ": pacing (create below a hot directory / onto a hot name)", T, O)
            T[p] = "dir" if k == "mkdir" else "file"
            if k == "mkdir":
                hotD.add(p)
                hot(p, idof("R", p))
        elif k == "makedirs":
            p = tuple(op[1].split("/"))
            new = [p[:i] for i in range(1, len(p) + 1) if p[:i] not in T]
            if not new or any(T.get(p[:i], "dir") != "dir" for i in range(1, len(p))):
                return (where + ": nothing to create / a component is a file", T, O)
            first = new[0]
            if paced and (below_hot(first[:-1]) or first in hotN):
                return (where + ": pacing", T, O)
            for q in new:
                T[q] = "dir"
                hotD.add(q)
                hot(q, idof("R", q))
        elif k in ("write", "chmod", "unlink", "rmdir", "rmtree", "read"):
            p = tuple(op[1].split("/"))
            if p not in T:
                return (where + ": no such entry", T, O)
            if k in ("write", "unlink", "read") and T[p] != "file":
                return (where + ": not a file", T, O)
            if k in ("rmdir", "rmtree") and T[p] != "dir":
                return (where + ": not a directory", T, O)
            if k == "rmdir" and sub(T, p):
                return (where + ": directory not empty", T, O)
            if k == "rmtree" and not sub(T, p):
                return (where + ": (rmtree of an empty directory is rmdir)", T, O)
            if paced and below_hot(p[:-1]):
                return (where + ": pacing (entry below a hot directory)", T, O)
            if k == "rmtree":
                if paced and any(below_hot(q[:-1]) for q in sub(T, p)):
                    return (where + ": pacing (contents of a hot directory)", T, O)
                for q in sub(T, p) + [p]:
                    del T[q]
                    hotD.discard(q)
                    ident.pop(("R", q), None)
                hot(p, 0)
            elif k in ("unlink", "rmdir"):
                del T[p]
                if k == "rmdir":
                    hotD.discard(p)
                    ident.pop(("R", p), None)
                    hot(p, 0)
        elif k in ("rename", "moveout", "movein"):
            st, dt = (T, T) if k == "rename" else ((T, O) if k == "moveout" else (O, T))
            s, d = tuple(op[1].split("/")), tuple(op[2].split("/"))
            if s not in st or not isdir(dt, d[:-1]) or d[: len(s)] == s and st is dt:
                return (where + ": source missing / destination parent missing / into itself", T, O)
            kind = st[s]
            if d in dt:
                if dt[d] != kind or sub(dt, d):
                    return (where + ": cannot replace (kind differs or directory not empty)", T, O)
            if paced:
                if st is T and below_hot(s[:-1]):
                    return (where + ": pacing (source below a hot directory)", T, O)
                if dt is T and below_hot(d[:-1]):
                    return (where + ": pacing (destination below a hot directory)", T, O)
                if dt is T and d in hotN and (kind != "dir" or hotN[d] != {idof("R" if st is T else "O", s)}):
                    return (where + ": pacing (onto a name made hot by another directory / a removal)", T, O)
                if dt is T and d in T and below_hot(d[:-1]):
                    return (where + ": pacing (victim below a hot directory)", T, O)
            moved = {q: st[q] for q in [s] + sub(st, s)}
            stn, dtn = ("R" if st is T else "O"), ("R" if dt is T else "O")
            ids = {q: ident.pop((stn, q)) for q in moved if (stn, q) in ident}
            for q in [d] + sub(dt, d):
                ident.pop((dtn, q), None)
            for q, i_ in ids.items():
                ident[(dtn, d + q[len(s):])] = i_
            for q in moved:
                del st[q]
            for q in [d] + sub(dt, d):
                dt.pop(q, None)
                if dt is T:
                    hotD.discard(q)
            for q, kk in moved.items():
                dt[d + q[len(s):]] = kk
            # hot directories travel with their ancestors
            if st is T:
                trav = {h for h in hotD if h[: len(s)] == s}
                hotD.difference_update(trav)
                if dt is T:
                    hotD.update(d + h[len(s):] for h in trav)
            if kind == "dir":
                me = idof(dtn, d)
                if st is T:
                    hot(s, me)
                if dt is T:
                    hotD.add(d)
                    hot(d, me)
        elif k in ("owrite", "ocreat", "omkdir", "ounlink", "ormdir", "ormtree", "rmroot"):
            continue
        else:
            return (where + ": unknown operation", T, O)
    return (None, T, O)


def check_history(start, outside, ops, paced=True):
    return simulate(start, outside, ops, paced)[0]
