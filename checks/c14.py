"""C14  Synthetic events for a moved / newly arrived directory name every descendant once and correctly.

1. TLC checks SubEvents.tla: every tree below dst over {r,x,y} (depth <= 4, bounded node count) x (src, dst) pairs;
   the laws C14_* on the intended (prefix-rewrite) functions, and the theorem that the code's textual rewrite
   (Dev_TextualReplace = str.replace on the '/'-joined form) deviates exactly when the destination string re-occurs.
   SubEvents_neg_D4.cfg must be refuted; its witness is replayed on the real code (spec -> code).
2. The same universe is re-enumerated here (the count is compared with TLC's), every case is materialised on disk in
   a scratch directory, the REAL generate_sub_moved_events / generate_sub_created_events are called with absolute and
   relative, str and bytes arguments, the results are projected byte-exactly to name sequences and validated by TLC
   against SubEventsTrace.tla, whose monitors P_C14_* are the laws of the property text (code -> spec).
   Extra universes: names that are textual extensions of each other (y, yy, xy), a scratch root whose own components
   re-occur below the destination (absolute re-occurrence), random larger trees.
"""

from __future__ import annotations

import json
import multiprocessing as mp
import os
import random
import shutil
import sys
import tempfile

sys.path.insert(0, os.path.dirname(os.path.dirname(os.path.abspath(__file__))))

from harness import checklib, loader, tlc  # noqa: E402

CLAUSES = ("P_C14_OnePerDescendant", "P_C14_DestIsRealPath", "P_C14_SourceIsOldPrefixPlusSameRelativePath",
           "P_C14_Flavour", "P_C14_ParentBeforeChild", "P_C14_AllSynthetic")
# "-slash": both directory arguments are spelled with a trailing separator (a spelling the generators handle)
MODES = ("rel-str", "rel-bytes", "abs-str", "abs-bytes", "rel-str-slash", "abs-bytes-slash")
CLS = {"DirMovedEvent": "DirMoved", "FileMovedEvent": "FileMoved", "DirCreatedEvent": "DirCreated",
       "FileCreatedEvent": "FileCreated"}


def events_module():
    """watchdog.events of the tree under test (loader.REPO_SRC = $WATCHDOG_SRC or /repo/src), imported plainly."""
    if loader.REPO_SRC not in sys.path:
        sys.path.insert(0, loader.REPO_SRC)
    import watchdog.events as ev

    src = os.path.realpath(ev.__file__)
    if not src.startswith(os.path.realpath(loader.REPO_SRC) + os.sep):
        raise RuntimeError(f"watchdog imported from {src}, expected {loader.REPO_SRC}")
    return ev


# ----------------------------------------------------------------------------- universes (mirrors SubEvents.tla)


def subtrees(names, maxdepth, maxnodes):
    """Every prefix-closed set of (relative path, kind) over `names`, as sorted tuples; inner nodes are directories."""
    seen = {frozenset()}
    frontier = [frozenset()]
    while frontier:
        nxt = []
        for t in frontier:
            if len(t) >= maxnodes:
                continue
            paths = {p for p, _ in t}
            for par in [()] + [p for p, k in t if k == "d"]:
                if len(par) >= maxdepth:
                    continue
                for n in names:
                    p = par + (n,)
                    if p in paths:
                        continue
                    for k in "df":
                        t2 = t | {(p, k)}
                        if t2 not in seen:
                            seen.add(t2)
                            nxt.append(t2)
        frontier = nxt
    return sorted(tuple(sorted(t)) for t in seen)


def seqs12(names):
    return [(a,) for a in names] + [(a, b) for a in names for b in names]


def is_prefix(a, b):
    return len(a) <= len(b) and b[: len(a)] == a


def pairs_all():
    s = seqs12(("r", "x", "y"))
    return [(a, b) for a in s for b in s if not is_prefix(a, b) and not is_prefix(b, a)] + [((), ("r", "y"))]


PAIRS_QUICK = [(("r", "x"), ("r", "y")), (("x",), ("y",)), (("y", "x"), ("y", "y")), (("x", "y"), ("r", "y")),
               (("r", "y"), ("y",)), (("y",), ("r", "y")), (("r", "r"), ("r", "y")), (("x", "x"), ("y", "r")),
               ((), ("r", "y"))]
# names that extend each other textually: "r/y" re-occurs inside "r/yy", "y" inside "xy"
PAIRS_EXT = [(("r", "x"), ("r", "y")), (("x",), ("y",)), (("y",), ("yy",)), (("yy",), ("y",)), (("r", "xy"), ("r", "y")),
             (("xy",), ("r", "y"))]


# ----------------------------------------------------------------------------- running the real code on one batch


class _Proj:
    """Byte-exact projection of result paths to name sequences."""

    def __init__(self, root, names):
        self.root = root  # absolute scratch root, str, no trailing separator
        self.names = names  # {real component (str): id}
        self.bnames = {os.fsencode(k): v for k, v in names.items()}

    def path(self, p, mode):
        absolute, kind = mode.split("-")[:2]
        if isinstance(p, (str, bytes)) and len(p) == 0:
            return []  # the empty path ("" is also what a bytes caller gets for "no path")
        if kind == "str":
            if type(p) is not str:
                return ["?"]
            sep, names, root = os.sep, self.names, self.root
        else:
            if type(p) is not bytes:
                return ["?"]
            sep, names, root = os.fsencode(os.sep), self.bnames, os.fsencode(self.root)
        if absolute == "abs":
            if not p.startswith(root + sep):
                return ["?"]
            p = p[len(root) + 1:]
        elif p.startswith(sep):
            return ["?"]
        return [names.get(comp, "?") for comp in p.split(sep)]


def _spell(root, seq, mode, real):
    """The argument string for the name sequence `seq` (ids -> real components through `real`)."""
    if not seq:
        s = ""
    else:
        s = os.sep.join(real[n] for n in seq)
        if mode.startswith("abs"):
            s = os.path.join(root, s)
        if mode.endswith("-slash"):
            s += os.sep
    return os.fsencode(s) if "-bytes" in mode else s


def _materialise(root, dst, tree, real):
    top = os.path.join(root, *[real[n] for n in dst])
    os.makedirs(top)
    for p, k in sorted(tree, key=lambda m: len(m[0])):
        full = os.path.join(top, *[real[n] for n in p])
        if k == "d":
            os.mkdir(full)
        else:
            open(full, "w").close()
    return top


def _run_group(ev, root, dst, tree, srcs, real, modes=MODES):
    """One tree on disk below `dst`; all sources, all modes.  Returns case lines (identical projections merged)."""
    names = {v: k for k, v in real.items()}
    proj = _Proj(root, names)
    _materialise(root, dst, tree, real)
    try:
        tline = [{"p": list(dst + p), "k": k} for p, k in tree]
        out = []

        def collect(kind, src, call):
            byproj = {}
            for mode in modes:
                evs = call(mode)
                pe = []
                for e in evs:
                    cls = CLS.get(type(e).__name__, "?" + type(e).__name__)
                    if kind == "moved":
                        s, d = proj.path(e.src_path, mode), proj.path(e.dest_path, mode)
                    else:  # the path a created event names is its src_path
                        s, d = proj.path(e.dest_path, mode), proj.path(e.src_path, mode)
                    pe.append({"cls": cls, "src": s, "dest": d, "syn": e.is_synthetic is True})
                key = json.dumps(pe)
                if key in byproj:
                    byproj[key]["modes"].append(mode)
                else:
                    raw = [[os.fsdecode(x).replace(root, "<scratch>") if isinstance(x, (str, bytes)) else repr(x)
                            for x in (e.src_path, e.dest_path)] for e in evs]
                    byproj[key] = {"e": "case", "k": kind, "tree": tline, "src": list(src), "dst": list(dst), "ev": pe,
                                   "modes": [mode], "raw": raw}
            out.extend(byproj.values())
            return len(modes)

        ncalls = 0
        for src in srcs:
            ncalls += collect("moved", src, lambda mode, src=src: list(ev.generate_sub_moved_events(
                _spell(root, src, mode, real), _spell(root, dst, mode, real))))
        ncalls += collect("created", (), lambda mode: list(ev.generate_sub_created_events(_spell(root, dst, mode, real))))
        return out, ncalls
    finally:
        shutil.rmtree(os.path.join(root, real[dst[0]]), ignore_errors=True)


def _scratch():
    """A scratch root whose own path ends in .../r/y (the root spelling contains the destination's names)."""
    base = tempfile.mkdtemp(prefix="verif-c14-", dir=os.environ.get("TMPDIR", "/tmp"))
    root = os.path.join(base, "r", "y")
    os.makedirs(root)
    return base, root


def _job(args):
    """Worker: a list of (tree, [(dst, [src, ...]), ...]) over identity name tables; relative cases run in a scratch cwd."""
    groups, namelist = args
    ev = events_module()
    real = {n: n for n in namelist}
    base, root = _scratch()
    old = os.getcwd()
    os.chdir(root)
    lines, ncalls = [], 0
    try:
        for tree, dsts in groups:
            for dst, srcs in dsts:
                ls, n = _run_group(ev, root, dst, tree, srcs, real)
                lines.extend(ls)
                ncalls += n
    finally:
        os.chdir(old)
        shutil.rmtree(base, ignore_errors=True)
    return lines, ncalls


def by_dst(pairs):
    d = {}
    for s, t in pairs:
        d.setdefault(t, []).append(s)
    return sorted(d.items())


def run_universe(pool, jobs, trees, pairs, namelist):
    dsts = by_dst(pairs)
    groups = [(t, dsts) for t in trees]
    nchunks = max(1, min(len(groups), jobs * 4))
    parts = [(groups[i::nchunks], namelist) for i in range(nchunks)]
    lines, ncalls = [], 0
    for ls, n in pool.map(_job, parts):
        lines.extend(ls)
        ncalls += n
    return lines, ncalls


def absolute_reoccurrence_cases(_=None):
    """The scratch root's own components re-occur below the destination, so that the ABSOLUTE destination string
    re-occurs inside a descendant:  <root>/y/<root components>/y/f  with dest = <root>/y."""
    ev = events_module()
    base = tempfile.mkdtemp(prefix="verif-c14-", dir=os.environ.get("TMPDIR", "/tmp"))
    lines, ncalls = [], 0
    try:
        comps = [c for c in base.split(os.sep) if c]
        ids = [f"t{i + 1}" for i in range(len(comps))]
        real = dict(zip(ids, comps))
        real.update({n: n for n in ("r", "x", "y", "f")})
        chain = tuple(ids)
        trees = []
        for tail in ((("y",), "d"), (("y",), "f")):
            t = [(chain[: i + 1], "d") for i in range(len(chain))] + [(chain + tail[0], tail[1])]
            if tail[1] == "d":
                t.append((chain + ("y", "f"), "f"))
            trees.append(tuple(t))
        # and one level deeper: dest = <root>/r/y , inside it <root components>/r/y/f
        t = [(chain[: i + 1], "d") for i in range(len(chain))] + [(chain + ("r",), "d"), (chain + ("r", "y"), "d"),
                                                                   (chain + ("r", "y", "f"), "f")]
        old = os.getcwd()
        os.chdir(base)
        try:
            for tree in trees:
                ls, n = _run_group(ev, base, ("y",), tree, [("x",), ("r",)], real)
                lines.extend(ls)
                ncalls += n
            ls, n = _run_group(ev, base, ("r", "y"), tuple(t), [("r", "x"), ("x",)], real)
            lines.extend(ls)
            ncalls += n
        finally:
            os.chdir(old)
    finally:
        shutil.rmtree(base, ignore_errors=True)
    return lines, ncalls


RAND_NAMES = ("r", "x", "y", "yy", "xy", "rx", "f")


def _random_job(args):
    seeds, maxnodes = args
    ev = events_module()
    real = {n: n for n in RAND_NAMES}
    base, root = _scratch()
    old = os.getcwd()
    os.chdir(root)
    lines, ncalls = [], 0
    try:
        for seed in seeds:
            rng = random.Random(seed)
            tree = {}
            for _ in range(rng.randint(1, maxnodes)):
                par = rng.choice([()] + [p for p, k in tree.items() if k == "d" and len(p) < 6])
                p = par + (rng.choice(RAND_NAMES),)
                if p not in tree:
                    tree[p] = "d" if rng.random() < 0.6 else "f"
            dst = tuple(rng.choice(RAND_NAMES[:5]) for _ in range(rng.randint(1, 3)))
            srcs = []
            while len(srcs) < 2:
                s = tuple(rng.choice(RAND_NAMES[:6]) for _ in range(rng.randint(1, 3)))
                if not is_prefix(s, dst) and not is_prefix(dst, s):
                    srcs.append(s)
            ls, n = _run_group(ev, root, dst, tuple(sorted(tree.items())), srcs, real)
            for line in ls:
                line["seed"] = seed
            lines.extend(ls)
            ncalls += n
    finally:
        os.chdir(old)
        shutil.rmtree(base, ignore_errors=True)
    return lines, ncalls


def replay_witness(w):
    """spec -> code: a DEVCASE witness of SubEvents_neg_D4.cfg (relative root spelling) run on the real generator."""
    _, root_sp, src, dst, tree, p = w[:6]
    ev = events_module()
    tree_t = tuple(sorted((tuple(m["p"][len(dst):]), m["k"]) for m in tree))
    real = {n: n for n in ("r", "x", "y")}
    base, root = _scratch()
    old = os.getcwd()
    os.chdir(root)
    try:
        lines, n = _run_group(ev, root, tuple(dst), tree_t, [tuple(src)], real, modes=("rel-str", "rel-bytes"))
    finally:
        os.chdir(old)
        shutil.rmtree(base, ignore_errors=True)
    want = list(src) + list(p[len(dst):])
    got = [e["src"] for line in lines if line["k"] == "moved" for e in line["ev"] if e["dest"] == list(p)]
    return lines, n, want, got


# ----------------------------------------------------------------------------- the check


def run(c: checklib.Check):
    ev = events_module()
    c.note(f"code under test: {os.path.dirname(ev.__file__)}")

    # ---- 1. design spec
    ntree = {}
    cfgs = [("SubEvents_quick.cfg", 4, PAIRS_QUICK)]
    if c.thorough:
        cfgs += [("SubEvents_thorough.cfg", 6, PAIRS_QUICK), ("SubEvents_pairs.cfg", 4, pairs_all())]
    for cfg, maxnodes, pairs in cfgs:
        r = tlc.run_tlc("SubEvents", cfg, workers=c.jobs, coverage=True, timeout=3000, heap="8g")
        c.add_tlc("SubEvents:" + cfg, r)
        if not r.ok:
            c.machinery_failure(f"design spec {cfg} violated: {r.violated} {r.errors[:2]}")
        if r.coverage.get("Next", 0) == 0:
            c.machinery_failure(f"vacuity: no AddNode step taken in {cfg}")
        if maxnodes not in ntree:
            ntree[maxnodes] = len(subtrees(("r", "x", "y"), 4, maxnodes))
        if r.distinct != ntree[maxnodes] * len(pairs):
            c.machinery_failure(f"{cfg}: TLC enumerated {r.distinct} (tree, src, dst) states, the harness enumerates "
                                f"{ntree[maxnodes]} trees x {len(pairs)} pairs")
        c.note(f"TLC {cfg}: {r.distinct} distinct states = {ntree[maxnodes]} trees x {len(pairs)} (src,dst) pairs, "
               f"{r.wall:.1f}s")
    # the deviation operator must be distinguishable from the intended function (non-vacuity of the source law)
    rn = tlc.run_tlc("SubEvents", "SubEvents_neg_D4.cfg", workers=1, timeout=600)
    if "Neg_TextualIsPrefixRewrite" not in rn.violated:
        c.machinery_failure(f"vacuity: SubEvents_neg_D4.cfg did not refute Neg_TextualIsPrefixRewrite: {rn.summary()}")
    wit = [w for w in tlc.find_tagged(rn.output.replace('<< "', '<<"'), "DEVCASE") if len(w) >= 6 and w[1] == ()]
    if not wit:
        c.machinery_failure("SubEvents_neg_D4.cfg: no relative DEVCASE witness in the TLC output")
    c.note(f"TLC SubEvents_neg_D4.cfg: textual rewrite refuted as expected; witness src={wit[0][2]} dst={wit[0][3]} "
           f"tree={sorted((m['p'], m['k']) for m in wit[0][4])} node={wit[0][5]}")

    # ---- 2. real code on every case
    lines, ncalls = [], 0
    wl, n, want, got = replay_witness(wit[0])
    ncalls += n
    lines.extend(wl)
    reproduced = any(g != want for g in got)
    c.note(f"spec -> code: witness on the real generator: source of {'/'.join(wit[0][5])} = "
           f"{['/'.join(g) for g in got]}, prefix rewrite = {'/'.join(want)}: "
           + ("the code performs the textual rewrite (Dev_TextualReplace reproduces)" if reproduced else
              "the code performs the prefix rewrite (Dev_TextualReplace does not describe it)"))
    c.cov["dev_textual_replace_reproduces"] = reproduced

    with mp.get_context("fork").Pool(c.jobs) as pool:
        plan = [("{r,x,y} depth<=4 nodes<=4 x PairsQuick", subtrees(("r", "x", "y"), 4, 4), PAIRS_QUICK, ("r", "x", "y"))]
        ext_nodes = 4 if c.thorough else 3
        plan.append((f"{{r,y,yy,xy}} depth<=3 nodes<={ext_nodes} x PairsExt", subtrees(("r", "y", "yy", "xy"), 3, ext_nodes),
                     PAIRS_EXT, ("r", "x", "y", "yy", "xy")))
        if c.thorough:
            t5 = subtrees(("r", "x", "y"), 4, 5)
            plan.append(("{r,x,y} depth<=4 nodes<=4 x PairsAll", subtrees(("r", "x", "y"), 4, 4), pairs_all(), ("r", "x", "y")))
            plan.append(("{r,x,y} depth<=4 nodes=5 x PairsQuick", [t for t in t5 if len(t) == 5], PAIRS_QUICK, ("r", "x", "y")))
            t6 = [t for t in subtrees(("r", "x", "y"), 4, 6) if len(t) == 6]
            plan.append(("{r,x,y} depth<=4 nodes=6 x {r/x->r/y, x->y}", t6, PAIRS_QUICK[:2], ("r", "x", "y")))
        for label, trees, pairs, namelist in plan:
            ls, n = run_universe(pool, c.jobs, trees, pairs, namelist)
            c.note(f"universe {label}: {len(trees)} trees x {len(pairs)} pairs, {n} generator calls, {len(ls)} distinct case lines")
            lines.extend(ls)
            ncalls += n
        nrand = 6000 if c.thorough else 600
        seeds = list(range(c.seed * 1000003, c.seed * 1000003 + nrand))
        k = c.jobs * 2
        for ls, n in pool.map(_random_job, [(seeds[i::k], 12) for i in range(k)]):
            lines.extend(ls)
            ncalls += n
        c.note(f"random trees: {nrand} trees over {RAND_NAMES}, depth<=6, nodes<=12")
    ls, n = absolute_reoccurrence_cases()
    c.note(f"absolute re-occurrence (scratch root components repeated below the destination): {n} calls, {len(ls)} case lines")
    lines.extend(ls)
    ncalls += n

    c.cov["evaluations"] += ncalls
    c.cov["distinct_nontrivial"] = sum(1 for x in lines if x["ev"])
    c.cov["exhaustive"] = True
    c.cov["rule"] = ("every tree below dst over {r,x,y} (depth<=4, nodes<=%s) x (src,dst) pairs of SubEvents.tla, re-enumerated "
                     "here (count compared with TLC's distinct states), each materialised on disk and run through the real "
                     "generators in 4 modes (relative/absolute x str/bytes); plus the {r,y,yy,xy} universe, absolute "
                     "re-occurrence cases and %d seeded random trees; identical projections of one case in several modes are "
                     "merged into one line (modes listed); non-trivial = the generator returned at least one event"
                     % ("6 (quick pairs) / 4 (all pairs)" if c.thorough else "4", nrand))

    from checks import scen_func

    bad, stats, ntraces = scen_func.validate_lines("SubEventsTrace", "SubEventsTrace.cfg", lines, batch=400, jobs=c.jobs)
    c.add_trace_stats("SubEventsTrace", ntraces, stats)
    c.cov["case_lines_validated"] = len(lines)
    c.cov["states"] += stats["distinct"]
    c.cov["transitions"] += stats["generated"]
    bad.sort(key=lambda b: ("seed" in b[1], (b[1]["src"], b[1]["dst"]) != (["r", "x"], ["r", "y"]), len(b[1]["tree"]), len(b[1]["dst"]), json.dumps(b[1], sort_keys=True)))
    perclause = {}
    for clause, line in bad:
        perclause[clause] = perclause.get(clause, 0) + 1
        if perclause[clause] > 5:
            continue
        c.violation(clause, explain(clause, line), {"case": line, "args": example_args(line),
                                                   "trace_spec": ["SubEventsTrace", "SubEventsTrace.cfg"]}, signature=clause)
    if bad:
        c.note("failing clauses (case lines): " + ", ".join(f"{k}={v}" for k, v in sorted(perclause.items())))
        c.cov["failing_case_lines"] = perclause
    pipeline_leg(c)
    c.sample({"case": lines[len(lines) // 3]})
    c.sample({"case": lines[-1]})
    c.assumptions += ["the tree on disk is not modified while os.walk runs (the harness is the only writer)",
                      "no symbolic links; names are ASCII; os.sep is '/'",
                      "the source law is not demanded when the caller passes an empty (unknown) source path"]


# ----------------------------------------------------------------------------- 3. the same laws through the real inotify pipeline

C14_START = {"start": [["a", "d"], ["ab", "d"], ["ab/a", "d"], ["ab/a/f", "f"], ["ab/a/ab", "d"], ["ab/a/ab/a", "f"], ["ab/g", "f"]],
             "outside": [["t", "d"], ["t/a", "d"], ["t/a/t", "f"], ["t/ab", "f"]]}
C14_NAMES = ("a", "ab", "c")


def rename_histories(maxlen, limit, seed):
    """Histories of directory renames / arrivals over a tree whose names are character prefixes of each other and repeat
    along a path; every prefix is executable and paced (checks/history_check.py); all of length 1, then a seeded sample."""
    from checks import history_check as hc

    def steps(ops):
        why, T, O = hc.simulate(C14_START["start"], C14_START["outside"], ops)
        assert why is None, why
        dirs = sorted(p for p, k in T.items() if k == "dir")
        out = []
        for dd in [()] + dirs:
            for n in C14_NAMES:
                q = dd + (n,)
                if q in T or len(q) > 4:
                    continue
                for p in dirs:
                    if q[: len(p)] == p:
                        continue
                    out.append(["rename", "/".join(p), "/".join(q)])
                for t in sorted(x for x in O if len(x) == 1 and O[x] == "dir"):
                    out.append(["movein", "/".join(t), "/".join(q)])
        return [o for o in out if hc.simulate(C14_START["start"], C14_START["outside"], ops + [o, ["drain"]])[0] is None]

    rng = random.Random(seed)
    level = [[]]
    hists = []
    for n in range(maxlen):
        nxt = []
        for h in level:
            for o in steps(h):
                nxt.append(h + [o, ["drain"]])
        if len(nxt) > limit:
            nxt = rng.sample(nxt, limit)
        hists += nxt
        level = nxt
    return hists


def pipeline_leg(c: checklib.Check):
    from checks import pipeline_engine as pe

    hists = rename_histories(3 if c.thorough else 2, 1500 if c.thorough else 110, c.seed)
    cases = []
    for i, h in enumerate(hists):
        params = dict(C14_START, ops=h, recursive=True, full=(i % 4 == 3), paced=True, contract=True, final_probe=False)
        cases.append((params, ("prio", "library") if i % 3 else ("random", c.seed + i, 0.6)))
    recs = pe.run_cases(c, cases, "directory renames / arrivals on the real inotify observer, one operation at a time")
    pe.validate(c, "C14", recs)
    c.cov["pipeline_histories"] = len(hists)


def example_args(line):
    mode = line["modes"][0]
    j = lambda s: os.sep.join(s)  # noqa: E731
    pre = "<scratch>/" if mode.startswith("abs") else ""
    return {"mode": mode, "src_dir_path": (pre + j(line["src"])) if line["src"] else "", "dest_dir_path": pre + j(line["dst"]),
            "tree_on_disk": sorted(pre + j(m["p"]) + ("/" if m["k"] == "d" else "") for m in line["tree"])}


def explain(clause, line):
    a = example_args(line)
    call = (f"generate_sub_moved_events({a['src_dir_path']!r}, {a['dest_dir_path']!r})" if line["k"] == "moved"
            else f"generate_sub_created_events({a['dest_dir_path']!r})")
    evs = [f"{e['cls']}({r[0]!r} -> {r[1]!r}, synthetic={e['syn']})" for e, r in zip(line["ev"], line["raw"])]
    msg = f"{call} [{','.join(line['modes'])}] over {a['tree_on_disk']} returned {evs}"
    if clause == "P_C14_SourceIsOldPrefixPlusSameRelativePath":
        wrong = [(e, line["src"] + e["dest"][len(line["dst"]):]) for e in line["ev"]
                 if e["dest"][: len(line["dst"])] == line["dst"] and e["src"] != line["src"] + e["dest"][len(line["dst"]):]]
        if wrong:
            e, want = wrong[0]
            r = line["raw"][line["ev"].index(e)]
            msg += (f"; the source reported for {r[1]!r} is {r[0]!r}, the old directory path followed by the same "
                    f"relative path is {('<scratch>/' if a['mode'].startswith('abs') else '') + '/'.join(want)!r}")
    return msg


if __name__ == "__main__":
    checklib.main_wrapper("C14", run)
