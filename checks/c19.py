"""C19  Event paths keep the caller's path type and the entry's exact name, all backends.

The pipeline scenarios are re-run for root spellings str / bytes / pathlib.Path x absolute / relative / trailing slash,
with a name table containing ASCII, non-ASCII (UTF-8) and undecodable-byte file names, through the inotify observer and
the polling observer on the same real tree.  The harness projects every event path byte-exactly (os.fsencode, strip
the root spelling as given, look every component up in the name table: no match => "?") and PipelineTrace.tla
requires tag = watch tag for source and destination (P_C19_TypePreserved) and no "?" component in any of source,
destination, synthetic and parent-modified events (P_C19_ExactName) -- for both observers."""
import os
import sys

sys.path.insert(0, os.path.dirname(os.path.dirname(os.path.abspath(__file__))))
from checks import c11, pipeline_engine as pe  # noqa: E402
from checks.c03 import one_at_a_time  # noqa: E402
from harness import checklib  # noqa: E402

# logical name -> bytes on disk (given as latin-1 text)
NAMES = {"a": "\xc3\xa9", "b": "\xff\xfe", "c": "a b", "d": "\xe4\xb8\xad", "e": "e", "x": "x\xf0", "y": "\xc3", "f": "f", "g": "g",
         "h": "h\xa0", "u": "\xfcu", "n": "n", "p": "p", "q": "q\xed\xa0\x80", "r": "r", "t": "t", "zf": "zf", "zd": "zd"}
SPELLS = ["str", "bytes", "path", "slash", "bslash", "rel", "relbytes"]


def run(c):
    pe.run_design(c)
    cases = []
    tour = one_at_a_time(c11.TOUR)
    for spell in SPELLS:
        for obs in ("inotify", "polling"):
            for rec in (True, False):
                params = {"start": [], "outside": c11.TOUR_OUTSIDE, "ops": tour, "recursive": rec, "paced": True, "names": NAMES,
                          "spell": spell, "observer": obs, "final_probe": True, "full": (obs == "inotify" and spell in ("bytes", "rel"))}
                cases.append((params, ("prio", "library")))
                if obs == "inotify":
                    cases.append((params, ("prio", "driver")))
                if rec and spell in ("str", "bytes", "rel", "path"):
                    # the same directory scheduled twice, as str and as bytes: two watches, each with its own path type
                    cases.append((dict(params, other_type_watch=True), ("prio", "library")))
    recs = pe.run_cases(c, cases, f"vocabulary tour x {len(SPELLS)} root spellings x 2 observers, odd file names")
    pe.validate(c, "C19", recs)
    # names under which the path of a renamed directory re-occurs textually inside a descendant's path when the root is
    # given relative ("R/b/xR/b" contains "R/b" twice): every component of the synthetic events must still be exact
    reocc = {"a": "a", "b": "b", "x": "xR", "y": "R", "f": "bq"}
    cases = []
    for spell in ("rel", "relbytes", "str"):
        for ops in ([["rename", "a", "b"], ["drain"]], [["rename", "a", "b"], ["drain"], ["rename", "b", "y"], ["drain"]],
                    [["moveout", "a", "z1"], ["drain"], ["movein", "z1", "b"], ["drain"]]):
            params = {"start": [["a", "d"], ["a/x", "d"], ["a/x/f", "f"], ["a/x/y", "d"], ["a/x/y/f", "f"]], "outside": [],
                      "ops": ops, "recursive": True, "paced": True, "names": reocc, "spell": spell, "observer": "inotify", "final_probe": True}
            cases += [(params, ("prio", "library")), (params, ("prio", "driver"))]
    recs = pe.run_cases(c, cases, "directory paths re-occurring inside descendants' paths (relative root)")
    pe.validate(c, "C19", recs)
    K = 3 if c.thorough else 2
    cases = []
    for start in ("small", "deep"):
        hs, r = pe.tlc_histories(start, K)
        step = 1 if c.thorough else 5
        for i, h in enumerate(hs[::step]):
            spell = SPELLS[i % len(SPELLS)]
            obs = "polling" if i % 3 == 2 else "inotify"
            params = dict(pe.START[start], ops=one_at_a_time(h) if obs == "polling" else h, recursive=(i % 4 != 3), paced=True,
                          names=NAMES, spell=spell, observer=obs, final_probe=True)
            cases.append((params, ("prio", "driver") if i % 2 else ("random", c.seed + i, 0.7)))
    recs = pe.run_cases(c, cases, "TLC histories, rotating spellings / observers")
    pe.validate(c, "C19", recs)
    nrand = 500 if c.thorough else 60
    cases = []
    for k in range(nrand):
        seed = c.seed * 1000003 + 555557 + k
        hist = pe.random_history(seed, 14 + (k % 4) * 6)
        obs = "polling" if k % 3 == 2 else "inotify"
        if obs == "polling":
            hist["ops"] = one_at_a_time(hist["ops"])
        params = dict(hist, recursive=(k % 4 != 3), paced=True, names=NAMES, spell=SPELLS[k % len(SPELLS)], observer=obs)
        cases.append((params, ("random", seed, 0.7)))
    recs = pe.run_cases(c, cases, "random paced histories, rotating spellings / observers")
    pe.validate(c, "C19", recs)
    c.cov["rule"] = ("7 root spellings x inotify/polling x recursive/non-recursive over the whole vocabulary with 18 odd names "
                     "(non-ASCII, undecodable bytes, lone surrogate encodings); rotating spellings over TLC / random histories")
    c.assumptions += ["the byte-exact comparison is in the harness projection (os.fsencode + name table); TLA+ sees name ids and the "
                      "'?' marker (DESIGN §7 C19 note)", "the root itself may be spelled with or without the trailing separator"]


if __name__ == "__main__":
    checklib.main_wrapper("C19", run)
