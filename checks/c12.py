"""C12  Every descriptor and thread is released exactly once, also on failure.

1. TLC checks InotifyFd.tla (constructor with failing kernel calls, reader loop, close() hand-over decided by
   is_reading under the lock) exhaustively; the three repaired defects, switched back on, must violate the
   corresponding invariant (non-vacuity).
2. The real Inotify / InotifyBuffer / InotifyObserver run on a real scratch directory with the OS seam
   (descriptor shadow table + fault directives) under the deterministic scheduler: a failure at every kernel call
   of watch construction, bounded-preemption DFS of close() against every step of the read loop, file-system
   activity that makes the reader add watches while it is being closed.  TLC validates each `sys` trace against
   the per-descriptor state machine of InotifyFdTrace.tla.
3. Real kernel, real threads, no shims: schedule/start/stop cycles comparing /proc/self/fd and
   threading.enumerate() before and after (thorough: 500 cycles).
"""

from __future__ import annotations

import json
import os
import subprocess
import sys

sys.path.insert(0, os.path.dirname(os.path.dirname(os.path.abspath(__file__))))

from harness import checklib, explore, loader, tlc  # noqa: E402

SCEN = "checks.scen_fd:fd_program"


def fault_programs(thorough):
    out = []
    errs = ("ENOENT", "ENOSPC", "EMFILE", "EACCES")
    for level in ("inotify", "buffer", "observer"):
        for dirs in ((1, 2, 3, 4) if thorough else (1, 3)):
            calls = [("inotify_init", 1), ("pipe", 1)] + [("inotify_add_watch", k) for k in range(1, dirs + 1)]
            for call, n in calls:
                for en in errs:
                    if call == "pipe" and en in ("ENOENT", "EACCES", "ENOSPC"):
                        continue
                    if call == "inotify_init" and en == "EACCES":
                        continue  # inotify_init(2) cannot fail with EACCES
                    out.append({"level": level, "dirs": dirs, "closers": 1, "faults": [[call, n, en]], "ops": []})
    return out


def race_programs(thorough):
    """(program, preemption bound) for exhaustive DFS; the deeper stacks are sampled (see sampled_programs)."""
    b = 3 if thorough else 2
    out = [
        ({"level": "inotify", "dirs": 2, "closers": 1, "ops": []}, b),
        ({"level": "inotify", "dirs": 1, "closers": 2, "ops": []}, b - 1),
        ({"level": "inotify", "dirs": 1, "closers": 1, "ops": [["mkdir", "x"]]}, b - 1),
    ]
    if thorough:
        out += [({"level": "inotify", "dirs": 1, "closers": 2, "ops": [["mkdir", "x"]]}, 2),
                ({"level": "buffer", "dirs": 2, "closers": 1, "ops": [["mkdir", "x"]]}, 1),
                ({"level": "buffer", "dirs": 1, "closers": 2, "ops": [["touch", "f"]]}, 1)]
    return out


def sampled_programs(thorough):
    k = 6 if thorough else 1
    return [
        ({"level": "inotify", "dirs": 1, "closers": 2, "ops": [["mkdir", "x"]]}, 300 * k),
        ({"level": "buffer", "dirs": 2, "closers": 1, "ops": [["mkdir", "x"]]}, 500 * k),
        ({"level": "buffer", "dirs": 1, "closers": 2, "ops": [["touch", "f"], ["mkdir", "y"]]}, 300 * k),
        ({"level": "observer", "dirs": 2, "closers": 1, "ops": [["mkdir", "x"]]}, 300 * k),
        ({"level": "observer", "dirs": 3, "closers": 2, "ops": [["mkdir", "x"], ["touch", "x/f"], ["mkdir", "y"], ["rmdir", "y"]]}, 200 * k),
    ]


REAL_CYCLES = r'''
import os, sys, threading, tempfile, shutil, json, time
sys.path.insert(0, sys.argv[1])
from watchdog.observers.inotify import InotifyObserver
from watchdog.events import FileSystemEventHandler
n = int(sys.argv[2])
base = tempfile.mkdtemp(prefix="verif-cyc-")
os.makedirs(os.path.join(base, "a", "b"))
def census():
    return sorted(os.listdir("/proc/self/fd")), sorted(t.name for t in threading.enumerate())
fd0, th0 = census()
bad = []
for i in range(n):
    obs = InotifyObserver()
    h = FileSystemEventHandler()
    w = obs.schedule(h, base, recursive=True)
    if i % 3 == 0:
        w2 = obs.schedule(h, os.path.join(base, "a"), recursive=False)
    obs.start()
    if i % 2 == 0:
        open(os.path.join(base, "a", "f%d" % i), "w").close()
    if i % 4 == 1:
        obs.unschedule(w)
    if i % 5 == 2:
        try:
            obs.schedule(h, os.path.join(base, "does-not-exist"), recursive=True)
        except OSError:
            pass
    obs.stop()
    obs.join()
    if i % 50 == 49 or i == n - 1:
        time.sleep(0.05)
        fd1, th1 = census()
        if len(fd1) != len(fd0) or th1 != th0:
            bad.append({"cycle": i, "fds": len(fd1) - len(fd0), "threads": [t for t in th1 if t not in th0]})
shutil.rmtree(base, ignore_errors=True)
print(json.dumps({"cycles": n, "bad": bad[:5], "fd0": len(fd0)}))
'''


def run(c: checklib.Check):
    # ---- 1. design model
    for cfg in ("InotifyFd_thorough.cfg" if c.thorough else "InotifyFd_quick.cfg", "InotifyFd_live.cfg"):
        r = tlc.run_tlc("InotifyFd", cfg, workers=c.jobs, timeout=1800)
        c.add_tlc("InotifyFd:" + cfg, r)
        if not r.ok:
            c.machinery_failure(f"design spec {cfg} violated: {r.violated} {r.errors[:2]}")
        c.note(f"TLC {cfg}: {r.distinct} distinct states, depth {r.depth}")
    for cfg, inv in (("InotifyFd_neg_D1.cfg", "C12_FailedCtorLeavesNothing"), ("InotifyFd_neg_D2.cfg", "C12_AllReleasedWhenDone"),
                     ("InotifyFd_neg_D13.cfg", "C12_NoUseAfterClose")):
        r = tlc.run_tlc("InotifyFd", cfg, workers=c.jobs, timeout=600)
        if inv not in r.violated:
            c.machinery_failure(f"vacuity: {cfg} did not violate {inv}")
    c.note("negative configurations (D1, D2, D13 switched back on) violate their invariants as expected")

    # ---- 1b. spec -> code: every walk of a transition cover of the model replayed on the real InotifyBuffer / Inotify
    import multiprocessing as mp
    import shutil

    from checks import scen_fd_replay as sfr
    from harness import tlagraph

    tmp = tlc.scratch_dir()
    try:
        dot = os.path.join(tmp, "fd.dot")
        r2 = tlc.run_tlc("InotifyFd", "InotifyFd_cover.cfg", workers=c.jobs, dump=dot, timeout=900)
        tlc.require_ok(r2, "cover model")
        g = tlagraph.load_dot(dot)
    finally:
        shutil.rmtree(tmp, ignore_errors=True)
    walks, nedges = tlagraph.transition_cover(g, max_len=60, skip_labels=("Finished",))
    jobs = []
    for _root, walk in walks:
        acts = [tlagraph.parse_label(lab) for lab, _ in walk]
        states = [{k: g.state(n)[k] for k in sfr.STATE_KEYS} for _, n in walk]
        jobs.append((2, ["c1", "c2"], acts, states))
    with mp.get_context("fork").Pool(c.jobs) as pool:
        res = pool.starmap(sfr.fd_replay, jobs, chunksize=4)
    bad = [(j, mm) for j, mm in zip(jobs, res) if mm is not None]
    for j, mm in bad[:2]:
        c.note(f"spec->code drift: {str(mm)[:400]} after {[a[0] for a in j[2]][:mm.get('k', 0) + 1][-8:]}")
    steps = sum(len(j[2]) for j in jobs)
    c.cov["model_edges"] = nedges
    c.cov["walks_replayed"] = len(jobs)
    c.cov["model_edges_replayed"] = steps
    c.cov["drift_traces"] = c.cov.get("drift_traces", 0) + len(bad)
    c.cov["evaluations"] += len(jobs)
    c.note(f"spec->code InotifyFd_cover.cfg: {len(jobs)} walks ({steps} steps) of a transition cover of {nedges} edges replayed on the "
           f"real InotifyBuffer / Inotify over the real kernel, state compared after every action, {len(bad)} diverged")

    # ---- 2. real code under the scheduler
    traces, meta = [], []
    total = 0
    fp = fault_programs(c.thorough)
    for pat in fp:
        rec = explore.replay(SCEN, pat, [])
        if rec["outcome"] in ("error", "divergence"):
            c.machinery_failure(f"fault program failed in the harness: {rec['error']} {pat}")
        traces.append(rec["trace"])
        meta.append({"scenario": SCEN, "params": pat, "choices": rec["choices"], "family": "ctor-fault"})
    total += len(fp)
    c.note(f"constructor faults: {len(fp)} programs (every kernel call position x errno, 3 levels)")
    for pat, bnd in race_programs(c.thorough):
        n, recs = explore.dfs(SCEN, pat, bnd, jobs=c.jobs)
        total += n
        for rec in recs:
            traces.append(rec["trace"])
            meta.append({"scenario": SCEN, "params": pat, "choices": rec["choices"], "family": "race"})
        c.note(f"dfs b={bnd} {pat}: {n} executions, {len(recs)} distinct traces")
    base = c.seed * 1000003
    for pat, nrand in sampled_programs(c.thorough):
        for kind, extra in (("random", {"stickiness": 0.5}), ("pct", {"depth": 3, "est_steps": 250})):
            n, recs = explore.sample(SCEN, pat, range(base, base + nrand // 2), kind=kind, jobs=c.jobs, extra=extra)
            total += n
            for rec in recs:
                traces.append(rec["trace"])
                meta.append({"scenario": SCEN, "params": pat, "choices": rec["choices"], "family": "sampled"})
        c.note(f"sampled schedules (random + PCT) {pat['level']} closers={pat['closers']}: {nrand} executions")

    # ---- 3. real kernel, real threads
    ncyc = 500 if c.thorough else 60
    p = subprocess.run([sys.executable, "-c", REAL_CYCLES, loader.REPO_SRC, str(ncyc)], capture_output=True, text=True,
                       timeout=900)
    if p.returncode != 0:
        c.machinery_failure("real-kernel cycle run failed: " + p.stderr[-800:])
    res = json.loads(p.stdout.strip().splitlines()[-1])
    cyc_trace = [{"t": "real", "e": "note", "what": f"{ncyc} schedule/start/stop cycles, real threads, real kernel"},
                 {"t": "real", "e": "final", "open": [f"+{b['fds']}fds@{b['cycle']}" for b in res["bad"] if b["fds"]],
                  "live": [t for b in res["bad"] for t in b["threads"]]}]
    traces.append(cyc_trace)
    meta.append({"family": "real-cycles", "params": {"cycles": ncyc}, "result": res})
    total += ncyc

    c.cov["evaluations"] += total
    c.cov["distinct_nontrivial"] = len(traces)
    c.cov["rule"] = ("executions of the real Inotify/InotifyBuffer/InotifyObserver on a real directory with the seam's "
                     "descriptor shadow table: one program per (kernel call position x errno x level), bounded-preemption DFS "
                     "of close() vs the read loop, random schedules, %d real-thread cycles; distinct = distinct sys-call traces"
                     % ncyc)
    verdicts, stats = tlc.validate_traces("InotifyFdTrace", "InotifyFdTrace.cfg", traces,
                                          chunk=max(40, len(traces) // (c.jobs * 2) + 1), parallel=c.jobs)
    c.add_trace_stats("InotifyFdTrace", len(traces), stats)
    c.cov["states"] += stats["distinct"]
    c.cov["transitions"] += stats["generated"]
    for tr, m, v in zip(traces, meta, verdicts):
        if v["accepted"]:
            continue
        rp = dict(m)
        rp["trace"] = tr
        rp["trace_spec"] = ["InotifyFdTrace", "InotifyFdTrace.cfg"]
        clauses = v["viol"] or ["P_C12_Explainable"]
        for clause in clauses:
            if clause == "P_C12_NoUncaught":
                continue  # owned by C07
            what = {"P_C12_AllReleased": "descriptors still open after the watch was torn down / construction failed",
                    "P_C12_ThreadsGone": "library threads still alive after stop()+join()",
                    "P_C12_NoUseAfterClose": "a descriptor was used after it had been closed",
                    "P_C12_NoDoubleClose": "a descriptor was closed twice",
                    "P_C12_NoDeadlock": "close()/stop() blocked forever"}.get(clause, clause)
            fam = m["family"]
            sig = clause + ":" + fam + (":" + m["params"].get("level", "") if isinstance(m.get("params"), dict) else "")
            c.violation(clause, f"{what} (family {fam}, {m.get('params')})", rp, signature=sig)
    c.sample({"program": meta[0]["params"], "trace": traces[0][:12]})
    c.assumptions += ["the seam's shadow table sees every descriptor the library obtains (inotify_init, os.pipe)",
                      "fault injection at the ctypes boundary (set_errno + -1) is what the kernel would return"]


if __name__ == "__main__":
    checklib.main_wrapper("C12", run)
