"""C07  Monitoring never silently dies while the observer runs and the root exists.

Families (all on the real InotifyObserver / kernel under the deterministic scheduler, judged by PipelineTrace.tla):
  A  arbitrary UNPACED random histories (contents of fresh directories touched at once, names re-used immediately):
     no library thread may die (P_C07_NoUncaught), stop()+join() still ends everything;
  B  histories paced inside the tree but otherwise unrestricted: operations on directories after they left the tree,
     names re-used after deletion or move-out, then a probe round (P_C07_StillReporting, P_C07_EmitterAlive);
  C  deletion of the watched root: exactly one DirDeleted(root), emitter stops (P_C07_RootDeletedOnce, ...);
  D  transient failures: the n-th inotify_add_watch fails (ENOENT / ENOSPC) between a notification and the library's
     follow-up call, for every n of short directory-creating histories;
  E  stop() racing with the emitter thread (schedules of a tiny history);
  F  the polling emitter (PollingObserverVFS whose stat / listdir are yield points) with the tree changing under its
     snapshot walk: no uncaught exception, and a probe after the history is reported by a later poll."""
import os
import sys

sys.path.insert(0, os.path.dirname(os.path.dirname(os.path.abspath(__file__))))
from checks import pipeline_engine as pe  # noqa: E402
from harness import checklib  # noqa: E402

import random  # noqa: E402


def unpaced_history(seed, length):
    rng = random.Random(seed)
    h = pe.random_history(seed, length)
    # destroy the pacing: drop most drains and interleave immediate operations inside fresh directories
    ops = []
    for op in h["ops"]:
        if op[0] == "drain" and rng.random() < 0.8:
            continue
        ops.append(op)
    h["ops"] = ops
    return h


FAMILY_B = [
    # move a directory out, work on it outside, re-use its name, remove the new one, delete the old one outside (D5)
    [["moveout", "a", "z"], ["drain"], ["mkdir", "a"], ["drain"], ["rmdir", "a"], ["drain"], ["owrite", "z/a"], ["ounlink", "z/a"],
     ["ormdir", "z"], ["drain"]],
    [["moveout", "a", "z"], ["drain"], ["ocreat", "z/n"], ["omkdir", "z/m"], ["drain"], ["mkdir", "a"], ["drain"], ["creat", "a/x"],
     ["ormdir", "z/m"], ["ounlink", "z/n"], ["ounlink", "z/a"], ["ormdir", "z"], ["drain"]],
    # name re-used after deletion
    [["rmtree", "a"], ["drain"], ["mkdir", "a"], ["drain"], ["creat", "a/a"], ["drain"], ["rmtree", "a"], ["drain"], ["creat", "a"]],
    # move out and straight back, twice
    [["moveout", "a", "z"], ["movein", "z", "a"], ["drain"], ["moveout", "a", "z"], ["movein", "z", "b"], ["drain"], ["creat", "b/n"]],
    # a file replaced by rename, a directory replaced by rename
    [["mkdir", "b"], ["drain"], ["rename", "a", "b"], ["drain"], ["creat", "b/n"], ["rename", "b/a", "b/n"], ["drain"]],
]


def run(c):
    pe.run_design(c)
    # ---- A
    nA = 1500 if c.thorough else 200
    cases = []
    for k in range(nA):
        seed = c.seed * 1000003 + 31337 + k
        hist = unpaced_history(seed, 14 + (k % 4) * 6)
        params = dict(hist, recursive=(k % 4 != 3), paced=False, final_probe=False, full=(k % 7 == 6))
        for spec in [("prio", "driver"), ("random", seed, 0.6), ("pct", seed, 3)][: (3 if c.thorough else 2)]:
            cases.append((params, spec))
    recs = pe.run_cases(c, cases, "A: unpaced random histories")
    pe.validate(c, "C07", recs)
    # ---- B
    cases = []
    for i, ops in enumerate(FAMILY_B):
        for rec in (True, False):
            params = dict(pe.START["small"], ops=ops, recursive=rec, paced=False, final_probe=True)
            for spec in pe.timings(c.seed + i, n_random=3 if c.thorough else 1, n_pct=1):
                cases.append((params, spec))
    recs = pe.run_cases(c, cases, "B: entries that left the tree, names re-used")
    pe.validate(c, "C07", recs)
    # ---- C
    cases = []
    for i, pre in enumerate([[], [["mkdir", "c"]], [["creat", "a/n"], ["drain"]], [["makedirs", "c/d"], ["drain"], ["creat", "c/d/e"]]]):
        for start in ("small", "deep", "empty"):
            for rec in (True, False):
                if start != "empty" or not any(op[1].startswith("a/") for op in pre if len(op) > 1):
                    pass
                else:
                    continue
                params = dict(pe.START[start], ops=pre + [["rmroot"]], recursive=rec, paced=False, final_probe=False)
                for spec in pe.timings(c.seed + i, n_random=2 if c.thorough else 1, n_pct=0):
                    cases.append((params, spec))
    recs = pe.run_cases(c, cases, "C: deletion of the watched root")
    pe.validate(c, "C07", recs)
    # ---- D
    cases = []
    hists = [[["makedirs", "b/a"], ["creat", "b/a/b"], ["drain"]], [["movein", "a", "b"], ["drain"]],
             [["mkdir", "b"], ["mkdir", "b/a"], ["creat", "b/a/a"], ["creat", "b/b"], ["drain"]],
             [["rename", "a", "b"], ["mkdir", "b/b"], ["drain"]]]
    for i, ops in enumerate(hists):
        for n in range(2, 7):          # the first add_watch is the root's (that one is C12's business)
            for en in ("ENOENT", "ENOSPC"):
                # (no probe round here: a directory whose watch could not be added is legitimately not followed)
                params = dict(pe.START["small"], ops=ops, recursive=True, paced=False, final_probe=False,
                              faults=[["inotify_add_watch", n, en]])
                for spec in (("prio", "driver"), ("prio", "library")):
                    cases.append((params, spec))
    recs = pe.run_cases(c, cases, "D: transient inotify_add_watch failures")
    pe.validate(c, "C07", recs)
    # ---- E
    cases = []
    nE = 3000 if c.thorough else 500
    params = dict(pe.START["small"], ops=[["creat", "a/n"], ["write", "a/n"], ["mkdir", "c"]], recursive=True, paced=False,
                  final_probe=False, no_final_drain=True)
    for k in range(nE):
        cases.append((params, ("random", c.seed * 7919 + k, 0.3 + 0.1 * (k % 6))))
    # priority schedules: one thread (e.g. the emitter, right after it tested _inotify) stays parked while the others run on
    for k in range(nE * 4):
        cases.append((params, ("pct", c.seed * 7927 + k, 2)))
    recs = pe.run_cases(c, cases, "E: stop() racing with the emitter thread")
    pe.validate(c, "C07", recs)
    # ---- F: the polling emitter, with the tree changing under its snapshot walk
    cases = []
    nF = 600 if c.thorough else 80
    for k in range(nF):
        seed = c.seed * 1000003 + 777001 + k
        hist = unpaced_history(seed, 12 + (k % 3) * 6)
        ops = []
        for i, op in enumerate(hist["ops"]):
            if op[0] == "drain":
                continue
            ops.append(op)
            if i % 3 == 0:
                ops.append(["poll"])
        params = dict(hist, ops=ops, recursive=(k % 3 != 2), paced=False, final_probe=True, observer="pollingvfs")
        cases.append((params, ("random", seed, 0.5)))
    recs = pe.run_cases(c, cases, "F: polling emitter, tree changing under the snapshot walk")
    pe.validate(c, "C07", recs)
    c.cov["rule"] = ("families A-F of the module docstring; distinct = distinct black-box traces; every uncaught exception in a "
                     "library thread is a trace line")
    c.assumptions += ["fault directives at the ctypes boundary stand for entries vanishing / limits hit between a notification "
                      "and the library's follow-up inotify_add_watch"]


if __name__ == "__main__":
    checklib.main_wrapper("C07", run)
