"""Spec -> code replay of Observer.tla on the real BaseObserver (DESIGN §5.5, §13).

A walk of the dumped state graph of an Observer_<family>.cfg is executed action by action: every model action is a
macro-step of the corresponding real thread between the yield points that delimit the model's atomic steps, and after
every action the projected implementation state must equal the model's successor state.

    model action          real thread, from park -> to park
    Begin(t)              gate/opdone/cbin -> "acq" (observer lock) | "held" (re-entrant) | "prejoin"   [stop(): flag set on the way]
    Acq(t)                "acq" -> "held"                     (stutter when Begin ended at "held")
    Body(t)               "held" -> "prerel" | "join" (emitter.join, lock held) | the line `super().start()` of start()
    StartObs(t)           that line -> "prerel"               (observer thread created)
    Join(t)               "join" -> "prerel"                  (stutter when nothing was joinable)
    Rel(t)                "prerel" -> "postrel"               (lock released)
    PutSentinel(t)        "postrel" -> "opdone"               (stop(): sentinel queued)
    JoinObs(t)            "prejoin" -> "opdone"
    ECheck(e) / EQueue(e) emitter thread: start/"isset" -> "emit" | exit ;  "emit" -> "isset"
    DLoop / DGet / DLock  dispatcher: -> queue mutex "acq" | exit ; -> observer lock "acq" | "isset" ; -> "held"
    DIter                 -> "cbin" (inside the next handler, call recorded) | "isset" (lock released, back at the loop);
                          stutter when the chosen handler is no longer registered (the code skips it without a step)
    DCbDone               stutter

"held" / "prerel" / "postrel" are yield points of a transparent proxy around the observer's RLock (after acquire, before and
after release): the library code is untouched.  The registry (watches, handlers, emitter map) is compared whenever the
model's lock is free - that is when another thread could look at it; thread states, stop flags, the event queue, the
callback log and the lock owner are compared after every action.
"""

from __future__ import annotations

import inspect

from harness import detsched, loader, replayer

# mirror of Programs / Scripts / FailStartInit of Observer.tla (a mismatch shows as a divergence of every walk)
PROGRAMS = {
    "startrace": {"a1": [("schedule", 1, 1), ("start", 0, 0)], "a2": [("schedule", 2, 2)]},
    "dispatch": {"a1": [("schedule", 1, 1), ("schedule", 2, 1), ("start", 0, 0), ("stop", 0, 0), ("join", 0, 0)],
                 "a2": [("schedule", 3, 1), ("remove", 3, 1), ("unschedule", 0, 1)]},
    "callback": {"a1": [("schedule", 1, 1), ("schedule", 2, 1), ("start", 0, 0), ("stop", 0, 0), ("join", 0, 0)],
                 "a2": [("schedule", 2, 2), ("remove", 2, 2)]},
    "lifecycle": {"a1": [("schedule", 1, 1), ("start", 0, 0), ("stop", 0, 0), ("join", 0, 0)],
                  "a2": [("schedule", 2, 2), ("unschedule_all", 0, 0), ("stop", 0, 0)]},
    "stoprace": {"a1": [("schedule", 1, 1), ("start", 0, 0), ("stop", 0, 0), ("join", 0, 0)], "a2": [("schedule", 2, 2)]},
    "stopfirst": {"a1": [("schedule", 1, 1), ("start", 0, 0), ("join", 0, 0)], "a2": [("stop", 0, 0)]},
    "doublestart": {"a1": [("schedule", 1, 1), ("start", 0, 0), ("start", 0, 0), ("stop", 0, 0), ("join", 0, 0)],
                    "a2": [("schedule", 2, 2), ("start", 0, 0)]},
    "partialstart": {"a1": [("schedule", 2, 2), ("schedule", 1, 1), ("start", 0, 0), ("start", 0, 0), ("stop", 0, 0), ("join", 0, 0)], "a2": []},
    "failing": {"a1": [("start", 0, 0), ("schedule", 1, 1), ("schedule", 2, 1), ("stop", 0, 0), ("join", 0, 0)], "a2": []},
}
SCRIPTS = {
    "callback": {(1, 1): [("unschedule", 0, 1)], (2, 2): [("remove", 1, 1), ("schedule", 3, 1)]},
    "lifecycle": {(1, 1): [("stop", 0, 0)]},
}
FAIL_START = {"failing": {1}, "partialstart": {1}}
EV_PER_EM = 2

STATE_KEYS = ("lockOwner", "lockDepth", "watches", "handlers", "emitterFor", "emitters", "em", "nextEm", "obs", "stopFlag", "evq",
              "dpc", "dcur", "dleft", "dcount", "cs", "dlog", "qlog")


def fn(f, i):
    """Apply a TLA+ function with domain 1..n (printed by TLC as a tuple) or any other domain (parsed as a dict)."""
    return f[i - 1] if isinstance(f, (tuple, list)) else f[i]


class GateLock:
    """Transparent proxy around the observer's RLock with yield points after acquire and around release."""

    def __init__(self, inner, s):
        self.inner = inner
        self.s = s

    def acquire(self, *a, **k):
        if self.inner._owner is self.s.cur:
            self.s.yield_("acq", self.inner)      # re-entrant acquire: the shim's RLock takes it without a yield point
        r = self.inner.acquire(*a, **k)
        self.s.yield_("held", self)
        return r

    def release(self):
        self.s.yield_("prerel", self)
        self.inner.release()
        self.s.yield_("postrel", self)

    __enter__ = acquire

    def __exit__(self, *a):
        self.release()

    def _is_owned(self):
        return self.inner._is_owned()


def _world():
    w = loader.load()
    api = w.mod("observers.api")
    detsched.enable_line_yields([api.BaseObserver.start])
    return w


def _super_start_line(api):
    src, first = inspect.getsourcelines(api.BaseObserver.start)
    for i, ln in enumerate(src):
        if "super().start()" in ln:
            return first + i
    raise RuntimeError("BaseObserver.start: no `super().start()` line")


def obs_replay(family, walk_actions, states, init_state, ev_per_em=EV_PER_EM):
    """Returns None if the walk was replayed with every projected state equal to the model's, else a description."""
    w_ = _world()
    api = w_.mod("observers.api")
    events = w_.mod("events")
    th = w_.shims["threading"]
    super_line = f"line:start:{_super_start_line(api)}"
    programs = PROGRAMS[family]
    scripts = SCRIPTS.get(family, {})
    box = {"em": {}, "dlog": [], "qlog": [], "fail": set(FAIL_START.get(family, ())), "n_em": 0}
    acts = list(walk_actions)
    prev_states = [init_state] + list(states[:-1])

    def program(s):
        box["s"] = s

        def wid(watch):
            return int(watch.path[2:])

        def mkwatch(w):
            return api.ObservedWatch(f"/w{w}", recursive=False)

        class ScriptedEmitter(api.EventEmitter):
            def __init__(self, event_queue, watch, *, timeout=1.0, event_filter=None):
                super().__init__(event_queue, watch, timeout=timeout, event_filter=event_filter)
                box["n_em"] += 1
                self.eid = box["n_em"]
                self.k = 0
                box["em"][self.eid] = self

            def on_thread_start(self):
                w = wid(self.watch)
                if w in box["fail"]:
                    box["fail"].discard(w)
                    # the model does not record an emitter whose start failed inside schedule() (it was never registered);
                    # one that fails inside start() had been registered by its schedule() and stays on record (stopped)
                    self.failed = self not in box["obs"]._emitters
                    raise OSError(24, "scripted: emitter cannot be started")

            def __hash__(self):
                return self.eid

            def __eq__(self, other):
                return self is other

            def queue_events(self, timeout):
                if self.k < ev_per_em:
                    s.yield_("emit")
                    w = wid(self.watch)
                    self.k += 1
                    evid = self.eid * 10 + self.k
                    ev = events.FileModifiedEvent(f"/w{w}/e{evid}")
                    ev.evid = evid
                    box["qlog"].append((evid, w))
                    self.queue_event(ev)
                else:
                    self.stopped_event.wait()

        class RecHandler(events.FileSystemEventHandler):
            def __init__(self, hid):
                self.hid = hid
                self.n = 0

            def dispatch(self, event):
                self.n += 1
                box["dlog"].append((self.hid, event.evid))
                s.yield_("cbin")
                for op in scripts.get((self.hid, self.n), []):
                    s.yield_("gate")
                    do(op)
                    s.yield_("opdone")

            def __hash__(self):
                return self.hid

            def __eq__(self, other):
                return self is other

        obs = api.BaseObserver(ScriptedEmitter, timeout=1.0)
        # the observer's re-entrant lock, whatever its attribute is called
        lock_attr = [k for k, v in vars(obs).items() if isinstance(v, th.RLock().__class__)]
        if len(lock_attr) != 1:
            raise RuntimeError(f"BaseObserver: expected exactly one RLock attribute, found {lock_attr}")
        box["lock_attr"] = lock_attr[0]
        setattr(obs, lock_attr[0], GateLock(getattr(obs, lock_attr[0]), s))
        box["obs"] = obs
        handlers = {}
        box["handlers"] = handlers

        def H(h):
            if h not in handlers:
                handlers[h] = RecHandler(h)
            return handlers[h]

        def do(op):
            k, h, w = op
            try:
                if k == "schedule":
                    obs.schedule(H(h), f"/w{w}", recursive=False)
                elif k == "unschedule":
                    obs.unschedule(mkwatch(w))
                elif k == "add":
                    obs.add_handler_for_watch(H(h), mkwatch(w))
                elif k == "remove":
                    obs.remove_handler_for_watch(H(h), mkwatch(w))
                elif k == "unschedule_all":
                    obs.unschedule_all()
                elif k == "start":
                    obs.start()
                elif k == "stop":
                    obs.stop()
                elif k == "join":
                    s.yield_("prejoin")
                    obs.join()
                else:
                    raise ValueError(op)
            except detsched.SchedAbort:
                raise
            except (KeyError, RuntimeError, OSError):
                pass

        def app(ops):
            for op in ops:
                s.yield_("gate")
                do(op)
                s.yield_("opdone")
            s.yield_("gate")

        ts = [th.Thread(target=app, args=(programs[n],), name=n) for n in ("a1", "a2")]
        for t in ts:
            t.start()
        for t in ts:
            t.join()

    # ------------------------------------------------------------------ tasks
    def inner_lock():
        return getattr(box["obs"], box["lock_attr"]).inner

    def tname(t):
        if t == "disp":
            task = box["obs"]._task
            return None if task is None else task.name
        return t + "#1"

    def task_of(a):
        name, args = a
        if name in ("ECheck", "EQueue"):
            em = box["em"].get(args[0])
            if em is None or em._task is None:
                raise detsched.Divergence(f"{a}: emitter {args[0]} has no thread")
            return em._task.name
        if name in ("DLoop", "DGet", "DLock", "DIter"):
            n = tname("disp")
            if n is None:
                raise detsched.Divergence(f"{a}: the observer thread does not exist")
            return n
        n = tname(args[0])
        if n is None:
            raise detsched.Divergence(f"{a}: no such thread")
        return n

    def find(sched, name):
        for t in sched.tasks:
            if t.name == name:
                return t
        return None

    def skip(k, a, sched):
        try:
            return skip_(k, a, sched)
        except Exception:  # noqa: BLE001
            return False

    def skip_(k, a, sched):
        name, args = a
        if name == "DCbDone":
            return True
        if name == "DIter":
            P = prev_states[k]
            if not P["dleft"]:
                return False
            chosen = set(P["dleft"]) - set(states[k]["dleft"])
            h = next(iter(chosen))
            return h not in fn(P["handlers"], P["dcur"]["w"])
        if name in ("Acq", "Join"):
            t = find(sched, tname(args[0]))
            if t is None:
                return False
            return t.label == ("held" if name == "Acq" else "prerel")
        return False

    def boundary(t, seen):
        lab = t.label
        if seen is None:
            return lab not in ("start",) or not t.name.startswith(("a1", "a2"))
        name, args = st.actions[st.k]
        il = inner_lock()
        if name == "Begin":
            return (lab == "acq" and t.obj is il) or lab in ("held", "prejoin")
        if name == "Acq":
            return lab == "held"
        if name == "Body":
            return lab in ("prerel", "join", super_line)
        if name in ("StartObs", "Join"):
            return lab == "prerel"
        if name == "Rel":
            return lab == "postrel"
        if name in ("PutSentinel", "JoinObs"):
            return lab == "opdone"
        if name == "ECheck":
            return lab == "emit"
        if name == "EQueue":
            return lab == "isset"
        if name == "DLoop":
            return lab == "acq" and t.obj is not il
        if name == "DGet":
            return lab == "isset" or (lab == "acq" and t.obj is il)
        if name == "DLock":
            return lab == "held"
        if name == "DIter":
            return lab in ("cbin", "isset")
        return False

    # ------------------------------------------------------------------ projection
    def thread_state(thr):
        if thr is None or not thr._started:
            return "new"
        return "exited" if thr._finished else "alive"

    def project(sched):
        obs = box["obs"]
        il = inner_lock()
        owner = il._owner
        if owner is None:
            lo = "none"
        elif owner.name in ("a1#1", "a2#1"):
            lo = owner.name[:2]
        else:
            lo = "disp"
        wid = lambda watch: int(watch.path[2:])  # noqa: E731
        handlers = {1: set(), 2: set()}
        for wt, hs in obs._handlers.items():
            handlers[wid(wt)] = {h.hid for h in hs}
        em = {}
        for e in (1, 2, 3):
            o = box["em"].get(e)
            if o is None or getattr(o, "failed", False):
                em[e] = {"st": "none", "flag": False, "left": 0, "w": 0, "pc": "check"}
            else:
                stt = {"new": "created", "alive": "running", "exited": "exited"}[thread_state(o)]
                em[e] = {"st": stt, "flag": bool(o.stopped_event._flag), "left": ev_per_em - o.k, "w": wid(o.watch),
                         "pc": "emit" if (o._task is not None and o._task.label == "emit" and o._task.state != "done") else "check"}
        evq = []
        for entry in list(obs.event_queue.queue):
            if entry is api.EventDispatcher.stop_event:
                evq.append((0, 0))
            else:
                evq.append((entry[0].evid, wid(entry[1])))
        return {"lockOwner": lo, "lockDepth": il._count,
                "watches": {wid(x) for x in obs._watches}, "handlers": handlers,
                "emitterFor": {w: 0 for w in (1, 2)} | {wid(wt): e.eid for wt, e in obs._emitter_for_watch.items()},
                "emitters": {e.eid for e in obs._emitters}, "em": em, "nextEm": box["n_em"] + 1,
                "obs": {"new": "new", "alive": "alive", "exited": "exited"}[thread_state(obs)],
                "stopFlag": bool(obs.stopped_event._flag), "evq": evq, "dlog": list(box["dlog"]), "qlog": list(box["qlog"]),
                "dcount": {h: (box["handlers"][h].n if h in box["handlers"] else 0) for h in (1, 2, 3)}}

    def want_of(N):
        return {"lockOwner": N["lockOwner"], "lockDepth": N["lockDepth"],
                "watches": set(N["watches"]), "handlers": {w: set(fn(N["handlers"], w)) for w in (1, 2)},
                "emitterFor": {w: fn(N["emitterFor"], w) for w in (1, 2)}, "emitters": set(N["emitters"]),
                "em": {e: {f: fn(N["em"], e)[f] for f in ("st", "flag", "left", "w", "pc")} for e in (1, 2, 3)},
                "nextEm": N["nextEm"], "obs": N["obs"], "stopFlag": N["stopFlag"],
                "evq": [(x["ev"], x["w"]) for x in N["evq"]],
                "dlog": [(x["h"], x["ev"]) for x in N["dlog"]], "qlog": [(x["ev"], x["w"]) for x in N["qlog"]],
                "dcount": {h: fn(N["dcount"], h) for h in (1, 2, 3)}}

    ALWAYS = ("lockOwner", "lockDepth", "obs", "stopFlag", "evq", "dlog", "qlog", "dcount")
    WHEN_FREE = ("watches", "handlers", "emitterFor", "emitters", "nextEm")

    def after(k, a, sched):
        try:
            return after_(k, a, sched)
        except detsched.SchedAbort:
            raise
        except Exception as e:  # noqa: BLE001  (an exception here would leave the scheduler without a baton holder)
            import traceback

            return {"k": k, "action": a, "harness_error": traceback.format_exc()[-600:]}

    def after_(k, a, sched):
        N = states[k]
        have, want = project(sched), want_of(N)
        keys = list(ALWAYS) + (list(WHEN_FREE) if N["lockOwner"] == "none" else [])
        diff = {x: {"model": want[x], "code": have[x]} for x in keys if have[x] != want[x]}
        for e in (1, 2, 3):
            hm, wm = have["em"][e], want["em"][e]
            # an emitter being constructed / started inside a critical section is compared once the lock is free;
            # thread state, stop flag and progress of an existing emitter are visible to everybody at once
            fields = ("st", "flag", "left", "pc") if wm["st"] != "none" and hm["st"] != "none" else ()
            if N["lockOwner"] == "none":
                fields = ("st", "flag", "left", "w", "pc")
            for f in fields:
                if hm[f] != wm[f] and not (f == "pc" and wm["st"] != "running"):
                    diff[f"em[{e}].{f}"] = {"model": wm[f], "code": hm[f]}
        if diff:
            return {"k": k, "action": a, "diff": diff}
        return None

    st = replayer.MacroReplay(acts, task_of, boundary, after, skip=skip, stop_when_done=True, max_inner=400)
    s = detsched.run(program, st)
    if st.mismatch is not None:
        return st.mismatch
    if st.k != len(acts):
        return {"outcome": s.outcome, "error": str(s.error or s.divergence)[:300], "k": st.k,
                "action": acts[st.k] if st.k < len(acts) else None}
    return None
