"""C09  A snapshot diff is a correct, minimal, inode-faithful description of the change.

1. TLC checks spec/SnapshotDiff.tla: Diff() (a step-by-step transcription of DirectorySnapshotDiff.__init__)
   satisfies the ten named laws C09_* over ALL ordered pairs of snapshots of a bounded universe, with and
   without ignore_device; a negative config (second move loop dropped) must be rejected (the laws have teeth).
2. The same universes are re-enumerated here (the count is compared with the one TLC prints); every tree is
   served to the REAL DirectorySnapshot through injectable stat/listdir (recursive and non-recursive), the
   REAL DirectorySnapshotDiff is run on every ordered pair (also through `-` and the ContextManager), and
   (ref, snap, ignore_device, the eight actual lists in both directions) goes as one trace line to
   spec/SnapshotDiffTrace.tla whose monitors P_C09_* are the laws themselves.
3. Random larger trees (seeded by --seed) go through the same monitors.
"""

from __future__ import annotations

import errno
import itertools
import multiprocessing as mp
import os
import random
import stat as statmod
import sys

sys.path.insert(0, os.path.dirname(os.path.dirname(os.path.abspath(__file__))))

from harness import checklib, loader, tlc  # noqa: E402

ROOT = "/r"
NAMES = {1: "a", 2: "b", 3: "c", 4: "d", 5: "e"}

# ------------------------------------------------------------------------------------------ universes
FLAT = [(1,), (2,)]
SMALL = FLAT + [(1, 1)]
FULL = FLAT + [(1, 1), (1, 2), (2, 1), (2, 2)]
ROOT_FIXED = [(0, 1, True, 1, 1)]

# name -> (cfg, paths, inodes, devs, mtimes, sizes, max entries, root records)
UNIVERSES = {
    "quick": ("SnapshotDiff_quick.cfg", FLAT, [1, 2], [1, 2], [1, 2], [1], 2, ROOT_FIXED),
    "thorough": ("SnapshotDiff_thorough.cfg", SMALL, [1, 2, 3], [1, 2], [1, 2], [1], 2, ROOT_FIXED),
    "sizes": ("SnapshotDiff_sizes.cfg", FLAT, [1, 2, 3], [1], [1, 2], [1, 2], 2, ROOT_FIXED),
    "deep": ("SnapshotDiff_deep.cfg", FULL, [1, 2, 3], [1], [1], [1], 3, ROOT_FIXED),
    # real code only (no TLC design run: 4.4M states); its lines are reduced to isomorphism classes
    "full": (None, FULL, [1, 2, 3], [1, 2], [1, 2], [1], 2, ROOT_FIXED),
    "root": ("SnapshotDiff_root.cfg", FLAT, [1, 2], [1, 2], [1], [1], 2,
             [(i, d, True, 1, 1) for i in (0, 1, 2) for d in (1, 2)]),
}


def universe(paths, inodes, devs, mtimes, sizes, maxe, rootrecs):
    """All trees  path tuple -> (ino, dev, isdir, mtime, size)  of SnapshotDiff.tla!Snapshots."""
    paths = sorted(paths)
    recs = list(itertools.product(inodes, devs, (False, True), mtimes, sizes))
    out = []
    for k in range(maxe + 1):
        for P in itertools.combinations(paths, k):
            Ps = set(P)
            if any(len(p) > 1 and p[:-1] not in Ps for p in P):
                continue
            for root in rootrecs:
                for combo in itertools.product(recs, repeat=k):
                    s = {(): root}
                    s.update(zip(P, combo))
                    ids = {(v[0], v[1]) for v in s.values()}
                    if len(ids) != len(s):
                        continue
                    if any(len(p) > 1 and not s[p[:-1]][2] for p in P):
                        continue
                    out.append(s)
    return out


# ------------------------------------------------------------------------------------------ fake file system
def pstr(p):
    return ROOT + "".join("/" + NAMES[n] for n in p)


class FakeStat:
    """os.stat_result-like."""

    __slots__ = ("st_ino", "st_dev", "st_mode", "st_mtime", "st_size")

    def __init__(self, rec):
        self.st_ino, self.st_dev, isdir, self.st_mtime, self.st_size = rec
        self.st_mode = (statmod.S_IFDIR | 0o755) if isdir else (statmod.S_IFREG | 0o644)


class FakeEntry:
    """os.DirEntry-like: only .name is used by DirectorySnapshot.walk."""

    __slots__ = ("name",)

    def __init__(self, name):
        self.name = name


class TreeFS:
    """Serves one tree (switchable) through stat/listdir callables."""

    def __init__(self, tree):
        self.set(tree)

    def set(self, tree):
        self.byname = {pstr(p): rec for p, rec in tree.items()}
        self.children = {}
        for p in sorted(tree):
            if p:
                self.children.setdefault(pstr(p[:-1]), []).append(NAMES[p[-1]])

    def stat(self, path):
        rec = self.byname.get(path)
        if rec is None:
            raise FileNotFoundError(errno.ENOENT, "no such entry", path)
        return FakeStat(rec)

    def listdir(self, path):
        rec = self.byname.get(path)
        if rec is None:
            raise FileNotFoundError(errno.ENOENT, "no such entry", path)
        if not rec[2]:
            raise NotADirectoryError(errno.ENOTDIR, "not a directory", path)
        return iter([FakeEntry(n) for n in self.children.get(path, [])])


_DS = None


def ds_module():
    """watchdog.utils.dirsnapshot from loader.REPO_SRC (= $WATCHDOG_SRC or /repo/src), never from anywhere else."""
    global _DS
    if _DS is None:
        if loader.REPO_SRC not in sys.path:
            sys.path.insert(0, loader.REPO_SRC)
        import watchdog.utils.dirsnapshot as m

        if not os.path.realpath(m.__file__).startswith(os.path.realpath(loader.REPO_SRC)):
            raise RuntimeError(f"dirsnapshot imported from {m.__file__}, expected {loader.REPO_SRC}")
        _DS = m
    return _DS


def readback(snapshot):
    """The snapshot as its public accessors describe it: sorted list of [path, ino, dev, isdir, mtime, size]."""
    out = []
    for p in sorted(snapshot.paths):
        ino, dev = snapshot.inode(p)
        out.append([p, int(ino), int(dev), bool(snapshot.isdir(p)), int(snapshot.mtime(p)), int(snapshot.size(p))])
    return out


LISTS = (("fc", "files_created"), ("fd", "files_deleted"), ("fm", "files_modified"), ("fv", "files_moved"),
         ("dc", "dirs_created"), ("dd", "dirs_deleted"), ("dm", "dirs_modified"), ("dv", "dirs_moved"))


def lists_of(diff):
    out = {}
    for k, attr in LISTS:
        v = getattr(diff, attr)
        out[k] = sorted([list(x) for x in v]) if k in ("fv", "dv") else sorted(v)
    return out


def canonical(ln):
    """The line with inode numbers, device ids, mtimes and sizes renamed in order of first appearance.  The monitors
    only compare such values for equality, so their verdict on a line and on its canonical form is the same: lines
    are validated once per isomorphism class (paths are kept)."""
    maps = ({}, {}, {}, {})

    def ren(es):
        out = []
        for p, ino, dev, isdir, mt, sz in es:
            vals = []
            for m, v in zip(maps, (ino, dev, mt, sz)):
                vals.append(m.setdefault(v, len(m) + 1))
            out.append([p, vals[0], vals[1], isdir, vals[2], vals[3]])
        return out

    ref = ren(ln["ref"])
    snap = ren(ln["snap"])
    return {"ref": ref, "snap": snap, "ig": ln["ig"], "d": ln["d"], "r": ln["r"], "exc": ln["exc"]}


class LineSet:
    """Distinct lines by canonical form, with one original example and a multiplicity."""

    def __init__(self):
        self.d = {}

    def add(self, ln):
        can = canonical(ln)
        key = repr((can["ref"], can["snap"], can["ig"], can["d"], can["r"], can["exc"]))
        e = self.d.get(key)
        if e is None:
            self.d[key] = [can, ln, 1]
        else:
            e[2] += 1

    def merge(self, other):
        for key, e in other.items():
            mine = self.d.get(key)
            if mine is None:
                self.d[key] = e
            else:
                mine[2] += e[2]
                if (e[1]["via"], e[1]["rec"], e[1]["ij"]) < (mine[1]["via"], mine[1]["rec"], mine[1]["ij"]):
                    mine[1] = e[1]


EMPTY = {k: [] for k, _ in LISTS}


def run_diff(fn):
    """(lists, exception text) of one evaluation of the real code; an exception on a well-formed pair is a finding."""
    try:
        return lists_of(fn()), ""
    except Exception as e:  # noqa: BLE001
        return dict(EMPTY), f"{type(e).__name__}: {e}"[:120]


# ------------------------------------------------------------------------------------------ workers
_W = {}


def _pairs_job(args):
    """Lines for all pairs (i, j), i in `rows`, j >= i, both ignore_device values, objects of mode `rec`."""
    uname, rec, rows, ctx_every = args
    ds = ds_module()
    trees = _W["trees"][uname]
    snaps = _W["snaps"].get((uname, rec))
    if snaps is None:
        snaps = []
        for t in trees:
            fs = TreeFS(t)
            s = ds.DirectorySnapshot(ROOT, recursive=rec, stat=fs.stat, listdir=fs.listdir)
            snaps.append((s, readback(s)))
        _W["snaps"][(uname, rec)] = snaps
    lines = LineSet()
    n_eval = 0
    n_alt = 0
    for i in rows:
        si, ri = snaps[i]
        if not rec and _W["nonrec_first"][uname][i] != i:
            continue  # non-recursive: one representative tree per distinct snapshot content
        for j in range(i, len(snaps)):
            if not rec and _W["nonrec_first"][uname][j] != j:
                continue
            sj, rj = snaps[j]
            for ig in (False, True):
                d, e1 = run_diff(lambda: ds.DirectorySnapshotDiff(si, sj, ignore_device=ig))
                r, e2 = run_diff(lambda: ds.DirectorySnapshotDiff(sj, si, ignore_device=ig))
                n_eval += 2
                lines.add({"ref": ri, "snap": rj, "ig": ig, "d": d, "r": r, "exc": e1 or e2, "via": "ctor", "rec": rec,
                           "u": uname, "ij": [i, j]})
                if not ig:
                    # the `-` operator:  snap - ref
                    d2, e3 = run_diff(lambda: sj - si)
                    r2, e4 = run_diff(lambda: si - sj)
                    n_alt += 2
                    if d2 != d or r2 != r or (e3 or e4) != (e1 or e2):
                        lines.add({"ref": ri, "snap": rj, "ig": ig, "d": d2, "r": r2, "exc": e3 or e4, "via": "sub",
                                   "rec": rec, "u": uname, "ij": [i, j]})
                if ctx_every and (i * 7919 + j * 31 + int(ig)) % ctx_every == 0:
                    # the ContextManager: snapshot, change the tree, snapshot, diff
                    out = []
                    for a, b in ((i, j), (j, i)):
                        fs = TreeFS(trees[a])
                        cm = ds.DirectorySnapshotDiff.ContextManager(ROOT, recursive=rec, stat=fs.stat,
                                                                      listdir=fs.listdir, ignore_device=ig)

                        def through_cm(cm=cm, fs=fs, b=b):
                            with cm:
                                fs.set(trees[b])
                            return cm.diff

                        ls, e = run_diff(through_cm)
                        out.append((ls, e, ri if e else readback(cm.pre_snapshot), rj if e else readback(cm.post_snapshot)))
                    n_alt += 2
                    (d3, e5, pre, post), (r3, e6, _, _) = out
                    if d3 != d or r3 != r or pre != ri or post != rj or (e5 or e6) != (e1 or e2):
                        lines.add({"ref": pre, "snap": post, "ig": ig, "d": d3, "r": r3, "exc": e5 or e6, "via": "ctx",
                                   "rec": rec, "u": uname, "ij": [i, j]})
    return lines.d, n_eval, n_alt


# ------------------------------------------------------------------------------------------ random larger trees
def random_tree(rng, n_names=4, depth=3, max_entries=10, inode_pool=14, unique_ino=True):
    tree = {(): (0, 1, True, 1, 1)}
    used = {(0, 1)}
    dirs = [()]
    for _ in range(rng.randint(0, max_entries)):
        parent = rng.choice(dirs)
        if len(parent) >= depth:
            continue
        p = parent + (rng.randint(1, n_names),)
        if p in tree:
            continue
        for _try in range(20):
            ino, dev = rng.randint(1, inode_pool), rng.choice((1, 1, 2))
            if (ino, dev) not in used and (not unique_ino or all(u[0] != ino for u in used)):
                break
        else:
            continue
        used.add((ino, dev))
        isdir = rng.random() < 0.45
        tree[p] = (ino, dev, isdir, rng.randint(1, 3), rng.randint(1, 3))
        if isdir:
            dirs.append(p)
    return tree


def mutate_tree(rng, tree, n_names=4, depth=3, inode_pool=14, unique_ino=True):
    """A related tree: a few random operations (rename/move, swap, modify, delete subtree, create, replace by a new
    inode, kind change in place, device change), keeping one path per inode."""
    t = dict(tree)

    def fresh():
        for _ in range(50):
            ino, dev = rng.randint(1, inode_pool), rng.choice((1, 1, 2))
            if all(((v[0], v[1]) != (ino, dev)) and (not unique_ino or v[0] != ino) for v in t.values()):
                return ino, dev
        return None

    def subtree(p):
        return [q for q in t if q[: len(p)] == p]

    for _ in range(rng.randint(1, 4)):
        nonroot = [p for p in t if p]
        dirs = [p for p in t if t[p][2] and len(p) < depth]
        op = rng.choice(("move", "move", "swap", "mod", "del", "new", "reino", "kind", "dev"))
        if op == "move" and nonroot:
            p = rng.choice(nonroot)
            targets = [d for d in dirs if d[: len(p)] != p]
            if not targets:
                continue
            q = rng.choice(targets) + (rng.randint(1, n_names),)
            sub = subtree(p)
            if q in t or any(len(q) + len(x) - len(p) > depth for x in sub):
                continue
            moved = {q + x[len(p):]: t[x] for x in sub}
            for x in sub:
                del t[x]
            t.update(moved)
        elif op == "swap" and len(nonroot) >= 2:
            p, q = rng.sample(nonroot, 2)
            if subtree(p) != [p] or subtree(q) != [q]:
                continue
            t[p], t[q] = t[q], t[p]
        elif op == "mod" and t:
            p = rng.choice(list(t))
            v = t[p]
            t[p] = (v[0], v[1], v[2], v[3] + rng.randint(0, 1), v[4] + rng.randint(0, 1))
        elif op == "del" and nonroot:
            p = rng.choice(nonroot)
            for x in subtree(p):
                del t[x]
        elif op == "new" and dirs:
            q = rng.choice(dirs) + (rng.randint(1, n_names),)
            f = fresh()
            if q in t or f is None:
                continue
            t[q] = (f[0], f[1], rng.random() < 0.4, rng.randint(1, 3), rng.randint(1, 3))
        elif op == "reino" and nonroot:
            p = rng.choice(nonroot)
            f = fresh()
            if f is None:
                continue
            v = t[p]
            t[p] = (f[0], f[1], v[2], v[3], v[4])
        elif op == "kind" and nonroot:
            p = rng.choice(nonroot)
            if subtree(p) != [p]:
                continue
            v = t[p]
            f = fresh() if rng.random() < 0.7 else (v[0], v[1])
            if f is None:
                continue
            t[p] = (f[0], f[1], not v[2], v[3], v[4])
        elif op == "dev":
            # the whole tree (or one entry) is seen under another device id
            if rng.random() < 0.5:
                cand = {p: (v[0], 3 - v[1] if v[1] in (1, 2) else v[1], v[2], v[3], v[4]) for p, v in t.items()}
            else:
                p = rng.choice(list(t))
                v = t[p]
                cand = dict(t)
                cand[p] = (v[0], 3 - v[1], v[2], v[3], v[4])
            if len({(v[0], v[1]) for v in cand.values()}) == len(cand):
                t = cand
    return t


def _random_job(args):
    seed, n = args
    ds = ds_module()
    rng = random.Random(seed)
    lines = LineSet()
    n_eval = 0
    for k in range(n):
        unique_ino = rng.random() < 0.7
        a = random_tree(rng, unique_ino=unique_ino)
        b = mutate_tree(rng, a, unique_ino=unique_ino) if rng.random() < 0.85 else random_tree(rng, unique_ino=unique_ino)
        rec = rng.random() < 0.8
        ig = unique_ino and rng.random() < 0.5
        fa, fb = TreeFS(a), TreeFS(b)
        sa = ds.DirectorySnapshot(ROOT, recursive=rec, stat=fa.stat, listdir=fa.listdir)
        sb = ds.DirectorySnapshot(ROOT, recursive=rec, stat=fb.stat, listdir=fb.listdir)
        d, e1 = run_diff(lambda: ds.DirectorySnapshotDiff(sa, sb, ignore_device=ig))
        r, e2 = run_diff(lambda: ds.DirectorySnapshotDiff(sb, sa, ignore_device=ig))
        n_eval += 2
        lines.add({"ref": readback(sa), "snap": readback(sb), "ig": ig, "d": d, "r": r, "exc": e1 or e2, "via": "random",
                   "rec": rec,
                   "u": "random", "ij": [seed, k]})
    return lines.d, n_eval, 0


# ------------------------------------------------------------------------------------------ the check
MONITORS = ["P_C09_Consistent", "P_C09_Partition", "P_C09_Moved", "P_C09_Created", "P_C09_Deleted", "P_C09_Modified",
            "P_C09_Kinds", "P_C09_SelfEmpty", "P_C09_Swap", "P_C09_IgnoreDevice", "P_C09_Returns"]
INVARIANTS = ["C09_Consistent", "C09_Partition", "C09_Moved", "C09_Created", "C09_Deleted", "C09_Modified",
              "C09_Kinds", "C09_SelfEmpty", "C09_Swap", "C09_IgnoreDevice"]


def run(c: checklib.Check):
    ds = ds_module()
    c.note(f"dirsnapshot under test: {ds.__file__}")
    # "root": the root's own inode / device vary and collide with the entries' (a root that is a renamed child, a child that
    # is the old root): also in the quick tier
    design = ["quick", "root"] if not c.thorough else ["quick", "sizes", "deep", "root", "thorough"]
    exhaustive_py = ["quick", "root"] if not c.thorough else ["quick", "sizes", "deep", "root", "thorough", "full"]

    # ---- 1. design spec: the laws hold for the transcription over all ordered pairs
    # negative config first: the laws must reject a Diff without the second move loop
    rn = tlc.run_tlc("SnapshotDiff", "SnapshotDiff_neg.cfg", workers=c.jobs, timeout=600)
    c.add_tlc("SnapshotDiff:neg", rn)
    if not rn.violated or rn.errors:
        c.machinery_failure(f"negative config SnapshotDiff_neg.cfg was not rejected: {rn.violated} {rn.errors[:2]}")
    rc = tlc.run_tlc("SnapshotDiff", "SnapshotDiff_cover.cfg", workers=c.jobs, timeout=600, extra=["-continue"],
                     coverage=True)
    c.add_tlc("SnapshotDiff:cover", rc)
    missing = {"CoverMove", "CoverReplace", "CoverDevOnly"} - set(rc.violated)
    if missing or rc.errors or rc.coverage.get("Compute", 0) == 0:
        c.machinery_failure(f"vacuity: cover predicates not reached: {sorted(missing)} {rc.errors[:2]} {rc.coverage}")
    sizes = {}
    for u in design:
        cfg = UNIVERSES[u][0]
        r = tlc.run_tlc("SnapshotDiff", cfg, workers=c.jobs, timeout=3000, heap="8g")
        c.add_tlc("SnapshotDiff:" + cfg, r)
        if not r.ok:
            # DESIGN §3: a design counterexample is not a verdict on the code; the trace checks below decide
            c.machinery_failure(f"design spec {cfg}: violated={r.violated} errors={r.errors[:2]}\n{r.output[-1500:]}")
        tag = tlc.find_tagged(r.output, "C09UNIVERSE")
        sizes[u] = tag[0][1] if tag else None
        n = sizes[u]
        if n is None or r.distinct != 2 * n + 2 * n * n:
            c.machinery_failure(f"{cfg}: {r.distinct} states for {n} snapshots (expected 2n + 2n^2)")
        c.note(f"TLC {cfg}: {n} snapshots, {n * n} ordered pairs x 2 ignore_device = {r.distinct} states, "
               f"{len(INVARIANTS)} laws, {r.wall:.1f}s")

    # ---- 2. code -> spec over the same universes
    trees = {u: universe(*UNIVERSES[u][1:]) for u in exhaustive_py}
    for u in exhaustive_py:
        if u in sizes and sizes[u] != len(trees[u]):
            c.machinery_failure(f"universe {u}: TLC enumerates {sizes[u]} snapshots, Python {len(trees[u])}")
    nonrec_first = {}
    for u, ts in trees.items():
        seen = {}
        first = []
        for i, t in enumerate(ts):
            key = tuple(sorted((p, v) for p, v in t.items() if len(p) <= 1))
            first.append(seen.setdefault(key, i))
        nonrec_first[u] = first
    _W["trees"] = trees
    _W["snaps"] = {}
    _W["nonrec_first"] = nonrec_first

    jobs = []
    for u in exhaustive_py:
        n = len(trees[u])
        ctx_every = 3 if u == "quick" else 97
        step = max(1, n // (c.jobs * 6))
        for rec in (True, False):
            # rows i carry (n - i) pairs: interleave so that jobs are balanced
            k = max(1, n // step)
            for a in range(k):
                rows = list(range(a, n, k))
                jobs.append((u, rec, rows, ctx_every))
    nrand = 20000 if c.thorough else 2000
    per = 250
    rjobs = [(c.seed * 1000003 + s, per) for s in range(nrand // per)]

    allines = LineSet()
    n_eval = n_alt = 0
    with mp.get_context("fork").Pool(c.jobs) as pool:
        for ls, ne, na in pool.imap_unordered(_pairs_job, jobs, chunksize=1):
            allines.merge(ls)
            n_eval += ne
            n_alt += na
        n_exh = len(allines.d)
        for ls, ne, na in pool.imap_unordered(_random_job, rjobs, chunksize=1):
            allines.merge(ls)
            n_eval += ne
    entries = sorted(allines.d.values(), key=lambda e: (e[1]["via"], e[1]["u"], e[1]["rec"], e[1]["ij"], e[1]["ig"]))
    ulines = [e[0] for e in entries]
    origs = [e[1] for e in entries]
    nontrivial = sum(1 for ln in ulines if any(ln["d"][k] for k, _ in LISTS))
    c.note(f"real DirectorySnapshotDiff: {n_eval} evaluations (+{n_alt} via `-`/ContextManager); distinct lines up to "
           f"renaming of inode/device/mtime/size values: {n_exh} exhaustive + {len(ulines) - n_exh} random, "
           f"{nontrivial} with a non-empty diff")

    # observation (not a law of C09 as written, see SnapshotDiff.tla): with ignore_device an entry that kept its inode
    # NUMBER but changed both path and device id is reported as deleted + created, not as moved
    def dev_blind_move_missed(ln):
        if not ln["ig"] or any(len({e[1] for e in ln[k]}) != len(ln[k]) for k in ("ref", "snap")):
            return False                      # the laws only speak about one path per inode number
        moved = {tuple(m) for m in ln["d"]["fv"] + ln["d"]["dv"]}
        return any(a[1] == b[1] and a[2] != b[2] and a[0] != b[0] and (a[0], b[0]) not in moved
                   for a in ln["ref"] for b in ln["snap"])

    n_obs = sum(1 for ln in origs if dev_blind_move_missed(ln))
    c.cov["observation_ignore_device_move_reported_as_delete_create"] = n_obs
    c.note(f"observation: {n_obs} distinct ignore_device=True lines where an inode number found under another path AND "
           f"another device id is reported as deleted+created instead of moved (allowed by the permissive reading)")

    batch = 400
    traces = [ulines[a : a + batch] for a in range(0, len(ulines), batch)]
    chunk = max(1, len(traces) // c.jobs + 1)
    verdicts, stats = tlc.validate_traces("SnapshotDiffTrace", "SnapshotDiffTrace.cfg", traces, chunk=chunk,
                                          parallel=c.jobs, dfs_queue=False, timeout=3000)
    c.add_trace_stats("SnapshotDiffTrace", len(traces), stats)
    c.cov["states"] += stats["distinct"]
    c.cov["transitions"] += stats["generated"]
    nbad = ndrift = 0
    for ti, (tr, v) in enumerate(zip(traces, verdicts)):
        if v["accepted"] and not v["viol"]:
            continue
        if v["furthest"] <= len(tr) and not v["viol"]:
            c.machinery_failure(f"trace batch {ti} was not consumed (line {v['furthest']}): {tr[v['furthest'] - 1]}")
        for code in sorted(v["viol"]):
            if code < 0:
                ndrift += -code         # Level I: lists differ from the transcription; never a verdict (DESIGN §3)
                continue
            lno, rev, mask = code // 4096, bool(code & 2048), code & 2047
            ln = origs[ti * batch + lno - 1]
            if rev:
                ln = dict(ln, ref=ln["snap"], snap=ln["ref"], d=ln["r"], r=ln["d"])
            for k, clause in enumerate(MONITORS):
                if mask & (1 << k):
                    nbad += 1
                    c.violation(clause,
                                f"law {clause[6:]} does not hold for DirectorySnapshotDiff(ref, snap, ignore_device="
                                f"{ln['ig']}) [via {ln['via']}, universe {ln['u']}, recursive={ln['rec']}]: ref={ln['ref']} "
                                f"snap={ln['snap']} lists={ln['d']} reverse lists={ln['r']} exception={ln['exc']!r}",
                                {"case": ln, "trace_spec": ["SnapshotDiffTrace", "SnapshotDiffTrace.cfg"]},
                                signature=clause)
    c.cov["drift_traces"] += ndrift
    c.note(f"Level I: {ndrift} lines differ from the transcription SnapshotDiff!Diff (drift; 0 = the model describes the code)")
    c.note(f"SnapshotDiffTrace: {len(traces)} batches / {len(ulines)} lines validated in {stats['wall_s']}s, "
           f"{nbad} law failures (first 3 failing lines per batch are decoded)")

    c.cov["evaluations"] += n_eval + n_alt
    c.cov["distinct_nontrivial"] = nontrivial
    c.cov["exhaustive"] = True
    c.cov["rule"] = ("every ordered pair of snapshots of the universes %s (same sets as SnapshotDiff.tla!Snapshots, counts "
                     "compared with TLC), recursive and non-recursive DirectorySnapshot objects, ignore_device on/off, "
                     "plus %d random pairs of larger trees (4 names, depth 3, <= 10 entries; seed %d); an evaluation = one "
                     "call of the real DirectorySnapshotDiff; distinct = distinct (ref, snap, ig, lists) lines up to renaming of "
                     "inode/device/mtime/size values (the monitors are invariant under it); "
                     "non-trivial = the forward diff is not empty" % (exhaustive_py, nrand, c.seed))
    mid = origs[len(origs) // 2]
    c.sample({k: mid[k] for k in ("ref", "snap", "ig", "d")})
    c.assumptions += [
        "every inode has one path within a snapshot (hypothesis of C09; with ignore_device: every inode NUMBER)",
        "snapshots are read back through DirectorySnapshot.paths/inode/isdir/mtime/size (public accessors)",
        "ignore_device: an entry whose inode number is kept under another path AND another device may be reported "
        "either as moved or as deleted+created (permissive reading; the code does the latter)",
        "a kept-but-moved entry that changed mtime/size may be listed as modified under its old or its new path",
    ]


def replay(path):
    """--replay: rebuild both snapshots of the recorded case through the fake file system, run the real diff again in
    both directions and validate the fresh line."""
    import json

    d = json.load(open(path))
    case = d.get("replay", {}).get("case")
    if not case:
        return None
    ds = ds_module()
    rnames = {v: k for k, v in NAMES.items()}

    def tree_of(entries):
        t = {}
        for p, ino, dev, isdir, mt, sz in entries:
            t[tuple(rnames[x] for x in p[len(ROOT):].split("/")[1:])] = (ino, dev, isdir, mt, sz)
        return t

    print(f"replay of {d.get('property')} clause={d.get('clause')}: {d.get('what')[:300]}")
    snaps = []
    for k in ("ref", "snap"):
        fs = TreeFS(tree_of(case[k]))
        snaps.append(ds.DirectorySnapshot(ROOT, recursive=True, stat=fs.stat, listdir=fs.listdir))
    ig = case["ig"]
    if case.get("via") == "sub":
        dd, e1 = run_diff(lambda: snaps[1] - snaps[0])
        rr, e2 = run_diff(lambda: snaps[0] - snaps[1])
    else:
        dd, e1 = run_diff(lambda: ds.DirectorySnapshotDiff(snaps[0], snaps[1], ignore_device=ig))
        rr, e2 = run_diff(lambda: ds.DirectorySnapshotDiff(snaps[1], snaps[0], ignore_device=ig))
    line = {"ref": readback(snaps[0]), "snap": readback(snaps[1]), "ig": ig, "d": dd, "r": rr, "exc": e1 or e2}
    print("  ", json.dumps(line))
    verdicts, _ = tlc.validate_traces("SnapshotDiffTrace", "SnapshotDiffTrace.cfg", [[line]], parallel=1, dfs_queue=False)
    bad = sorted({MONITORS[k] for code in verdicts[0]["viol"] if code > 0 for k in range(len(MONITORS))
                  if (code & 2047) & (1 << k)})
    print("verdict:", "accepted" if not bad else f"violated: {bad}")
    return 1 if bad else 0


if __name__ == "__main__":
    if "--replay" in sys.argv:
        rc = replay(sys.argv[sys.argv.index("--replay") + 1])
        if rc is not None:
            sys.exit(rc)
    checklib.main_wrapper("C09", run)
