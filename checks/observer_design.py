"""TLC runs of the design model Observer.tla for the observer properties (exhaustive, small constants).

Positive configurations must hold; the negative ones (a repaired defect switched back on) must FAIL with exactly the
named invariant -- that is the demonstration that the invariants are not vacuous."""
from harness import tlc

POS = {
    "C04": ["Observer_dispatch.cfg", "Observer_callback.cfg"],
    "C05": ["Observer_dispatch.cfg", "Observer_callback.cfg"],
    "C06": ["Observer_lifecycle.cfg", "Observer_stoprace.cfg", "Observer_stopfirst.cfg", "Observer_doublestart.cfg", "Observer_live.cfg"],
    "C13": ["Observer_registry.cfg", "Observer_startrace.cfg", "Observer_doublestart.cfg", "Observer_partialstart.cfg"],
}
NEG = {
    "C06": [("Observer_neg_D12.cfg", "C06_AllExitedAfterJoin"), ("Observer_neg_D17.cfg", "C06_AllExitedAfterJoin")],
    "C13": [("Observer_neg_D3.cfg", "C13_NoStaleHandlers"), ("Observer_neg_D10.cfg", "C13_EveryScheduledWatchRuns"),
            ("Observer_neg_D18.cfg", "C13_ScheduledWatchHasEmitter"), ("Observer_neg_D20.cfg", "C13_StartRetrySucceeds")],
}


def run_design(c, prop):
    for cfg in POS.get(prop, []):
        r = tlc.run_tlc("Observer", cfg, workers=c.jobs, timeout=3000, heap="8g")
        c.add_tlc("Observer:" + cfg, r)
        if not r.ok:
            c.machinery_failure(f"design spec {cfg} violated: {r.violated} {r.errors[:2]}")
        c.note(f"TLC {cfg}: {r.distinct} distinct states, depth {r.depth}, {r.wall:.1f}s")
    for cfg, inv in NEG.get(prop, []):
        r = tlc.run_tlc("Observer", cfg, workers=c.jobs, timeout=3000, heap="8g")
        if inv not in r.violated:
            c.machinery_failure(f"vacuity: {cfg} (defect switched back on) did not violate {inv}: {r.summary()}")
        c.note(f"TLC {cfg}: {inv} violated as expected (the invariant is sensitive to the repaired defect)")


# ----------------------------------------------------------------------------- spec -> code replay (DESIGN §13)

REPLAY = {
    "C04": ["dispatch", "callback"],
    "C05": ["dispatch", "callback"],
    "C06": ["lifecycle", "stoprace", "stopfirst", "doublestart"],
    "C13": ["failing", "startrace", "doublestart", "partialstart"],
}
FULL_CFG = {"failing": "Observer_registry.cfg"}


def _replay_job(args):
    from checks import scen_observer_replay as sor

    return sor.obs_replay(*args)


def run_replay(c, prop):
    """Walks of a transition cover of the dumped state graph of Observer.tla, replayed action by action on the real
    BaseObserver with the projected state compared after every action.  Quick: the cover configurations (one event per
    emitter), every walk; thorough: the configurations the invariants are checked on (two events per emitter), a seeded
    sample.  The model's choice of the next handler of the copied set is restricted to the order the harness' handlers
    hash in.  A divergence is drift (the model no longer describes this code), never a violation."""
    import collections
    import multiprocessing as mp
    import os
    import random
    import shutil

    from checks import scen_observer_replay as sor
    from harness import tlagraph

    tot_walks = tot_steps = tot_bad = tot_edges = 0
    for fam in REPLAY.get(prop, []):
        cfg, evs = (FULL_CFG.get(fam, f"Observer_{fam}.cfg"), 2) if c.thorough else (f"Observer_cover_{fam}.cfg", 1)
        tmp = tlc.scratch_dir()
        try:
            dot = os.path.join(tmp, "o.dot")
            r = tlc.run_tlc("Observer", cfg, workers=c.jobs, dump=dot, timeout=3000, heap="8g")
            tlc.require_ok(r, f"cover model {cfg}")
            g = tlagraph.load_dot(dot)
        finally:
            shutil.rmtree(tmp, ignore_errors=True)
        keep = []
        for a, b, lab in g.edges:
            if lab.startswith("DIter"):
                A, B = g.state(a), g.state(b)
                if A["dleft"]:
                    if min(set(A["dleft"]) - set(B["dleft"])) != min(A["dleft"]):
                        continue
            keep.append((a, b, lab))
        pruned = len(g.edges) - len(keep)
        g.edges = keep
        g.out = collections.defaultdict(list)
        for a, b, lab in keep:
            g.out[a].append((b, lab))
        walks, nedges = tlagraph.transition_cover(g, max_len=60, skip_labels=("Finished",))
        limit = 12000 if c.thorough else 4000
        if len(walks) > limit:
            random.Random(c.seed).shuffle(walks)
            walks = walks[:limit]
        jobs = []
        for root, walk in walks:
            acts = [tlagraph.parse_label(lab) for lab, _ in walk]
            states = [{k: g.state(n)[k] for k in sor.STATE_KEYS} for _, n in walk]
            init = {k: g.state(root)[k] for k in sor.STATE_KEYS}
            jobs.append((fam, acts, states, init, evs))
        del g
        with mp.get_context("fork").Pool(c.jobs) as pool:
            res = pool.map(_replay_job, jobs, chunksize=25)
        bad = [(j, mm) for j, mm in zip(jobs, res) if mm is not None]
        for j, mm in bad[:2]:
            c.note(f"spec->code drift ({fam}): {str(mm)[:400]} after {[a[0] for a in j[1]][:mm.get('k', 0) + 1][-8:]}")
        steps = sum(len(j[1]) for j in jobs)
        c.note(f"spec->code {cfg}: {len(jobs)} walks ({steps} steps) of a transition cover of {nedges} edges "
               f"({pruned} handler-order edges pruned) replayed on the real BaseObserver, {len(bad)} diverged")
        tot_walks += len(jobs)
        tot_steps += steps
        tot_bad += len(bad)
        tot_edges += nedges
    c.cov["model_edges"] = c.cov.get("model_edges", 0) + tot_edges
    c.cov["walks_replayed"] = c.cov.get("walks_replayed", 0) + tot_walks
    c.cov["model_edges_replayed"] = c.cov.get("model_edges_replayed", 0) + tot_steps
    c.cov["drift_traces"] = c.cov.get("drift_traces", 0) + tot_bad
    c.cov["evaluations"] += tot_walks
