"""TLC run of the design model Observer.tla for the observer properties."""
from harness import tlc


def run_design(c, prop):
    import os

    if not os.path.exists(os.path.join(tlc.SPEC_DIR, "Observer.tla")):
        c.note("Observer.tla not built yet")
        return
    cfgs = {"C04": ["Observer_dispatch.cfg"], "C05": ["Observer_dispatch.cfg"], "C06": ["Observer_lifecycle.cfg", "Observer_live.cfg"],
            "C13": ["Observer_registry.cfg"]}[prop]
    for cfg in cfgs:
        if not os.path.exists(os.path.join(tlc.SPEC_DIR, cfg)):
            continue
        r = tlc.run_tlc("Observer", cfg, workers=c.jobs, timeout=3000, heap="8g")
        c.add_tlc("Observer:" + cfg, r)
        if not r.ok:
            c.machinery_failure(f"design spec {cfg} violated: {r.violated} {r.errors[:2]}")
        c.note(f"TLC {cfg}: {r.distinct} distinct states, depth {r.depth}, {r.wall:.1f}s")
