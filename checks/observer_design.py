"""TLC runs of the design model Observer.tla for the observer properties (exhaustive, small constants).

Positive configurations must hold; the negative ones (a repaired defect switched back on) must FAIL with exactly the
named invariant -- that is the demonstration that the invariants are not vacuous."""
from harness import tlc

POS = {
    "C04": ["Observer_dispatch.cfg", "Observer_callback.cfg"],
    "C05": ["Observer_dispatch.cfg", "Observer_callback.cfg"],
    "C06": ["Observer_lifecycle.cfg", "Observer_stoprace.cfg", "Observer_stopfirst.cfg", "Observer_doublestart.cfg", "Observer_live.cfg"],
    "C13": ["Observer_registry.cfg", "Observer_startrace.cfg", "Observer_doublestart.cfg"],
}
NEG = {
    "C06": [("Observer_neg_D12.cfg", "C06_AllExitedAfterJoin"), ("Observer_neg_D17.cfg", "C06_AllExitedAfterJoin")],
    "C13": [("Observer_neg_D3.cfg", "C13_NoStaleHandlers"), ("Observer_neg_D10.cfg", "C13_EveryScheduledWatchRuns"),
            ("Observer_neg_D18.cfg", "C13_ScheduledWatchHasEmitter")],
}


def run_design(c, prop):
    for cfg in POS.get(prop, []):
        r = tlc.run_tlc("Observer", cfg, workers=c.jobs, timeout=3000, heap="8g")
        c.add_tlc("Observer:" + cfg, r)
        if not r.ok:
            c.machinery_failure(f"design spec {cfg} violated: {r.violated} {r.errors[:2]}")
        c.note(f"TLC {cfg}: {r.distinct} distinct states, depth {r.depth}, {r.wall:.1f}s")
    for cfg, inv in NEG.get(prop, []):
        r = tlc.run_tlc("Observer", cfg, workers=c.jobs, timeout=3000, heap="8g")
        if inv not in r.violated:
            c.machinery_failure(f"vacuity: {cfg} (defect switched back on) did not violate {inv}: {r.summary()}")
        c.note(f"TLC {cfg}: {inv} violated as expected (the invariant is sensitive to the repaired defect)")
