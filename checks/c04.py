"""C04  Queued events reach each registered handler exactly once, in order, and no one else.

The real BaseObserver (scripted emitters, recording handlers) runs under the deterministic scheduler; every
trace is validated by TLC against ObserverTrace.tla, whose dispatcher/registry reference object leaves the
linearization points of API calls, queue puts and the dispatcher's handler snapshot to TLC.  The design model
Observer.tla is checked exhaustively by TLC (C04_* invariants)."""
import os
import sys

sys.path.insert(0, os.path.dirname(os.path.dirname(os.path.abspath(__file__))))
from checks import observer_design, observer_engine as oe  # noqa: E402
from harness import checklib  # noqa: E402


def run(c):
    observer_design.run_design(c, "C04")
    observer_design.run_replay(c, "C04")
    b = 2 if c.thorough else 1
    fams = [("delivery", oe.fam_delivery(), b), ("removal", oe.fam_removal()[:6] + oe.fam_reentrant_unschedule(), b)]
    # one path watched under several identities (recursive flag, filters incl. a base class, follow_symlink, spellings):
    # every event an emitter queues reaches the handlers of ITS watch
    keys = [p for p in oe.fam_watch_keys(3) if any(op[0] == "start" for op in p["threads"]["app1"])]
    if not c.thorough:
        import random

        random.Random(c.seed).shuffle(keys)
        keys = keys[:200]
    fams.append(("watch identities on one path", keys, None))
    oe.run_families(c, "C04", fams, bound=b, random_n=3000 if c.thorough else 300)
    c.cov["rule"] = ("executions of the real BaseObserver: bounded-preemption DFS (b=%d) on the delivery/removal program "
                     "families + random programs under random schedules; distinct = distinct black-box traces" % b)
    c.assumptions += ["detsched shims; scripted emitters (harness-side EventEmitter subclass) obey stop()"]


if __name__ == "__main__":
    checklib.main_wrapper("C04", run)
