#!/bin/sh
# setup: nothing to build (pure python + TLA+); sanity-parse specs
cd "$(dirname "$0")"
exec /venv/bin/python -m harness.setup
