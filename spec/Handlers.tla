------------------------------ MODULE Handlers ------------------------------
(* C15  Handlers call exactly the callbacks the event type and the match rules dictate.  *)
(*                                                                                      *)
(* Code: watchdog.events.FileSystemEventHandler.dispatch, PatternMatchingEventHandler   *)
(* .dispatch (+ watchdog.utils.patterns.match_any_paths / filter_paths / _match_path),  *)
(* RegexMatchingEventHandler.dispatch.                                                  *)
(*                                                                                      *)
(* The matcher for ONE path against ONE pattern is not modelled: it is pathlib / re, the *)
(* property's own oracle.  The match relation is UNINTERPRETED: Inc[p][k], Exc[p][k] say *)
(* whether the p-th examined path matches the k-th include / exclude (ignore) pattern,   *)
(* and TLC enumerates every Boolean matrix.  The reachable "done" states ARE the decision*)
(* table (Handlers_table.cfg prints it).                                                *)
(*                                                                                      *)
(* How the code forms the examined paths (both matching handlers):                      *)
(*     paths = []                                                                       *)
(*     if event.dest_path:  [was: if hasattr(event, "dest_path"):]                       *)
(*                                     paths.append(fsdecode(event.dest_path))          *)
(*     if event.src_path:              paths.append(fsdecode(event.src_path))           *)
(* dest_path is a dataclass field of EVERY event (default ""), so the first test was     *)
(* always true: the examined paths were <<dest, src>> or <<dest>>, and for every event   *)
(* that is not a move the first of them was the EMPTY string, a placeholder rather than a*)
(* path of the event.  Repaired in /repo (4264f5e: `if event.dest_path:`).               *)
(* FixEmptyDest = TRUE is the repaired code (all default configs); FixEmptyDest = FALSE  *)
(* switches the old behaviour back on (Handlers_neg_EmptyDest.cfg, must FAIL):           *)
(*   - pattern handler: harmless. PurePath("").match(k) is False for every pattern k    *)
(*     (axiom EmptyMatchesNoPattern, validated against pathlib by checks/c15.py), and    *)
(*     any() over the yielded path strings ignores "" anyway: C15_PatternDecision holds  *)
(*     for either setting.                                                               *)
(*   - regex handler: NOT harmless. re.match(r, "") holds for every regex that can match *)
(*     the empty string (".*", "[^.]*$", "(?!.*\.tmp$).*", ...): an include regex of that*)
(*     kind dispatched every non-move event, an ignore regex of that kind suppressed      *)
(*     every non-move event, whatever the event's real path was.                          *)
(* "Its paths" in the property = the non-empty ones of src_path / dest_path (RealRows).  *)
EXTENDS Naturals, Sequences, FiniteSets, TLC

CONSTANTS MaxPat,        \* longest explicit include / exclude list
          FixEmptyDest   \* TRUE: dest_path is examined only when non-empty (current code); FALSE: always (old code)

Classes == {"FileDeleted", "FileModified", "FileCreated", "FileMoved", "FileClosed", "FileClosedNoWrite", "FileOpened",
            "DirDeleted", "DirModified", "DirCreated", "DirMoved"}
MoveClasses == {"FileMoved", "DirMoved"}
IsDir(c) == c \in {"DirDeleted", "DirModified", "DirCreated", "DirMoved"}
\* event_type of the class, and the callback it names
TypeOf(c) == CASE c \in {"FileMoved", "DirMoved"} -> "moved"
               [] c \in {"FileDeleted", "DirDeleted"} -> "deleted"
               [] c \in {"FileCreated", "DirCreated"} -> "created"
               [] c \in {"FileModified", "DirModified"} -> "modified"
               [] c = "FileClosed" -> "closed"
               [] c = "FileClosedNoWrite" -> "closed_no_write"
               [] c = "FileOpened" -> "opened"
CallbackOf(c) == CASE TypeOf(c) = "moved" -> "on_moved" [] TypeOf(c) = "deleted" -> "on_deleted"
                   [] TypeOf(c) = "created" -> "on_created" [] TypeOf(c) = "modified" -> "on_modified"
                   [] TypeOf(c) = "closed" -> "on_closed" [] TypeOf(c) = "closed_no_write" -> "on_closed_no_write"
                   [] TypeOf(c) = "opened" -> "on_opened"

VARIABLES hk,        \* "base" | "pattern" | "regex"
          cls,       \* event class
          igndir,    \* ignore_directories
          cs,        \* case_sensitive: selects which matcher produced the matrices, nothing else
          srcNE,     \* src_path non-empty
          destNE,    \* dest_path non-empty
          incAbs,    \* include list absent (None): default "*" / ".*"
          excAbs,    \* exclude / ignore list absent (None): default nothing
          Inc,       \* Inc[p][k]: p-th path of AllPaths matches include pattern k
          Exc,       \* likewise for exclude patterns / ignore regexes
          pc, calls
vars == <<hk, cls, igndir, cs, srcNE, destNE, incAbs, excAbs, Inc, Exc, pc, calls>>

\* the paths as the OLD code formed them: row 1 = dest_path (possibly the empty placeholder), row 2 = src_path
AllRows == IF srcNE THEN {1, 2} ELSE {1}
RowNonEmpty(p) == IF p = 1 THEN destNE ELSE srcNE
RealRows == {p \in AllRows : RowNonEmpty(p)}          \* the event's own (non-empty) paths
ExaminedRows == IF FixEmptyDest THEN RealRows ELSE AllRows   \* what the handler looks at

Matrices(np, nk) == [1..np -> [1..nk -> BOOLEAN]]
AnyInc(p) == \E k \in DOMAIN Inc[p] : Inc[p][k]
AnyExc(p) == \E k \in DOMAIN Exc[p] : Exc[p][k]

\* facts about the matchers that the matrices must respect (validated on the Python side against pathlib / re)
EmptyMatchesNoPattern(M) == \A p \in AllRows : ~RowNonEmpty(p) => \A k \in DOMAIN M[p] : ~M[p][k]
DefaultIncludeColumn == IF hk = "pattern" THEN [p \in AllRows |-> <<RowNonEmpty(p)>>]      \* "*"  matches every non-empty path
                                           ELSE [p \in AllRows |-> <<TRUE>>]               \* ".*" matches every string

Init ==
    /\ hk \in {"base", "pattern", "regex"} /\ cls \in Classes
    /\ pc = "start" /\ calls = <<>>
    /\ IF hk = "base"
       THEN /\ igndir = FALSE /\ cs = FALSE /\ srcNE = TRUE /\ destNE = (cls \in MoveClasses)
            /\ incAbs = TRUE /\ excAbs = TRUE
            /\ Inc = [p \in AllRows |-> <<>>] /\ Exc = [p \in AllRows |-> <<>>]
       ELSE /\ igndir \in BOOLEAN /\ cs \in BOOLEAN /\ srcNE \in BOOLEAN
            /\ destNE \in (IF cls \in MoveClasses THEN BOOLEAN ELSE {FALSE})
            /\ incAbs \in BOOLEAN /\ excAbs \in BOOLEAN
            /\ LET np == IF srcNE THEN 2 ELSE 1 IN
               /\ IF incAbs THEN Inc = DefaultIncludeColumn
                  ELSE \E nk \in 0..MaxPat : Inc \in Matrices(np, nk)
               /\ IF excAbs THEN Exc = [p \in 1..np |-> <<>>]
                  ELSE \E nk \in 0..MaxPat : Exc \in Matrices(np, nk)
            /\ hk = "pattern" => EmptyMatchesNoPattern(Inc) /\ EmptyMatchesNoPattern(Exc)

\* ---- FileSystemEventHandler.dispatch
CallAny == /\ pc = "any" /\ calls' = Append(calls, "on_any_event") /\ pc' = "typed"
           /\ UNCHANGED <<hk, cls, igndir, cs, srcNE, destNE, incAbs, excAbs, Inc, Exc>>
CallTyped == /\ pc = "typed" /\ calls' = Append(calls, CallbackOf(cls)) /\ pc' = "done"
             /\ UNCHANGED <<hk, cls, igndir, cs, srcNE, destNE, incAbs, excAbs, Inc, Exc>>

\* ---- entry of the three dispatch methods
Start == /\ pc = "start"
         /\ pc' = IF hk = "base" THEN "any"
                  ELSE IF igndir /\ IsDir(cls) THEN "done"        \* `if self.ignore_directories and event.is_directory: return`
                  ELSE "match"
         /\ UNCHANGED <<hk, cls, igndir, cs, srcNE, destNE, incAbs, excAbs, Inc, Exc, calls>>

\* match_any_paths = any(filter_paths(...)): filter_paths yields the path STRINGS that pass, any() tests their truth
\* value, so a yielded "" would not count
PatternMatch == /\ pc = "match" /\ hk = "pattern"
                /\ pc' = IF \E p \in ExaminedRows : AnyInc(p) /\ ~AnyExc(p) /\ RowNonEmpty(p) THEN "any" ELSE "done"
                /\ UNCHANGED <<hk, cls, igndir, cs, srcNE, destNE, incAbs, excAbs, Inc, Exc, calls>>
RegexMatch == /\ pc = "match" /\ hk = "regex"
              /\ pc' = IF \E p \in ExaminedRows : AnyExc(p) THEN "done"          \* an ignore regex matches some path
                       ELSE IF \E p \in ExaminedRows : AnyInc(p) THEN "any" ELSE "done"
              /\ UNCHANGED <<hk, cls, igndir, cs, srcNE, destNE, incAbs, excAbs, Inc, Exc, calls>>

Next == Start \/ PatternMatch \/ RegexMatch \/ CallAny \/ CallTyped
Spec == Init /\ [][Next]_vars

\* ------------------------------------------------------------------ the property
Done == pc = "done"
Dispatched == calls # <<>>
Ignored == igndir /\ IsDir(cls)

\* on_any_event first, then exactly the one on_<type>, once each -- or nothing at all
C15_AnyThenTyped == Done => calls \in {<<>>, <<"on_any_event", CallbackOf(cls)>>}
C15_CallsArePrefix == calls \in {<<>>, <<"on_any_event">>, <<"on_any_event", CallbackOf(cls)>>}
C15_BaseAlwaysDispatches == (Done /\ hk = "base") => Dispatched
\* not an ignored directory event, and at least one of its paths matches an include and no exclude pattern
PatternRule == ~Ignored /\ \E p \in RealRows : AnyInc(p) /\ ~AnyExc(p)
C15_PatternDecision == (Done /\ hk = "pattern") => (Dispatched <=> PatternRule)
\* no path matches an ignore regex and some path matches an include regex
RegexRule(rows) == ~Ignored /\ ~(\E p \in rows : AnyExc(p)) /\ (\E p \in rows : AnyInc(p))
C15_RegexDecision == (Done /\ hk = "regex") => (Dispatched <=> RegexRule(RealRows))
\* the flags that must not matter do not matter: case_sensitive only selects the matcher (the matrices)
C15_IgnoredDirectoryNeverDispatched == (Done /\ hk # "base" /\ Ignored) => ~Dispatched

\* Handlers_table.cfg: print the decision table
TableRow == Done => PrintT(<<"DT", hk, cls, igndir, srcNE, destNE, incAbs, excAbs, Inc, Exc, Dispatched>>)
=============================================================================
