--------------------------- MODULE HandlersTrace ---------------------------
(* Level-P trace specification for C15 (DESIGN §3, §6.3).  One trace = a batch of lines, *)
(* one line = one concrete CASE executed on the real code.  Line kinds:                  *)
(*                                                                                      *)
(*  e = "disp"     one event dispatched to a recording subclass of a real handler        *)
(*     hk      "base" | "pattern" | "regex"            cls   event class name             *)
(*     igndir, cs                                                                         *)
(*     rows    <<dest row, src row>>, each [ne |-> path non-empty, inc |-> <<BOOLEAN..>>, *)
(*             exc |-> <<BOOLEAN..>>]: does this path match the k-th include / exclude    *)
(*             pattern (regex), computed by the INDEPENDENT reference: pathlib            *)
(*             PurePosixPath.match, both sides lower-cased when case-insensitive; re.match *)
(*             with re.IGNORECASE when case-insensitive; an absent list is the documented  *)
(*             default ("*" / ".*" included, nothing excluded)                             *)
(*     calls   the callbacks the REAL handler invoked, in order; raised: exception name    *)
(*  e = "filter"   filter_paths / match_any_paths on a list of paths                      *)
(*     fn, inp (path ids), rows (reference, one per input position), out (ids yielded) or  *)
(*     res (BOOLEAN), raised                                                               *)
(*  e = "conflict" a call whose include and exclude lists share a pattern                  *)
(*     fn ("filter_paths" | "match_any_paths" | "handler"), lit (a pattern occurs          *)
(*     literally in both lists), fold (only after case folding, case-insensitive call),    *)
(*     npaths (paths examined), ignored (handler: ignored directory event), raised         *)
(*                                                                                      *)
(* The monitors are written from the property text.  "Its paths": the non-empty ones of   *)
(* src_path / dest_path.  The empty dest_path of an event that is not a move is a          *)
(* placeholder, not a path: a decision that hinges on it is a violation (Handlers.tla,     *)
(* FixEmptyDest; repaired in /repo 4264f5e).                                               *)
EXTENDS TraceUtil

VARIABLES tid, l, viol
vars == <<tid, l, viol>>

Tr == AllTraces[tid]
ASSUME InitRegs

IsDir(c) == c \in {"DirDeleted", "DirModified", "DirCreated", "DirMoved"}
CallbackOf(c) == CASE c \in {"FileMoved", "DirMoved"} -> "on_moved"
                   [] c \in {"FileDeleted", "DirDeleted"} -> "on_deleted"
                   [] c \in {"FileCreated", "DirCreated"} -> "on_created"
                   [] c \in {"FileModified", "DirModified"} -> "on_modified"
                   [] c = "FileClosed" -> "on_closed"
                   [] c = "FileClosedNoWrite" -> "on_closed_no_write"
                   [] c = "FileOpened" -> "on_opened"
                   [] OTHER -> "?"

SomeTrue(s) == \E k \in 1..Len(s) : s[k]
\* one path passes the pattern rule: matches an include pattern and no exclude pattern
Passes(r) == SomeTrue(r.inc) /\ ~SomeTrue(r.exc)

\* "its paths": the non-empty ones
RealPaths(c) == {p \in 1..Len(c.rows) : c.rows[p].ne}
Ignored(c) == c.igndir /\ IsDir(c.cls)
PatternRule(c, S) == ~Ignored(c) /\ \E p \in S : Passes(c.rows[p])
RegexRule(c, S) == ~Ignored(c) /\ ~(\E p \in S : SomeTrue(c.rows[p].exc)) /\ (\E p \in S : SomeTrue(c.rows[p].inc))

\* on_any_event first, then exactly the one on_<type> named by the event's type, once each (or nothing at all);
\* the base handler always dispatches
P_C15_AnyThenTyped(c) ==
    /\ c.calls \in {<<>>, <<"on_any_event", CallbackOf(c.cls)>>}
    /\ c.hk = "base" => (c.calls # <<>> /\ c.raised = "")
P_C15_PatternDecision(c) ==
    c.hk = "pattern" => /\ c.raised = ""
                        /\ (c.calls # <<>>) <=> PatternRule(c, RealPaths(c))
P_C15_RegexDecision(c) ==
    c.hk = "regex" => /\ c.raised = ""
                      /\ (c.calls # <<>>) <=> RegexRule(c, RealPaths(c))

RECURSIVE IsSubSeq(_, _)
IsSubSeq(a, b) == IF a = <<>> THEN TRUE
                  ELSE IF b = <<>> THEN FALSE
                  ELSE IF a[1] = b[1] THEN IsSubSeq(Tail(a), Tail(b)) ELSE IsSubSeq(a, Tail(b))
RECURSIVE Kept(_, _, _)
Kept(inp, rows, i) == IF i > Len(inp) THEN <<>>
                      ELSE (IF Passes(rows[i]) THEN <<inp[i]>> ELSE <<>>) \o Kept(inp, rows, i + 1)
P_C15_FilterPathsSubsequence(c) == c.fn = "filter_paths" => (c.raised = "" /\ IsSubSeq(c.out, c.inp))
P_C15_FilterAgreesWithPathlib(c) ==
    /\ c.raised = ""
    /\ c.fn = "filter_paths" => c.out = Kept(c.inp, c.rows, 1)
    /\ c.fn = "match_any_paths" => (c.res <=> \E i \in 1..Len(c.inp) : Passes(c.rows[i]))

\* a pattern that is both included and excluded is rejected (ValueError) by the path filters as soon as they examine a
\* path; patterns that coincide only after case folding may be rejected or decided by the rule; a handler may reject
P_C15_ConflictRejected(c) ==
    /\ c.raised \in {"", "ValueError"}
    /\ (c.lit /\ c.fn # "handler" /\ c.npaths > 0) => c.raised = "ValueError"
    /\ (~c.lit /\ ~c.fold) => c.raised = ""

Failing(c) ==
    IF c.e = "disp" THEN
        (IF P_C15_AnyThenTyped(c) THEN {} ELSE {"P_C15_AnyThenTyped"})
        \cup (IF P_C15_PatternDecision(c) THEN {} ELSE {"P_C15_PatternDecision"})
        \cup (IF P_C15_RegexDecision(c) THEN {} ELSE {"P_C15_RegexDecision"})
    ELSE IF c.e = "filter" THEN
        (IF P_C15_FilterPathsSubsequence(c) THEN {} ELSE {"P_C15_FilterPathsSubsequence"})
        \cup (IF P_C15_FilterAgreesWithPathlib(c) THEN {} ELSE {"P_C15_FilterAgreesWithPathlib"})
    ELSE (IF P_C15_ConflictRejected(c) THEN {} ELSE {"P_C15_ConflictRejected"})

Init == tid \in 1..NTraces /\ l = 1 /\ viol = {}

Case == /\ l <= Len(Tr) /\ Tr[l].e \in {"disp", "filter", "conflict"}
        /\ viol' = viol \cup {<<cl, l>> : cl \in Failing(Tr[l])}
        /\ l' = l + 1 /\ UNCHANGED tid

Next == TLCGet(BIG + tid) = 0 /\ Case
Spec == Init /\ [][Next]_vars

Report == Progress(tid, l, Len(Tr), viol)
PostCond == Post
=============================================================================
