------------------------------- MODULE Codec -------------------------------
(* C20, DESIGN section 4.6: the FRAMING of the two binary notification buffers and the cursor arithmetic of  *)
(* their decoders, implementation-shaped (one action per loop iteration):                                     *)
(*   "win"  FILE_NOTIFY_INFORMATION chain, winapi._parse_event_buffer (src/watchdog/observers/winapi.py        *)
(*          l.262-274): record = [NextEntryOffset][Action][FileNameLength] name padding; NextEntryOffset = 0   *)
(*          in the last record;  while n_bytes > 0: read the header at the cursor, name = FileNameLength cells  *)
(*          after it, if NextEntryOffset <= 0 stop, else cursor += NextEntryOffset, n_bytes -= NextEntryOffset  *)
(*   "ino"  inotify(7) event stream, Inotify._parse_event_buffer (inotify_c.py l.449-470): record =            *)
(*          [wd][mask][cookie][len] name NULs, len counts the NULs;  while cursor + header <= len(buffer):      *)
(*          read the header, name = the next len cells with trailing NULs stripped, cursor += header + len      *)
(* A buffer is a sequence of cells; every header field is ONE cell (the byte widths - 4 x 4 bytes for inotify, *)
(* 3 x sizeof(DWORD) for Windows - live in the encoders of checks/c20.py, which lay real bytes out and run the  *)
(* real decoders on them); name cells are non-zero and distinct, padding cells are 0.                          *)
(* TLC enumerates every record sequence with <= MaxRecs records, name lengths 0..MaxName, paddings 0..MaxPad   *)
(* (Init) and checks: Codec_RoundTrip (Encode ; Decode = identity), Codec_NoOverread (no cell beyond the       *)
(* buffer is read), Codec_Bounded + Codec_Terminates (the loop ends after at most one iteration per record).   *)
EXTENDS Naturals, Sequences, FiniteSets, TLC

CONSTANTS MaxRecs, MaxName, MaxPad

VARIABLES fmt, recs, buf, pos, left, res, done, maxread, iters
vars == <<fmt, recs, buf, pos, left, res, done, maxread, iters>>

Shape == [nl : 0..MaxName, pd : 0..MaxPad]
Shapes == UNION {[1..n -> Shape] : n \in 0..MaxRecs}
HDR(f) == IF f = "win" THEN 3 ELSE 4
Name(k, nl) == [j \in 1..nl |-> 10 * k + j]
Zeros(n) == [j \in 1..n |-> 0]

RECURSIVE Encode(_, _, _)
Encode(f, rs, k) ==
    IF k > Len(rs) THEN <<>>
    ELSE LET r == rs[k]
             hdr == IF f = "win" THEN <<(IF k = Len(rs) THEN 0 ELSE 3 + r.nl + r.pd), k, r.nl>>
                    ELSE <<k, 100 + k, 200 + k, r.nl + r.pd>>
         IN hdr \o Name(k, r.nl) \o Zeros(r.pd) \o Encode(f, rs, k + 1)
Expected(f, rs) == [k \in 1..Len(rs) |-> IF f = "win" THEN <<k, Name(k, rs[k].nl)>> ELSE <<k, 100 + k, 200 + k, Name(k, rs[k].nl)>>]

Init == /\ fmt \in {"win", "ino"} /\ recs \in Shapes /\ buf = Encode(fmt, recs, 1)
        /\ pos = 0 /\ left = Len(buf) /\ res = <<>> /\ done = FALSE /\ maxread = 0 /\ iters = 0

Max(a, b) == IF a >= b THEN a ELSE b
Cell(i) == IF i <= Len(buf) THEN buf[i] ELSE 0                  \* what lies beyond the buffer is not ours
Cells(a, b) == [j \in 1..(IF b >= a THEN b - a + 1 ELSE 0) |-> Cell(a + j - 1)]
RECURSIVE RStrip0(_)
RStrip0(s) == IF s # <<>> /\ s[Len(s)] = 0 THEN RStrip0(SubSeq(s, 1, Len(s) - 1)) ELSE s

\* winapi._parse_event_buffer: one iteration of `while n_bytes > 0`
D_WinRecord ==
    /\ fmt = "win" /\ ~done /\ left > 0
    /\ LET nxt == Cell(pos + 1)
           act == Cell(pos + 2)
           nlen == Cell(pos + 3) IN
       /\ res' = Append(res, <<act, Cells(pos + 4, pos + 3 + nlen)>>)
       /\ maxread' = Max(maxread, pos + 3 + nlen)
       /\ IF nxt <= 0 THEN done' = TRUE /\ UNCHANGED <<pos, left>>
          ELSE pos' = pos + nxt /\ left' = left - nxt /\ UNCHANGED done
    /\ iters' = iters + 1 /\ UNCHANGED <<fmt, recs, buf>>
D_WinEnd == /\ fmt = "win" /\ ~done /\ left <= 0 /\ done' = TRUE
            /\ UNCHANGED <<fmt, recs, buf, pos, left, res, maxread, iters>>
\* Inotify._parse_event_buffer: one iteration of `while i + 16 <= len(event_buffer)`
D_InoRecord ==
    /\ fmt = "ino" /\ ~done /\ pos + 4 <= Len(buf)
    /\ LET len == Cell(pos + 4) IN
       /\ res' = Append(res, <<Cell(pos + 1), Cell(pos + 2), Cell(pos + 3), RStrip0(Cells(pos + 5, pos + 4 + len))>>)
       /\ maxread' = Max(maxread, pos + 4 + len)
       /\ pos' = pos + 4 + len
    /\ iters' = iters + 1 /\ UNCHANGED <<fmt, recs, buf, left, done>>
D_InoEnd == /\ fmt = "ino" /\ ~done /\ pos + 4 > Len(buf) /\ done' = TRUE
            /\ UNCHANGED <<fmt, recs, buf, pos, left, res, maxread, iters>>

Next == D_WinRecord \/ D_WinEnd \/ D_InoRecord \/ D_InoEnd
Spec == Init /\ [][Next]_vars /\ WF_vars(Next)

Codec_RoundTrip == done => res = Expected(fmt, recs)
Codec_NoOverread == maxread <= Len(buf)
Codec_Bounded == iters <= Len(recs)
Codec_Terminates == <>done
=============================================================================
