---------------------------- MODULE ObserverTrace ----------------------------
(* Level-P trace specification for the observer properties C04, C05, C06, C13 (DESIGN §3, §7).       *)
(* Black-box lines recorded from the real BaseObserver with scripted emitters and recording handlers: *)
(*   call / ret     public API call by thread t: schedule(h,w) unschedule(w) add(h,w) remove(h,w)     *)
(*                  unschedule_all start stop join   (ret carries ok = FALSE if the call raised)       *)
(*   em_created     an emitter object em was constructed for watch w (inside schedule)                 *)
(*   queued         emitter em is about to put event ev (value val) of watch w on the event queue      *)
(*   cb             handler h was called with event ev                                                *)
(*   quiescent      the scheduler found every thread blocked (stream drained)                          *)
(*   probe          black-box view of the registry: emitters with is_alive(), marker-event routes      *)
(*   final          live library threads after join()                                                 *)
(*   deadlock / uncaught   reported by the scheduler                                                  *)
(* The object below is the reference model of the statements: a map  reg : watch -> handler set,      *)
(* a FIFO of queued events with coalescing of adjacent identical ones, and a dispatcher that takes    *)
(* the head, snapshots reg[w] *at that moment* and calls every handler of the snapshot exactly once   *)
(* unless it was removed meanwhile.  Linearization points of API calls, of queue puts and of the      *)
(* dispatcher's snapshot are not logged: TLC places them.  Clauses that depend on that placement      *)
(* block (a trace is accepted iff SOME placement passes all of them); clauses that do not are         *)
(* collected in viol.                                                                                 *)
EXTENDS TraceUtil

VARIABLES tid, l,
          reg,       \* watch -> handler set                                     (the map of C13)
          sched,     \* watches that are scheduled (have an emitter); DOMAIN reg \ sched = watches that only ever got
                     \* handlers through add_handler_for_watch (allowed by the API, they have no emitter)
          emOf,      \* scheduled watch -> emitter id
          started, stopCalled, stopRet,
          pend,      \* per thread: stack of pending API calls (callbacks nest)
          qp,        \* emitter id -> pending put [ev, w, val] or NoPut
          Q,         \* abstract event queue: Seq([ev, w, val])
          cur,       \* dispatch in progress: [ev, w, snap, called, excused] or NoCur
          banned,    \* (h, w) pairs that must not be called any more (C05)
          deadEm,    \* emitters that must stay silent (C05)
          viol
vars == <<tid, l, reg, sched, emOf, started, stopCalled, stopRet, pend, qp, Q, cur, banned, deadEm, viol>>

Tr == AllTraces[tid]
AllThreads == UNION {{AllTraces[i][j].t : j \in 1..Len(AllTraces[i])} : i \in 1..NTraces}
AllEms == UNION {{AllTraces[i][j].em : j \in {k \in 1..Len(AllTraces[i]) : "em" \in DOMAIN AllTraces[i][k]}} : i \in 1..NTraces}
NoPut == [ev |-> 0]
NoCur == [ev |-> 0]
Me == Tr[l].t

ASSUME InitRegs

Init == /\ tid \in 1..NTraces /\ l = 1
        /\ reg = << >> /\ sched = {} /\ emOf = << >> /\ started = FALSE /\ stopCalled = FALSE /\ stopRet = FALSE
        /\ pend = [t \in AllThreads |-> << >>]
        /\ qp = [e \in AllEms |-> NoPut] /\ Q = << >> /\ cur = NoCur
        /\ banned = {} /\ deadEm = {} /\ viol = {}

Line(k) == l <= Len(Tr) /\ Tr[l].e = k
Consume == l' = l + 1 /\ UNCHANGED tid
Top(t) == pend[t][Len(pend[t])]
HasTop(t) == pend[t] # << >>
Running == started /\ ~stopCalled

Restrict(f, S) == [x \in S |-> f[x]]

\* (h, w) pairs for which a registering call is in flight (called, not yet returned)
PendingReg == UNION {{<<pend[t][i].h, pend[t][i].w>> : i \in {j \in 1..Len(pend[t]) : pend[t][j].op \in {"schedule", "add"}}} : t \in AllThreads}

----------------------------------------------------------------------------
\* API calls

\* does the call that starts at line l end with an exception?  (the next `ret` of this thread for this operation)
WillFail == LET idx == {j \in (l + 1)..Len(Tr) : Tr[j].e = "ret" /\ Tr[j].t = Me /\ Tr[j].op = Tr[l].op} IN
            idx # {} /\ ~Tr[CHOOSE j \in idx : \A k \in idx : j <= k].ok

Call == /\ Line("call") /\ Consume
        /\ pend' = [pend EXCEPT ![Me] = Append(@, [op |-> Tr[l].op, h |-> Get(Tr[l], "h", 0), w |-> Get(Tr[l], "w", 0),
                                                   done |-> FALSE, removed |-> {}, ems |-> {}, newem |-> 0,
                                                   wf |-> WillFail, fok |-> FALSE])]
        \* a registering call lifts the ban on its pair at its call
        /\ banned' = IF Tr[l].op \in {"schedule", "add"} THEN banned \ {<<Tr[l].h, Tr[l].w>>} ELSE banned
        /\ stopCalled' = (stopCalled \/ Tr[l].op = "stop")
        /\ UNCHANGED <<reg, sched, emOf, started, stopRet, qp, Q, cur, deadEm, viol>>

\* the effect of a successful call on the reference map, placed somewhere between call and ret
Excuse(c, rm) == IF c = NoCur THEN c ELSE [c EXCEPT !.excused = @ \cup {p[1] : p \in {x \in rm : x[2] = c.w}}]
SetTop(t, r) == [pend EXCEPT ![t] = [@ EXCEPT ![Len(@)] = r]]

LinOK == l <= Len(Tr) /\ Tr[l].e \in {"ret", "cb", "quiescent", "probe", "final", "queued"}

Lin(t) ==
    /\ LinOK /\ HasTop(t) /\ ~Top(t).done
    /\ LET c == Top(t) IN
       CASE c.op = "schedule" ->
              /\ reg' = IF c.w \in DOMAIN reg THEN [reg EXCEPT ![c.w] = @ \cup {c.h}] ELSE reg @@ (c.w :> {c.h})
              /\ sched' = sched \cup {c.w}
              /\ pend' = SetTop(t, [c EXCEPT !.done = TRUE])
              /\ UNCHANGED <<cur, started>>
         [] c.op = "add" ->
              /\ reg' = IF c.w \in DOMAIN reg THEN [reg EXCEPT ![c.w] = @ \cup {c.h}] ELSE reg @@ (c.w :> {c.h})
              /\ pend' = SetTop(t, [c EXCEPT !.done = TRUE])
              /\ UNCHANGED <<cur, started, sched>>
         [] c.op = "remove" ->
              /\ c.w \in DOMAIN reg /\ c.h \in reg[c.w]
              /\ reg' = [reg EXCEPT ![c.w] = @ \ {c.h}]
              /\ pend' = SetTop(t, [c EXCEPT !.done = TRUE, !.removed = {<<c.h, c.w>>}])
              /\ cur' = Excuse(cur, {<<c.h, c.w>>})
              /\ UNCHANGED <<started, sched>>
         [] c.op = "unschedule" ->
              /\ c.w \in sched
              /\ LET rm == {<<h, c.w>> : h \in reg[c.w]} IN
                 /\ reg' = Restrict(reg, DOMAIN reg \ {c.w})
                 /\ pend' = SetTop(t, [c EXCEPT !.done = TRUE, !.removed = rm,
                                                !.ems = IF c.w \in DOMAIN emOf THEN {emOf[c.w]} ELSE {}])
                 /\ cur' = Excuse(cur, rm)
              /\ sched' = sched \ {c.w}
              /\ UNCHANGED started
         [] c.op \in {"unschedule_all", "stop"} ->
              /\ LET rm == UNION {{<<h, w>> : h \in reg[w]} : w \in DOMAIN reg} IN
                 /\ reg' = << >>
                 /\ pend' = SetTop(t, [c EXCEPT !.done = TRUE, !.removed = rm, !.ems = {emOf[w] : w \in DOMAIN emOf}])
                 /\ cur' = Excuse(cur, rm)
              /\ sched' = {}
              /\ UNCHANGED started
         [] c.op = "start" ->
              /\ started' = TRUE /\ pend' = SetTop(t, [c EXCEPT !.done = TRUE]) /\ UNCHANGED <<reg, cur, sched>>
         [] OTHER ->       \* join and anything else: no effect on the map
              /\ pend' = SetTop(t, [c EXCEPT !.done = TRUE]) /\ UNCHANGED <<reg, cur, started, sched>>
    /\ LET c == Top(t)
           e1 == IF c.op = "schedule" /\ c.newem # 0
                 THEN (IF c.w \in DOMAIN emOf THEN [emOf EXCEPT ![c.w] = c.newem] ELSE emOf @@ (c.w :> c.newem))
                 ELSE emOf
       IN emOf' = Restrict(e1, DOMAIN e1 \cap sched')
    /\ UNCHANGED <<tid, l, stopCalled, stopRet, qp, Q, banned, deadEm, viol>>

\* A call may only raise when the reference map says so (C13: the observer behaves like a simple map): at some moment
\* between call and return - placed by TLC - unschedule(w) finds w not scheduled, remove(h, w) finds the pair not
\* registered, start() finds the observer started before, join() finds it never started (or is called by the observer
\* thread itself); schedule() / start() may also raise the error injected by the harness (an emitter that cannot be
\* created or started: OSError).  add, unschedule_all and stop never raise.
ObserverThread == "BaseObserver#1"
FailLegit(c, t) ==
    CASE c.op = "unschedule" -> c.w \notin sched
      [] c.op = "remove" -> ~(c.w \in DOMAIN reg /\ c.h \in reg[c.w])
      [] c.op = "start" -> started
      [] c.op = "join" -> ~started \/ t = ObserverThread
      [] OTHER -> FALSE
LinFail(t) == /\ LinOK /\ HasTop(t) /\ Top(t).wf /\ ~Top(t).fok /\ ~Top(t).done
              /\ FailLegit(Top(t), t)
              /\ pend' = SetTop(t, [Top(t) EXCEPT !.fok = TRUE])
              /\ UNCHANGED <<tid, l, reg, sched, emOf, started, stopCalled, stopRet, qp, Q, cur, banned, deadEm, viol>>

\* a call that raised has no effect at all (C13); it needs no linearization point, but a reason (blocking clause
\* P_C13_CallOutcomeMatchesMap)
\* A start() that fails because an emitter cannot be started (injected) has ONE effect: that emitter is discarded, its
\* watch keeps its handlers but has no emitter any more (the observer is not started and start() may be tried again).
FailedStartW == IF Tr[l].op = "start" /\ Get(Tr[l], "exc", "") = "OSError" THEN Get(Tr[l], "fw", 0) ELSE 0
RetFail == /\ Line("ret") /\ ~Tr[l].ok /\ Consume
           /\ HasTop(Me) /\ Top(Me).op = Tr[l].op /\ ~Top(Me).done
           /\ \/ Top(Me).fok
              \/ (Top(Me).op \in {"schedule", "start"} /\ Get(Tr[l], "exc", "") = "OSError")
           /\ pend' = [pend EXCEPT ![Me] = SubSeq(@, 1, Len(@) - 1)]
           /\ sched' = sched \ {FailedStartW}
           /\ emOf' = Restrict(emOf, DOMAIN emOf \ {FailedStartW})
           /\ deadEm' = deadEm \cup (IF FailedStartW \in DOMAIN emOf THEN {emOf[FailedStartW]} ELSE {})
           /\ UNCHANGED <<reg, started, stopCalled, stopRet, qp, Q, cur, banned, viol>>

\* successful return: C05 bans take effect here
RetOk == /\ Line("ret") /\ Tr[l].ok /\ Consume
         /\ HasTop(Me) /\ Top(Me).op = Tr[l].op /\ Top(Me).done
         /\ pend' = [pend EXCEPT ![Me] = SubSeq(@, 1, Len(@) - 1)]
         \* (a pair that is registered again at this moment - by a registering call that took effect after this removal did
         \* and has already returned - is not banned: its callbacks belong to the new registration)
         /\ banned' = banned \cup ((Top(Me).removed \ PendingReg)
                                   \ UNION {{<<h, w>> : h \in reg[w]} : w \in DOMAIN reg})
         /\ deadEm' = deadEm \cup Top(Me).ems
         /\ stopRet' = (stopRet \/ Tr[l].op = "stop")
         /\ UNCHANGED <<reg, sched, emOf, started, stopCalled, qp, Q, cur, viol>>

\* the emitter object is constructed inside schedule(), under the observer lock: it becomes the watch's emitter
\* at the linearization point of that schedule() call (or at once if that point was already placed)
EmCreated == /\ Line("em_created") /\ Consume /\ HasTop(Me) /\ Top(Me).op = "schedule"
             /\ IF Top(Me).done
                THEN /\ emOf' = IF Tr[l].w \in sched
                                 THEN (IF Tr[l].w \in DOMAIN emOf THEN [emOf EXCEPT ![Tr[l].w] = Tr[l].em]
                                       ELSE emOf @@ (Tr[l].w :> Tr[l].em))
                                 ELSE emOf
                     /\ UNCHANGED pend
                ELSE /\ pend' = SetTop(Me, [Top(Me) EXCEPT !.newem = Tr[l].em]) /\ UNCHANGED emOf
             /\ UNCHANGED <<reg, sched, started, stopCalled, stopRet, qp, Q, cur, banned, deadEm, viol>>

----------------------------------------------------------------------------
\* the event queue

\* C05: the emitter of an unscheduled watch has stopped producing events (blocking clause P_C05_EmitterStopped)
Queued == /\ Line("queued") /\ Consume
          /\ Tr[l].em \notin deadEm
          /\ qp[Tr[l].em] = NoPut
          /\ qp' = [qp EXCEPT ![Tr[l].em] = [ev |-> Tr[l].ev, w |-> Tr[l].w, val |-> Tr[l].val]]
          /\ UNCHANGED <<reg, sched, emOf, started, stopCalled, stopRet, pend, Q, cur, banned, deadEm, viol>>

\* the put takes effect: appended, or coalesced into an identical still-undelivered tail (C04 / C16)
LinQueue(e) == /\ LinOK /\ qp[e] # NoPut
               /\ \/ Q' = Append(Q, qp[e])
                  \/ (Q # << >> /\ Last(Q).val = qp[e].val /\ Last(Q).w = qp[e].w /\ UNCHANGED Q)
               /\ qp' = [qp EXCEPT ![e] = NoPut]
               /\ UNCHANGED <<tid, l, reg, sched, emOf, started, stopCalled, stopRet, pend, cur, banned, deadEm, viol>>

----------------------------------------------------------------------------
\* the dispatcher

\* take the head; the handler set "at the time it is dispatched" is fixed here (C04)
DispStart == /\ LinOK /\ started /\ cur = NoCur /\ Q # << >>
             /\ cur' = [ev |-> Head(Q).ev, w |-> Head(Q).w,
                        snap |-> IF Head(Q).w \in DOMAIN reg THEN reg[Head(Q).w] ELSE {},
                        called |-> {}, excused |-> {}]
             /\ Q' = Tail(Q)
             /\ UNCHANGED <<tid, l, reg, sched, emOf, started, stopCalled, stopRet, pend, qp, banned, deadEm, viol>>

\* C04: only handlers of the snapshot, each at most once, in queue order (the event must be the one in progress);
\* C05: never a banned pair.  All four are blocking.
Cb == /\ Line("cb") /\ Consume
      /\ cur # NoCur /\ cur.ev = Tr[l].ev
      /\ Tr[l].h \in cur.snap \ cur.called
      /\ <<Tr[l].h, cur.w>> \notin banned
      /\ cur' = [cur EXCEPT !.called = @ \cup {Tr[l].h}]
      /\ UNCHANGED <<reg, sched, emOf, started, stopCalled, stopRet, pend, qp, Q, banned, deadEm, viol>>

\* C04 exactly once: every handler of the snapshot was called, unless it was removed after the snapshot
DispEnd == /\ LinOK /\ cur # NoCur
           /\ (cur.snap \ cur.called) \subseteq cur.excused
           /\ cur' = NoCur
           /\ UNCHANGED <<tid, l, reg, sched, emOf, started, stopCalled, stopRet, pend, qp, Q, banned, deadEm, viol>>

\* stream drained while the observer is running: nothing queued may be left undelivered (blocking: P_C04_Delivered)
NoPending == \A e \in AllEms : qp[e] = NoPut
Quiescent == /\ Line("quiescent") /\ Consume
             /\ NoPending
             /\ (Running => (Q = << >> /\ cur = NoCur))
             /\ UNCHANGED <<reg, sched, emOf, started, stopCalled, stopRet, pend, qp, Q, cur, banned, deadEm, viol>>

----------------------------------------------------------------------------
\* C13: black-box view of the registry at a quiet moment (no call in flight)
SetOf(s) == {s[i] : i \in 1..Len(s)}
PartialStartBefore == \E j \in 1..(l - 1) : Tr[j].e = "ret" /\ Tr[j].op = "start" /\ ~Tr[j].ok /\ Get(Tr[j], "exc", "") = "OSError"
Probe == /\ Line("probe") /\ Consume
         /\ \A t \in AllThreads : pend[t] = << >>
         /\ LET ems == SetOf(Tr[l].emitters)            \* sequence of [w, alive]
                rts == Tr[l].routes                      \* sequence of [w, hs]
            IN viol' = viol
                 \cup (IF {x.w : x \in ems} # sched THEN {"P_C13_EmittersAreScheduledWatches"} ELSE {})
                 \cup (IF Len(Tr[l].emitters) # Cardinality({x.w : x \in ems}) THEN {"P_C13_OneEmitterPerWatch"} ELSE {})
                 \* (after a start() that failed part-way the emitters started before the failing one run without an observer
                 \* thread until start() is retried: only "running => alive" and "stopped => not alive" are demanded then)
                 \cup (IF \E x \in ems : IF PartialStartBefore THEN (Running /\ ~x.alive) \/ (stopCalled /\ x.alive) ELSE x.alive # Running
                       THEN {"P_C13_EmitterAliveIffRunning"} ELSE {})
                 \cup (IF \E i \in 1..Len(rts) : SetOf(rts[i].hs) # (IF rts[i].w \in DOMAIN reg THEN reg[rts[i].w] ELSE {})
                       THEN {"P_C13_RoutesEqualMap"} ELSE {})
         /\ UNCHANGED <<reg, sched, emOf, started, stopCalled, stopRet, pend, qp, Q, cur, banned, deadEm>>

\* C06: after stop()+join() every library thread has exited
Final == /\ Line("final") /\ Consume
         /\ viol' = viol \cup (IF Len(Tr[l].live) > 0 THEN {"P_C06_AllExited"} ELSE {})
         /\ UNCHANGED <<reg, sched, emOf, started, stopCalled, stopRet, pend, qp, Q, cur, banned, deadEm>>
Deadlock == /\ Line("deadlock") /\ Consume
            /\ viol' = viol \cup {"P_C06_NoDeadlock"}
            /\ UNCHANGED <<reg, sched, emOf, started, stopCalled, stopRet, pend, qp, Q, cur, banned, deadEm>>
Uncaught == /\ Line("uncaught") /\ Consume
            /\ viol' = viol \cup {"P_C07_NoUncaught"}
            /\ UNCHANGED <<reg, sched, emOf, started, stopCalled, stopRet, pend, qp, Q, cur, banned, deadEm>>
Other == /\ l <= Len(Tr) /\ Tr[l].e \in {"thread_start", "thread_exit", "note"} /\ Consume
         /\ UNCHANGED <<reg, sched, emOf, started, stopCalled, stopRet, pend, qp, Q, cur, banned, deadEm, viol>>

Next == TLCGet(BIG + tid) = 0 /\
        (Call \/ RetFail \/ RetOk \/ EmCreated \/ Queued \/ Cb \/ Quiescent \/ Probe \/ Final \/ Deadlock \/ Uncaught \/ Other
         \/ DispStart \/ DispEnd
         \/ (\E t \in AllThreads : Lin(t) \/ LinFail(t)) \/ (\E e \in AllEms : LinQueue(e)))
Spec == Init /\ [][Next]_vars

Report == Progress(tid, l, Len(Tr), viol)
PostCond == Post
=============================================================================
