---------------------------- MODULE XlatCommon ----------------------------
(* Shared vocabulary of WinXlat.tla and FSEventsXlat.tla (C20, DESIGN section 4.6):                      *)
(*  - the small abstract file system below a watched root: names {1,2} (= a, b), depth 2, an outside     *)
(*    area that is not represented (an entry moved out disappears, an entry moved in appears);            *)
(*  - the operation vocabulary of the histories (create file / dir, write, recursive delete, rename       *)
(*    inside the tree, move out, move in of a file / an empty directory / a directory tree, removal of    *)
(*    the watched root) and the directory pacing condition of C01 (DESIGN section 7, "Pacing");           *)
(*  - the normalized events and the total replay function Apply of DESIGN section 7 ("Replaying events"), *)
(*    the same definitions spec/XlatTrace.tla uses on the real emitters' output;                          *)
(*  - the per-operation contract clauses of C20 (rename = one moved event + synthetic moved events for    *)
(*    the descendants; move in / out = created / deleted).                                                *)
EXTENDS Naturals, Sequences, FiniteSets

Names == {1, 2}
Paths == {<<x>> : x \in Names} \cup {<<x, y>> : x \in Names, y \in Names}
ROOT == <<>>
NONE == <<0>>                          \* "" : no path
Special(p) == p = NONE

Parent(p) == SubSeq(p, 1, Len(p) - 1)
IsPrefix(s, t) == Len(s) <= Len(t) /\ SubSeq(t, 1, Len(s)) = s
Rebase(p, s, d) == d \o SubSeq(p, Len(s) + 1, Len(p))
Below(p) == {q \in Paths : IsPrefix(p, q) /\ q # p}

\* ---- trees: Paths -> "n" (absent) | "f" | "d"
Empty == [p \in Paths |-> "n"]
StartTrees == { Empty,
                [p \in Paths |-> IF p = <<1>> THEN "d" ELSE IF p = <<1, 1>> \/ p = <<2>> THEN "f" ELSE "n"],
                [p \in Paths |-> IF p \in {<<1>>, <<1, 1>>, <<2>>} THEN "d" ELSE IF p = <<1, 2>> THEN "f" ELSE "n"] }
ParentOK(t, p) == Len(p) = 1 \/ t[Parent(p)] = "d"
Children(t, p) == {q \in Below(p) : t[q] # "n"}
AsSet(t) == {[p |-> p, k |-> t[p]] : p \in {q \in Paths : t[q] # "n"}}

\* ---- operations
NoPath == NONE
Ops(t) ==
    {[op |-> "mkfile", src |-> p, dst |-> NoPath, k |-> "f"] : p \in {q \in Paths : t[q] = "n" /\ ParentOK(t, q)}}
    \cup {[op |-> "mkdir", src |-> p, dst |-> NoPath, k |-> "d"] : p \in {q \in Paths : t[q] = "n" /\ ParentOK(t, q)}}
    \cup {[op |-> "write", src |-> p, dst |-> NoPath, k |-> "f"] : p \in {q \in Paths : t[q] = "f"}}
    \cup {[op |-> "delete", src |-> p, dst |-> NoPath, k |-> t[p]] : p \in {q \in Paths : t[q] # "n"}}
    \cup {[op |-> "moveout", src |-> p, dst |-> NoPath, k |-> t[p]] : p \in {q \in Paths : t[q] # "n"}}
    \cup {[op |-> "rename", src |-> pq[1], dst |-> pq[2], k |-> t[pq[1]]] :
            pq \in {x \in Paths \X Paths : /\ t[x[1]] # "n" /\ t[x[2]] = "n" /\ ParentOK(t, x[2])
                                           /\ ~IsPrefix(x[1], x[2])
                                           /\ (Children(t, x[1]) # {} => Len(x[2]) = 1)}}
    \cup {[op |-> "movein", src |-> NoPath, dst |-> p, k |-> k] :
            p \in {q \in Paths : t[q] = "n" /\ ParentOK(t, q)}, k \in {"f", "d"}}
    \cup {[op |-> "movein", src |-> NoPath, dst |-> p, k |-> "t"] : p \in {q \in Paths : t[q] = "n" /\ Len(q) = 1}}
RootOp == [op |-> "rmroot", src |-> ROOT, dst |-> NoPath, k |-> "d"]

KindOf(o) == IF o.k = "t" THEN "d" ELSE o.k
ApplyOp(t, o) ==
    CASE o.op = "mkfile" -> [t EXCEPT ![o.src] = "f"]
      [] o.op = "mkdir" -> [t EXCEPT ![o.src] = "d"]
      [] o.op = "write" -> t
      [] o.op \in {"delete", "moveout"} -> [p \in Paths |-> IF IsPrefix(o.src, p) THEN "n" ELSE t[p]]
      [] o.op = "rename" -> [p \in Paths |-> IF IsPrefix(o.dst, p)
                                             THEN (IF Rebase(p, o.dst, o.src) \in Paths THEN t[Rebase(p, o.dst, o.src)] ELSE "n")
                                             ELSE IF IsPrefix(o.src, p) THEN "n" ELSE t[p]]
      [] o.op = "movein" -> [p \in Paths |-> IF p = o.dst THEN KindOf(o)
                                             ELSE IF o.k = "t" /\ p = o.dst \o <<1>> THEN "f"
                                             ELSE IF o.k = "t" /\ p = o.dst \o <<2>> THEN "d" ELSE t[p]]
      [] o.op = "rmroot" -> Empty

\* ---- pacing (C01): `hot` = the directories shaped since the last drain point, each with its current path d
\* (the old path for a removed one) and the names ns it has made hot
DirShaping(t, o) == (o.op \in {"mkdir", "rmroot"}) \/ (o.op = "movein" /\ o.k # "f")
                    \/ (o.op \in {"delete", "moveout", "rename"} /\ t[o.src] = "d")
Touched(o) == (IF o.src # NoPath THEN {o.src} ELSE {}) \cup (IF o.dst # NoPath THEN {o.dst} ELSE {})
NewNames(o) == IF o.op \in {"mkfile", "mkdir"} THEN {o.src} ELSE IF o.op \in {"rename", "movein"} THEN {o.dst} ELSE {}
PacingOK(t, hot, o) ==
    /\ \A h \in hot : \A p \in Touched(o) : ~(IsPrefix(h.d, p) /\ p # h.d)          \* nothing below a hot directory
    /\ (o.op = "delete" /\ \E h \in hot : h.d = o.src) => Children(t, o.src) = {}  \* removing it only if empty
    /\ \A p \in NewNames(o) : \A h \in hot : p \in h.ns => (o.op = "rename" /\ o.src = h.d)
                                    \* nothing onto a hot name, except the hot directory itself coming back to its own
    /\ o.op = "rmroot" => hot = {}
HotAfter(t, hot, o) ==
    IF o.op = "rename" /\ \E h \in hot : h.d = o.src
    THEN {IF h.d = o.src THEN [d |-> o.dst, ns |-> h.ns \cup {o.dst}] ELSE h : h \in hot}
    ELSE IF ~DirShaping(t, o) THEN hot
    ELSE hot \cup {[d |-> IF o.op \in {"rename", "movein"} THEN o.dst ELSE o.src, ns |-> Touched(o)]}

\* ---- normalized events and replay
Ev(ty, k, src, dst, syn) == [ty |-> ty, k |-> k, src |-> src, dst |-> dst, syn |-> syn]
RPaths(rep) == {x.p : x \in rep}
Created(rep, p, k) == {x \in rep : x.p # p} \cup {[p |-> p, k |-> k]}
Deleted(rep, p) == {x \in rep : ~IsPrefix(p, x.p)}
Moved(rep, s, d, k) ==
    IF Special(s) /\ Special(d) THEN rep
    ELSE IF Special(s) THEN Created(rep, d, k)
    ELSE IF Special(d) THEN Deleted(rep, s)
    ELSE IF s \in RPaths(rep)
         THEN {x \in rep : ~IsPrefix(s, x.p) /\ ~IsPrefix(d, x.p)}
              \cup {[p |-> Rebase(x.p, s, d), k |-> x.k] : x \in {y \in rep : IsPrefix(s, y.p)}}
         ELSE IF d \notin RPaths(rep) THEN rep \cup {[p |-> d, k |-> k]}
         ELSE rep
Apply0(rep, e) ==
    IF e.ty = "created" THEN Created(rep, e.src, e.k)
    ELSE IF e.ty = "deleted" THEN Deleted(rep, e.src)
    ELSE IF e.ty = "moved" THEN Moved(rep, e.src, e.dst, e.k)
    ELSE rep
\* TLC builds set values lazily (a filter over a union over a filter ...): a long feed would nest hundreds of them and
\* overflow the Java stack when the result is finally enumerated; Cardinality enumerates and caches at every step.
Apply(rep, e) == LET r == Apply0(rep, e) IN IF Cardinality(r) >= 0 THEN r ELSE r
\* left fold of Apply over evs[lo..hi], by halving, the left half forced before the right one is started (TLC passes
\* operator arguments lazily: an unforced fold would still nest one pending evaluation per event)
RECURSIVE Fold(_, _, _, _)
Fold(rep, evs, lo, hi) == IF lo > hi THEN rep
                          ELSE IF lo = hi THEN Apply(rep, evs[lo])
                          ELSE LET mid == (lo + hi) \div 2
                                   left == Fold(rep, evs, lo, mid)
                               IN IF Cardinality(left) >= 0 THEN Fold(left, evs, mid + 1, hi) ELSE left
ApplyAll(rep, evs, i) == Fold(rep, evs, i, Len(evs))
Depth1(rep) == {x \in rep : Len(x.p) = 1}
ReplicaOK(start, evs, t, rec) ==
    LET have == ApplyAll(AsSet(start), evs, 1) IN
    IF rec THEN have = AsSet(t) ELSE Depth1(have) = Depth1(AsSet(t))

\* ---- per-operation contract; desc = the descendants (relative path, kind) of the moved / arrived directory
SeqSet(s) == {s[i] : i \in 1..Len(s)}
EvsOf(evs, ty, syn) == {e \in SeqSet(evs) : e.ty = ty /\ e.syn = syn}
AllOf(evs, ty) == EvsOf(evs, ty, TRUE) \cup EvsOf(evs, ty, FALSE)
Triple(e) == <<e.src, e.dst, e.k>>
DescOf(t, p) == {<<SubSeq(q, Len(p) + 1, Len(q)), t[q]>> : q \in Children(t, p)}
RenameOK(o, desc, evs) ==
    /\ {Triple(e) : e \in EvsOf(evs, "moved", FALSE)} = {<<o.src, o.dst, KindOf(o)>>}
    /\ {Triple(e) : e \in EvsOf(evs, "moved", TRUE)} = {<<o.src \o r[1], o.dst \o r[1], r[2]>> : r \in desc}
    /\ AllOf(evs, "created") \cup AllOf(evs, "deleted") = {}
MoveInOK(o, desc, evs, rec) ==
    /\ {<<e.src, e.k>> : e \in EvsOf(evs, "created", FALSE)} = {<<o.dst, KindOf(o)>>}
    /\ rec => {<<e.src, e.k>> : e \in EvsOf(evs, "created", TRUE)} = {<<o.dst \o r[1], r[2]>> : r \in desc}
    /\ AllOf(evs, "moved") \cup AllOf(evs, "deleted") = {}
MoveOutOK(o, evs) ==
    LET del == {e.src : e \in AllOf(evs, "deleted")} IN
    /\ o.src \in del /\ \A p \in del : IsPrefix(o.src, p)
    /\ AllOf(evs, "moved") \cup AllOf(evs, "created") = {}
=============================================================================
