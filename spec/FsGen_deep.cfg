SPECIFICATION Spec
CONSTANTS
  Names = {"a", "b"}
  MaxIno = 7
  MaxDepth = 3
  MaxOps = 3
  StartTree = "deep"
VIEW View
CHECK_DEADLOCK FALSE
