SPECIFICATION Spec
CONSTANTS
  Family = "stoprace"
  MaxEm = 3
  EvPerEm = 2
  FixD3 = TRUE
  FixD10 = TRUE
  FixD12 = FALSE
  FixD17 = TRUE
  FixD18 = TRUE
  FixD20 = TRUE
INVARIANT C06_AllExitedAfterJoin
