SPECIFICATION Spec
CONSTANTS
  Family = "stoprace"
  MaxEm = 3
  EvPerEm = 2
  FixD3 = TRUE
  FixD10 = TRUE
  FixD12 = FALSE
INVARIANT C06_AllExitedAfterJoin
