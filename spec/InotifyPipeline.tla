--------------------------- MODULE InotifyPipeline ---------------------------
(* FsKernel (VFS + inotify, the operating process under the pacing condition) composed with the library's  *)
(* reader: Inotify.read_events with its wd <-> path maps, the watch it adds for new directories, the walk  *)
(* of new trees, the re-keying on renames -- plus the replica that an application would build from the      *)
(* normalized created / deleted / moved events (C01), and the watch-coverage invariant behind C02.          *)
(* The buffer/emitter stages are abstracted to their net effect on the normalized stream (pairing by        *)
(* cookie: the two halves of a rename are queued by one system call, so an unmatched half is known at       *)
(* once; Pairing.tla / DelayedQueue.tla check that mechanism on its own).                                   *)
(* TLC chooses: the history (<= MaxOps operations, pacing respected), how the kernel queue is cut into      *)
(* reads, and where every reader step falls between the system calls.                                      *)
(* Repaired defects are kept as switches; switched back on they must violate the invariants:                *)
(*   FixD6   a directory MOVED_TO (unknown source / renamed before it was watched / replacing a watched     *)
(*           directory / carrying just-created sub-directories) is (re-)watched recursively                 *)
(*   FixD5   IN_IGNORED clean-up tolerates a path that is no longer mapped                                  *)
(*   FixD15  _add_watch drops the stale path of a descriptor that comes back under another name             *)
EXTENDS FsKernel

CONSTANTS MaxOps, StartTree, FixD5, FixD6, FixD15,
          AvoidD7    \* TRUE: the driver does not move entries into / out of a directory that left the tree but is still
                     \* watched (known finding D7; with FALSE the replica invariant is violated, see the dev configs)

VARIABLES wfp,       \* _wd_for_path : path -> wd
          pfw,       \* _path_for_wd : wd -> path
          mf,        \* cookie -> source path of a remembered MOVED_FROM
          batch,     \* raw events read and not yet processed
          rep,       \* replica built from the normalized events
          crashed,   \* the reader thread died (KeyError)
          nops
vars == <<node, kw, kq, ck, hotD, hotN, wfp, pfw, mf, batch, rep, crashed, nops>>

Dir(p, n) == [k |-> "dir", par |-> p, nm |-> n]
File(p, n) == [k |-> "file", par |-> p, nm |-> n]
Start ==
  CASE StartTree = "empty" -> [i \in Ino |-> IF i = RR THEN Dir(0, "R") ELSE IF i = RO THEN Dir(0, "O") ELSE Free]
    [] StartTree = "small" -> [i \in Ino |-> CASE i = RR -> Dir(0, "R") [] i = RO -> Dir(0, "O")
                                               [] i = 3 -> Dir(RR, "a") [] i = 4 -> File(3, "a") [] i = 5 -> Dir(RO, "a")
                                               [] OTHER -> Free]
    [] OTHER -> [i \in Ino |-> CASE i = RR -> Dir(0, "R") [] i = RO -> Dir(0, "O")
                                 [] i = 3 -> Dir(RR, "a") [] i = 4 -> Dir(3, "b") [] OTHER -> Free]

RECURSIVE ResolveFrom(_, _, _)
ResolveFrom(nd, i, p) == IF p = << >> THEN i
                         ELSE LET c == {j \in Ino : nd[j].k # "free" /\ nd[j].par = i /\ nd[j].nm = Head(p)} IN
                              IF c = {} \/ nd[i].k # "dir" THEN 0 ELSE ResolveFrom(nd, CHOOSE j \in c : TRUE, Tail(p))
Resolve(p) == ResolveFrom(node, RR, p)
Pre(a, b) == Len(a) <= Len(b) /\ SubSeq(b, 1, Len(a)) = a
DirsUnder(i) == {j \in Subtree(i) : IsDir(j)}

\* the initial recursive watch: the root and every directory below it, in inode order
StartDirs == {i \in Ino : Start[i].k = "dir" /\ (i = RR \/ Start[i].par = RR \/ (Start[i].par # 0 /\ Start[Start[i].par].par = RR))} \ {RO, 5}
RECURSIVE SeqOfSet(_)
SeqOfSet(S) == IF S = {} THEN << >> ELSE LET m == CHOOSE x \in S : \A y \in S : x <= y IN <<m>> \o SeqOfSet(S \ {m})
StartPath(i) == IF i = RR THEN << >> ELSE IF Start[i].par = RR THEN <<Start[i].nm>> ELSE <<Start[Start[i].par].nm, Start[i].nm>>
Init == /\ node = Start /\ kq = << >> /\ ck = 1 /\ hotD = {} /\ hotN = {}
        /\ kw = SeqOfSet(StartDirs)
        /\ wfp = [p \in {StartPath(i) : i \in StartDirs} |-> CHOOSE w \in 1..Len(SeqOfSet(StartDirs)) : StartPath(SeqOfSet(StartDirs)[w]) = p]
        /\ pfw = [w \in 1..Len(SeqOfSet(StartDirs)) |-> StartPath(SeqOfSet(StartDirs)[w])]
        /\ mf = << >> /\ batch = << >> /\ crashed = FALSE /\ nops = 0
        /\ rep = {[p |-> StartPath(i), k |-> "dir"] : i \in StartDirs \ {RR}}
                 \cup {[p |-> Append(StartPath(Start[i].par), Start[i].nm), k |-> "file"] : i \in {j \in Ino : Start[j].k = "file" /\ Start[j].par \in StartDirs}}

\* ---------------------------------------------------------------------------- the operating process
Drained == kq = << >> /\ batch = << >>
LibUnch == UNCHANGED <<wfp, pfw, mf, batch, rep, crashed>>
Bump == nops < MaxOps /\ nops' = nops + 1 /\ ~crashed
DMkdir(p, n) == Bump /\ Mkdir(p, n) /\ LibUnch
DCreat(p, n) == Bump /\ Creat(p, n) /\ LibUnch
DMakedirs(p, a, b) == Bump /\ Makedirs(p, a, b) /\ LibUnch
DUnlink(i) == Bump /\ Unlink(i) /\ LibUnch
DRmdir(i) == Bump /\ Rmdir(i) /\ LibUnch
DRmtree(i) == Bump /\ Rmtree(i) /\ LibUnch
DRename(i, p2, n2) == /\ Bump /\ Rename(i, p2, n2) /\ LibUnch
                      /\ (AvoidD7 => ~(InO(p2) /\ \E x \in Ino : Watched(x) /\ InO(x) /\ Anc(x, p2))
                                      /\ ~(InO(i) /\ \E x \in Ino : Watched(x) /\ InO(x) /\ Anc(x, node[i].par)))
DDrain == Drained /\ (hotD # {} \/ hotN # {}) /\ Drain /\ LibUnch /\ UNCHANGED nops

\* ---------------------------------------------------------------------------- the reader
Put(f, k, v) == IF k \in DOMAIN f THEN [f EXCEPT ![k] = v] ELSE f @@ (k :> v)
Del(f, k) == [x \in DOMAIN f \ {k} |-> f[x]]
\* inotify_add_watch(path) + the library's book-keeping (_add_watch)
AddW(st, p) ==   \* st = [kw, wfp, pfw]; returns the new triple (unchanged if the path does not resolve to a directory)
    LET i == Resolve(p) IN
    IF i = 0 \/ ~IsDir(i) THEN st
    ELSE LET ws == {w \in 1..Len(st.kw) : st.kw[w] = i}
             wd == IF ws # {} THEN CHOOSE w \in ws : TRUE ELSE Len(st.kw) + 1
             kw2 == IF ws # {} THEN st.kw ELSE Append(st.kw, i)
             old == IF wd \in DOMAIN st.pfw THEN st.pfw[wd] ELSE << >>
             wfp1 == IF FixD15 /\ wd \in DOMAIN st.pfw /\ old # p /\ old \in DOMAIN st.wfp /\ st.wfp[old] = wd
                     THEN Del(st.wfp, old) ELSE st.wfp
         IN [kw |-> kw2, wfp |-> Put(wfp1, p, wd), pfw |-> Put(st.pfw, wd, p)]
\* _add_dir_watch(path, recursive): the directory and every directory below it, as the tree is now
RECURSIVE AddAll(_, _)
AddAll(st, ps) == IF ps = {} THEN st ELSE LET p == CHOOSE x \in ps : \A y \in ps : Len(x) <= Len(y) IN AddAll(AddW(st, p), ps \ {p})
AddTree(st, p) == LET i == Resolve(p) IN
                  IF i = 0 \/ ~IsDir(i) THEN st
                  ELSE AddAll(st, {p \o SubSeq(PathOf(j), Len(PathOf(i)) + 1, Len(PathOf(j))) : j \in DirsUnder(i)})
\* entries below a directory, as the tree is now (walks of _recursive_simulate / generate_sub_created_events)
Below(p) == LET i == Resolve(p) IN
            IF i = 0 THEN {} ELSE {[p |-> p \o SubSeq(PathOf(j), Len(PathOf(i)) + 1, Len(PathOf(j))), k |-> node[j].k] : j \in Subtree(i) \ {i}}

\* replica (DESIGN §7 "Replaying events")
Under(r, p) == {e \in r : Pre(p, e.p)}
HasP(r, p) == \E e \in r : e.p = p
ACreated(r, p, k) == {e \in r : e.p # p} \cup {[p |-> p, k |-> k]}
ADeleted(r, p) == r \ Under(r, p)
AMoved(r, s, d, k) == IF HasP(r, s) THEN LET mv == Under(r, s) IN
                                         ((r \ mv) \ Under(r, d)) \cup {[p |-> d \o SubSeq(e.p, Len(s) + 1, Len(e.p)), k |-> e.k] : e \in mv}
                      ELSE IF ~HasP(r, d) THEN r \cup {[p |-> d, k |-> k]} ELSE r
\* the emitter's synthetic moved events for the contents of a renamed directory (walk of the destination, as it is now)
RECURSIVE AMovedAll(_, _, _, _)
AMovedAll(r, s, d, es) == IF es = {} THEN r
                          ELSE LET e == CHOOSE x \in es : \A y \in es : Len(x.p) <= Len(y.p) IN
                               AMovedAll(AMoved(r, s \o SubSeq(e.p, Len(d) + 1, Len(e.p)), e.p, e.k), s, d, es \ {e})
RECURSIVE ACreatedAll(_, _)
ACreatedAll(r, es) == IF es = {} THEN r ELSE LET e == CHOOSE x \in es : \A y \in es : Len(x.p) <= Len(y.p) IN ACreatedAll(ACreated(r, e.p, e.k), es \ {e})

RdRead(n) == /\ ~crashed /\ batch = << >> /\ n \in 1..Len(kq)
             /\ batch' = SubSeq(kq, 1, n) /\ kq' = SubSeq(kq, n + 1, Len(kq))
             /\ UNCHANGED <<node, kw, ck, hotD, hotN, wfp, pfw, mf, rep, crashed, nops>>

\* is the matching MOVED_TO the very next raw event (in this batch or at the head of the kernel queue)?
NextRaw == IF Len(batch) > 1 THEN <<batch[2]>> ELSE IF kq # << >> THEN <<kq[1]>> ELSE << >>
RdStep ==
    /\ ~crashed /\ batch # << >>
    /\ LET e == Head(batch) IN
       /\ batch' = Tail(batch)
       /\ IF e.wd \notin DOMAIN pfw
          THEN crashed' = TRUE /\ UNCHANGED <<kw, wfp, pfw, mf, rep>>                 \* KeyError: self._path_for_wd[wd]
          ELSE LET wp == pfw[e.wd]
                   src == IF e.nm = "" THEN wp ELSE Append(wp, e.nm)
                   kind == IF e.dir THEN "dir" ELSE "file"
                   st0 == [kw |-> kw, wfp |-> wfp, pfw |-> pfw] IN
               CASE e.t = "MOVED_FROM" ->
                      /\ mf' = Put(mf, e.ck, src)
                      \* unmatched (moved out of the tree) iff the next raw event is not its MOVED_TO
                      /\ rep' = IF NextRaw # << >> /\ NextRaw[1].t = "MOVED_TO" /\ NextRaw[1].ck = e.ck THEN rep ELSE ADeleted(rep, src)
                      /\ UNCHANGED <<kw, wfp, pfw, crashed>>
                 [] e.t = "MOVED_TO" ->
                      LET paired == e.ck \in DOMAIN mf
                          ms == IF paired THEN mf[e.ck] ELSE << >>
                          rekey == paired /\ ms \in DOMAIN wfp
                          \* re-key the moved directory and every watched path below it (prefix rewrite)
                          moved == IF rekey THEN {p \in DOMAIN wfp : Pre(ms, p)} ELSE {}
                          np(p) == src \o SubSeq(p, Len(ms) + 1, Len(p))
                          wfp1 == [p \in (DOMAIN wfp \ moved) \cup {np(q) : q \in moved} |->
                                     IF \E q \in moved : np(q) = p THEN wfp[CHOOSE q \in moved : np(q) = p] ELSE wfp[p]]
                          pfw1 == [w \in DOMAIN pfw |-> IF pfw[w] \in moved /\ wfp[pfw[w]] = w THEN np(pfw[w]) ELSE pfw[w]]
                          st1 == [kw |-> kw, wfp |-> wfp1, pfw |-> pfw1]
                          st2 == IF e.dir /\ FixD6 THEN AddTree(st1, src) ELSE st1 IN
                      /\ kw' = st2.kw /\ wfp' = st2.wfp /\ pfw' = st2.pfw
                      /\ rep' = IF paired THEN AMovedAll(AMoved(rep, ms, src, kind), ms, src, IF e.dir THEN Below(src) ELSE {})
                                ELSE ACreatedAll(ACreated(rep, src, kind), IF e.dir THEN Below(src) ELSE {})
                      /\ UNCHANGED <<mf, crashed>>
                 [] e.t = "IGNORED" ->
                      /\ pfw' = Del(pfw, e.wd)
                      /\ IF wp \notin DOMAIN wfp
                         THEN IF FixD5 THEN UNCHANGED <<wfp, crashed>> ELSE crashed' = TRUE /\ UNCHANGED wfp     \* KeyError (D5)
                         ELSE wfp' = (IF wfp[wp] = e.wd THEN Del(wfp, wp) ELSE wfp) /\ UNCHANGED crashed
                      /\ UNCHANGED <<kw, mf, rep>>
                 [] e.t = "CREATE" /\ e.dir ->
                      \* add a watch for the path as it resolves NOW, then walk the new tree as it is NOW
                      LET st1 == AddTree(st0, src) IN
                      /\ kw' = st1.kw /\ wfp' = st1.wfp /\ pfw' = st1.pfw
                      /\ rep' = ACreatedAll(ACreated(rep, src, "dir"), IF Resolve(src) # 0 /\ IsDir(Resolve(src)) THEN Below(src) ELSE {})
                      /\ UNCHANGED <<mf, crashed>>
                 [] e.t = "CREATE" -> rep' = ACreated(rep, src, "file") /\ UNCHANGED <<kw, wfp, pfw, mf, crashed>>
                 [] e.t = "DELETE" -> rep' = ADeleted(rep, src) /\ UNCHANGED <<kw, wfp, pfw, mf, crashed>>
                 [] OTHER -> UNCHANGED <<kw, wfp, pfw, mf, rep, crashed>>
    /\ UNCHANGED <<node, kq, ck, hotD, hotN, nops>>

Done == (nops = MaxOps \/ crashed) /\ Drained /\ hotD = {} /\ hotN = {} /\ UNCHANGED vars
Next == \/ \E p \in Ino, n \in Names : DMkdir(p, n) \/ DCreat(p, n)
        \/ \E p \in Ino, a \in Names, b \in Names : DMakedirs(p, a, b)
        \/ \E i \in Ino : DUnlink(i) \/ DRmdir(i) \/ DRmtree(i)
        \/ \E i \in Ino, p2 \in Ino, n2 \in Names : DRename(i, p2, n2)
        \/ DDrain \/ (\E n \in 1..3 : RdRead(n)) \/ RdStep \/ Done
Spec == Init /\ [][Next]_vars

\* ---------------------------------------------------------------------------- properties
\* C07: no history kills the reader
C07_NoCrash == ~crashed
\* C01: whenever the stream has drained the replica equals the tree
C01_ReplicaMatches == (Drained /\ ~crashed) => rep = TreeR
\* C02: whenever the stream has drained, every directory of the tree is watched under its current name and the
\* kernel watch behind that descriptor is on that very directory; a mapped path that exists maps to its own inode
C02_WatchedEqualsDirs ==
    (Drained /\ ~crashed) =>
        /\ \A i \in {j \in Ino : InR(j) /\ IsDir(j)} : PathOf(i) \in DOMAIN wfp /\ wfp[PathOf(i)] \in 1..Len(kw) /\ kw[wfp[PathOf(i)]] = i
        /\ \A p \in DOMAIN wfp : (Resolve(p) # 0 /\ IsDir(Resolve(p))) => kw[wfp[p]] = Resolve(p)
\* Deviation D7 (known finding, not repaired): a directory moved out of the tree keeps its kernel watch and its
\* entry in the maps.  The strict form below is therefore violated (checked by a configuration that expects so).
C02_NoStaleWatches == (Drained /\ ~crashed) => \A p \in DOMAIN wfp : Resolve(p) # 0
=============================================================================
