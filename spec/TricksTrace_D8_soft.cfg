SPECIFICATION Spec
CONSTANTS
  AllowD8 = TRUE
  HardOrder = FALSE
CONSTRAINT Report
POSTCONDITION PostCond
CHECK_DEADLOCK FALSE
