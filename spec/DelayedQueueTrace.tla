-------------------------- MODULE DelayedQueueTrace --------------------------
(* Level-P trace specification for C17 (DESIGN §3, §6.3).                                *)
(* Black-box events from the real DelayedQueue under the deterministic scheduler:        *)
(*   call/ret of put(el, delayed?), remove(el), close(), get();  tick (virtual clock).   *)
(* The object below is the most permissive one that satisfies C17; linearization points  *)
(* are placed by TLC.  A trace that cannot be consumed has no explanation => VIOLATION.  *)
(*   - put appends [el, insertion time = time of its linearization point, delayed?]      *)
(*   - remove(el) takes el out iff it is queued and returns it, else returns 0           *)
(*   - get returns the head, for a delayed head only when now >= insertion time + Delay  *)
(*     (never early), or 0 (end marker) only once close() has been called; a get that    *)
(*     is *called after* close() returned must return the end marker                     *)
(* Monitor P_C17_ImmediateWhenUndelayedHead: a get called while the head is an undelayed *)
(* element and no other operation is in flight (none starts before it returns) returns   *)
(* at the same virtual time.                                                             *)
EXTENDS TraceUtil

CONSTANT Delay

VARIABLES tid, l, dq, now, pend, closing, closeRet, viol
vars == <<tid, l, dq, now, pend, closing, closeRet, viol>>

Tr == AllTraces[tid]
AllThreads == UNION {{AllTraces[i][j].t : j \in 1..Len(AllTraces[i])} : i \in 1..NTraces}
Idle == [k |-> "idle"]

ASSUME InitRegs

Init == /\ tid \in 1..NTraces /\ l = 1 /\ dq = <<>> /\ now = 0 /\ viol = {}
        /\ pend = [t \in AllThreads |-> Idle] /\ closing = FALSE /\ closeRet = FALSE

Ev(k, op) == l <= Len(Tr) /\ Tr[l].e = k /\ Tr[l].op = op /\ l' = l + 1 /\ UNCHANGED tid
Me == Tr[l].t
OthersIdle(t) == \A u \in AllThreads \ {t} : pend[u] = Idle

\* adv = TRUE: time passed while threads were runnable (the harness' clock thread) -- a slow consumer is not a
\* late consumer, so such a tick cancels the "immediate" expectation; adv = FALSE: the scheduler advanced the
\* clock because every thread was blocked or sleeping.
Tick == /\ l <= Len(Tr) /\ Tr[l].e = "tick" /\ l' = l + 1 /\ now' = Tr[l].now
        /\ pend' = IF Tr[l].adv
                   THEN [u \in AllThreads |-> IF pend[u].k = "get" THEN [pend[u] EXCEPT !.imm = FALSE] ELSE pend[u]]
                   ELSE pend
        /\ UNCHANGED <<tid, dq, closing, closeRet, viol>>

\* any call disturbs the "immediate" expectation of every get in flight
Disturb(p, t) == [u \in AllThreads |-> IF u # t /\ p[u].k = "get" THEN [p[u] EXCEPT !.imm = FALSE] ELSE p[u]]

CallPut == /\ Ev("call", "put") /\ pend[Me] = Idle
           /\ pend' = [Disturb(pend, Me) EXCEPT ![Me] = [k |-> "put", el |-> Tr[l].el, d |-> Tr[l].d, done |-> FALSE]]
           /\ UNCHANGED <<dq, now, closing, closeRet, viol>>
RetPut  == /\ Ev("ret", "put") /\ pend[Me].k = "put" /\ pend[Me].done
           /\ pend' = [pend EXCEPT ![Me] = Idle] /\ UNCHANGED <<dq, now, closing, closeRet, viol>>
CallRemove == /\ Ev("call", "remove") /\ pend[Me] = Idle
              /\ pend' = [Disturb(pend, Me) EXCEPT ![Me] = [k |-> "remove", el |-> Tr[l].el, done |-> FALSE, res |-> 0]]
              /\ UNCHANGED <<dq, now, closing, closeRet, viol>>
RetRemove  == /\ Ev("ret", "remove") /\ pend[Me].k = "remove" /\ pend[Me].done /\ pend[Me].res = Tr[l].res
              /\ pend' = [pend EXCEPT ![Me] = Idle] /\ UNCHANGED <<dq, now, closing, closeRet, viol>>
CallClose == /\ Ev("call", "close") /\ pend[Me] = Idle
             /\ pend' = [Disturb(pend, Me) EXCEPT ![Me] = [k |-> "close", done |-> TRUE]]
             /\ closing' = TRUE            \* the flag may become visible from here on
             /\ UNCHANGED <<dq, now, closeRet, viol>>
RetClose  == /\ Ev("ret", "close") /\ pend[Me].k = "close"
             /\ pend' = [pend EXCEPT ![Me] = Idle] /\ closeRet' = TRUE
             /\ UNCHANGED <<dq, now, closing, viol>>
CallGet == /\ Ev("call", "get") /\ pend[Me] = Idle
           /\ pend' = [Disturb(pend, Me) EXCEPT ![Me] =
                         [k |-> "get", done |-> FALSE, res |-> 0, after |-> closeRet, t0 |-> now,
                          imm |-> (dq # <<>> /\ ~dq[1].d /\ OthersIdle(Me) /\ ~closing)]]
           /\ UNCHANGED <<dq, now, closing, closeRet, viol>>
RetGet  == /\ Ev("ret", "get") /\ pend[Me].k = "get" /\ pend[Me].done /\ pend[Me].res = Tr[l].res
           /\ ~(pend[Me].imm /\ now # pend[Me].t0)      \* P_C17_ImmediateWhenUndelayedHead (blocking: a trace is
           /\ pend' = [pend EXCEPT ![Me] = Idle]         \*   accepted iff SOME explanation passes every clause)
           /\ UNCHANGED <<dq, now, closing, closeRet, viol>>

\* canonical placement of linearization points: immediately before a `ret` whose own operation is not done, or
\* immediately before a clock tick (the time of the linearization point matters: it is the insertion time of a
\* put and the hand-out time of a get; time only changes at tick lines)
LinOK == l <= Len(Tr) /\ \/ (Tr[l].e = "ret" /\ ~pend[Tr[l].t].done)
                         \/ Tr[l].e = "tick"

RemoveAt(s, i) == SubSeq(s, 1, i - 1) \o SubSeq(s, i + 1, Len(s))
LinPut(t) == /\ LinOK /\ pend[t].k = "put" /\ ~pend[t].done
             /\ pend' = [pend EXCEPT ![t].done = TRUE]
             /\ dq' = Append(dq, [e |-> pend[t].el, t |-> now, d |-> pend[t].d])
             /\ UNCHANGED <<tid, l, now, closing, closeRet, viol>>
LinRemove(t) == /\ LinOK /\ pend[t].k = "remove" /\ ~pend[t].done
                /\ LET idx == {i \in 1..Len(dq) : dq[i].e = pend[t].el} IN
                   IF idx = {} THEN pend' = [pend EXCEPT ![t].done = TRUE, ![t].res = 0] /\ UNCHANGED dq
                   ELSE LET i == CHOOSE i \in idx : \A j \in idx : i <= j IN
                        pend' = [pend EXCEPT ![t].done = TRUE, ![t].res = pend[t].el] /\ dq' = RemoveAt(dq, i)
                /\ UNCHANGED <<tid, l, now, closing, closeRet, viol>>
LinGet(t) == /\ LinOK /\ pend[t].k = "get" /\ ~pend[t].done
             /\ \/ /\ closing                                   \* end marker: only once close() was called
                   /\ pend' = [pend EXCEPT ![t].done = TRUE, ![t].res = 0] /\ UNCHANGED dq
                \/ /\ ~pend[t].after                            \* a get called after close() returned gets the end marker
                   /\ dq # <<>>
                   /\ (dq[1].d => now >= dq[1].t + Delay)       \* never early
                   /\ pend' = [pend EXCEPT ![t].done = TRUE, ![t].res = dq[1].e] /\ dq' = Tail(dq)
             /\ UNCHANGED <<tid, l, now, closing, closeRet, viol>>

\* a deadlock reported by the scheduler (a get blocked forever although close() returned, or an element is
\* available) is a monitor failure; the line is consumed so that the verdict is reported
DeadlockLine == /\ l <= Len(Tr) /\ Tr[l].e = "deadlock" /\ l' = l + 1
                /\ viol' = viol \cup {"P_C17_NoBlockedGet"}
                /\ UNCHANGED <<tid, dq, now, pend, closing, closeRet>>

Next == TLCGet(BIG + tid) = 0 /\
        (Tick \/ CallPut \/ RetPut \/ CallRemove \/ RetRemove \/ CallClose \/ RetClose \/ CallGet \/ RetGet
         \/ DeadlockLine \/ \E t \in AllThreads : LinPut(t) \/ LinRemove(t) \/ LinGet(t))
Spec == Init /\ [][Next]_vars

Report == Progress(tid, l, Len(Tr), viol)
PostCond == Post
=============================================================================
