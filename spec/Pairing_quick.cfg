SPECIFICATION Spec
CONSTANTS
  MaxLen = 2
  Delay = 2
  MaxTime = 5
  Gaps = {1, 2, 3}
INVARIANT C08_AtMostOnce
INVARIANT C08_ExactlyOnceWhenDrained
INVARIANT C08_InKernelOrder
INVARIANT C08_PairsAreCookieMates
INVARIANT C08_LoneFromNotEarly
INVARIANT C08_PairIfInTime
CHECK_DEADLOCK FALSE
