-------------------------- MODULE SubEventsTrace --------------------------
(* Level-P trace specification for C14 (DESIGN §3, §6.3).                                *)
(* One trace = a batch of lines; one line = one CASE executed on the real code:           *)
(*   k     "moved"   : generate_sub_moved_events(src, dst) was called                     *)
(*         "created" : generate_sub_created_events(dst) was called                        *)
(*   tree  the descendants of dst that really exist on disk: sequence of [p, k] with p    *)
(*         the full name sequence (dst \o relative path) and k \in {"d","f"}              *)
(*   src, dst   name sequences; src = <<>>: the caller passed an empty (unknown) source    *)
(*   ev    the events the REAL generator returned, in order, each projected byte-exactly   *)
(*         to [cls, src, dest, syn]: paths as name sequences; a component that is not a    *)
(*         name of the case is "?"; a path without the root spelling, or of the wrong      *)
(*         string type, is <<"?">>; <<>> is the empty path.  For created events `dest` is *)
(*         the path the event names (its src_path).                                        *)
(* The monitors are the laws of the property text; nothing here mentions how the code     *)
(* computes its result.  A failing law adds <<clause, line>> to viol; the line is consumed.*)
EXTENDS TraceUtil

VARIABLES tid, l, viol
vars == <<tid, l, viol>>

Tr == AllTraces[tid]
ASSUME InitRegs

IsPrefix(a, b) == Len(a) <= Len(b) /\ SubSeq(b, 1, Len(a)) = a
Parent(p) == SubSeq(p, 1, Len(p) - 1)
Rel(p, d) == SubSeq(p, Len(d) + 1, Len(p))

\* exactly one event per descendant
P_C14_OnePerDescendant(c) ==
    LET T == SeqToSet(c.tree) IN
    /\ Len(c.ev) = Cardinality(T)
    /\ \A m \in T : Cardinality({i \in 1..Len(c.ev) : c.ev[i].dest = m.p}) = 1
\* every destination is the real new path of a descendant
P_C14_DestIsRealPath(c) ==
    LET T == SeqToSet(c.tree) IN \A i \in 1..Len(c.ev) : \E m \in T : m.p = c.ev[i].dest
\* source = the old directory path followed by the same relative path  (not demanded when the source is unknown)
P_C14_SourceIsOldPrefixPlusSameRelativePath(c) ==
    (c.k = "moved" /\ c.src # <<>>) =>
        \A i \in 1..Len(c.ev) : IsPrefix(c.dst, c.ev[i].dest) => c.ev[i].src = c.src \o Rel(c.ev[i].dest, c.dst)
\* file / directory flavour, and the event type the call is about
P_C14_Flavour(c) ==
    LET T == SeqToSet(c.tree)
        dircls == IF c.k = "moved" THEN "DirMoved" ELSE "DirCreated"
        filecls == IF c.k = "moved" THEN "FileMoved" ELSE "FileCreated"
    IN \A i \in 1..Len(c.ev) :
         /\ c.ev[i].cls \in {dircls, filecls}
         /\ \A m \in T : m.p = c.ev[i].dest => c.ev[i].cls = (IF m.k = "d" THEN dircls ELSE filecls)
\* the event of a directory precedes the events of everything directly inside it (hence of everything below it)
P_C14_ParentBeforeChild(c) ==
    \A i, j \in 1..Len(c.ev) :
        (Len(c.ev[j].dest) > Len(c.dst) + 1 /\ c.ev[i].dest = Parent(c.ev[j].dest)) => i < j
P_C14_AllSynthetic(c) == \A i \in 1..Len(c.ev) : c.ev[i].syn

Failing(c) ==
    (IF P_C14_OnePerDescendant(c) THEN {} ELSE {"P_C14_OnePerDescendant"})
    \cup (IF P_C14_DestIsRealPath(c) THEN {} ELSE {"P_C14_DestIsRealPath"})
    \cup (IF P_C14_SourceIsOldPrefixPlusSameRelativePath(c) THEN {} ELSE {"P_C14_SourceIsOldPrefixPlusSameRelativePath"})
    \cup (IF P_C14_Flavour(c) THEN {} ELSE {"P_C14_Flavour"})
    \cup (IF P_C14_ParentBeforeChild(c) THEN {} ELSE {"P_C14_ParentBeforeChild"})
    \cup (IF P_C14_AllSynthetic(c) THEN {} ELSE {"P_C14_AllSynthetic"})

Init == tid \in 1..NTraces /\ l = 1 /\ viol = {}

Case == /\ l <= Len(Tr) /\ Tr[l].e = "case"
        /\ viol' = viol \cup {<<cl, l>> : cl \in Failing(Tr[l])}
        /\ l' = l + 1 /\ UNCHANGED tid

Next == TLCGet(BIG + tid) = 0 /\ Case
Spec == Init /\ [][Next]_vars

Report == Progress(tid, l, Len(Tr), viol)
PostCond == Post
=============================================================================
