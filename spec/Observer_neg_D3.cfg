SPECIFICATION Spec
CONSTANTS
  Family = "failing"
  MaxEm = 3
  EvPerEm = 2
  FixD3 = FALSE
  FixD10 = TRUE
  FixD12 = TRUE
  FixD17 = TRUE
  FixD18 = TRUE
  FixD20 = TRUE
INVARIANT C13_NoStaleHandlers
