SPECIFICATION Spec
CONSTANTS
  MaxP = 4
  MaxEv = 2
  MaxExit = 1
  ROE = {TRUE, FALSE}
  DEB = {TRUE, FALSE}
  DOS = {TRUE, FALSE}
  FixLock = TRUE
INVARIANT C18_AtMostOneChild
INVARIANT C18_RestartPerTrigger
INVARIANT C18_NothingAfterStop
INVARIANT C18_HelpersGone
INVARIANT C18_NoCrash
PROPERTY C18_NoSpawnAfterStop
CHECK_DEADLOCK FALSE
