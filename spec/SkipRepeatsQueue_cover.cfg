SPECIFICATION Spec
CONSTANTS
  Producers = {p1, p2}
  Vals = {1, 2}
  MaxPuts = 2
  MaxGets = 2
