------------------------------- MODULE Polling -------------------------------
(* C10  Polling reports exactly the diff of successive snapshots and survives races.     *)
(* Implementation-shaped model of                                                        *)
(*   watchdog.observers.polling.PollingEmitter   (on_thread_start, queue_events)         *)
(*   watchdog.utils.dirsnapshot.DirectorySnapshot (__init__, walk)                       *)
(* over a small virtual file system (what PollingObserverVFS's stat/listdir serve).      *)
(*                                                                                       *)
(* Environment: FsOp changes the tree between polls (create file/dir, delete subtree,    *)
(*   rename/move, exchange, modify mtime/size, replace dir<->file, remove the root).     *)
(* Emitter:     Start (baseline snapshot), PollTimerFires, the snapshot walk at the      *)
(*   granularity of ONE stat / listdir call (StatRoot, ListDir, StatEntry, EndStats,     *)
(*   Descend, Return), EmitDiff (events in the code's class order), RootGone, Stop.      *)
(* Faults: at every call position the call may fail with ENOENT / ENOTDIR / EACCES       *)
(*   although the entry exists (= it vanished / was replaced / became unreadable between *)
(*   the listing and the call, and is back afterwards); at most MaxFaults per behaviour. *)
(*                                                                                       *)
(* The properties compare the operational walk and the emitted events with a DECLARATIVE *)
(* description: Expected(fs, recursive, fault) = reachable entries minus what the fault  *)
(* hides, and the C09 laws (SnapshotDiff!Law...) between successive expected snapshots.  *)
EXTENDS Naturals, Sequences, FiniteSets, TLC, SequencesExt

CONSTANTS Names,        \* entry names (small integers)
          InoPool,      \* inode numbers for non-root entries (root is inode 0); freed inodes are reused
          MaxEntries,   \* non-root entries of a tree
          MaxOps,       \* file system operations per behaviour
          MaxOpsPerPoll,\* ... between two polls
          MaxPolls,     \* polls per behaviour
          MaxFaults,    \* injected faults per behaviour
          Errs,         \* subset of {"ENOENT", "ENOTDIR", "EACCES"}
          RecModes,     \* subset of BOOLEAN: watch.is_recursive
          FaultBaseline,\* BOOLEAN: faults also during the baseline walk of start()
          Deviation     \* "none" or a seeded deviation (negative configs)

SD == INSTANCE SnapshotDiff WITH NonRootPaths <- {}, Inodes <- {}, Devs <- {}, Mtimes <- {}, Sizes <- {},
                                 MaxEntries <- 0, RootRecs <- {}, Deviation <- "none",
                                 ref <- 0, snap <- 0, ign <- FALSE, phase <- "", d <- 0, rv <- 0, bad <- {}

Root == <<>>
NoPath == <<0>>
Parent(p) == SubSeq(p, 1, Len(p) - 1)
PrefixOf(p, q) == Len(p) <= Len(q) /\ SubSeq(q, 1, Len(p)) = p
AllPaths == {Root} \cup {<<n>> : n \in Names} \cup {<<n, m>> : n \in Names, m \in Names}
Empty == <<>>                                  \* the function with empty domain: nothing exists

Rec(i, k, m, s) == [ino |-> i, dev |-> 1, isdir |-> k, mtime |-> m, size |-> s]
RootRec == Rec(0, TRUE, 0, 0)
Restr(F, D) == [p \in D |-> F[p]]
Children(F, p) == {q \in DOMAIN F : Len(q) = Len(p) + 1 /\ Parent(q) = p}
Subtree(F, p) == {q \in DOMAIN F : PrefixOf(p, q)}
ListOrder(a, b) == a[Len(a)] < b[Len(b)]       \* the VFS lists a directory in name order
Listing(F, p) == SortSeq(SetToSeq(Children(F, p)), ListOrder)

(***************************************************************************************)
(* Trees                                                                               *)
(***************************************************************************************)
WellFormed(F) == /\ Root \in DOMAIN F /\ F[Root] = RootRec
                 /\ \A p \in DOMAIN F \ {Root} : Parent(p) \in DOMAIN F /\ F[Parent(p)].isdir
\* initial trees: every shape, inodes numbered in path order, mtime = size = 0
Shapes == {D \in SUBSET (AllPaths \ {Root}) : Cardinality(D) <= MaxEntries /\ \A p \in D : Len(p) > 1 => Parent(p) \in D}
Number(D) == LET s == SortSeq(SetToSeq(D), LAMBDA a, b : IF Len(a) # Len(b) THEN Len(a) < Len(b)
                                                            ELSE \E i \in 1..Len(a) : a[i] < b[i] /\ \A j \in 1..(i - 1) : a[j] = b[j])
             IN [p \in D |-> CHOOSE i \in 1..Len(s) : s[i] = p]
InitTrees == UNION {{ [p \in D \cup {Root} |-> IF p = Root THEN RootRec ELSE Rec(Number(D)[p], k[p], 0, 0)] :
                        k \in {kk \in [D -> BOOLEAN] : \A p \in D : Len(p) > 1 => kk[Parent(p)]} } : D \in Shapes}

VARIABLES fs,        \* the tree now
          rec,       \* watch.is_recursive
          epc,       \* emitter: "new" "idle" "statroot" "walk" "emit" "rootgone" "gone" "stopped" "startfailed"
          mode,      \* "baseline" | "poll": which snapshot is being taken
          prev,      \* PollingEmitter._snapshot (path -> stat record)
          cur,       \* the DirectorySnapshot under construction
          stack,     \* the generator frames of DirectorySnapshot.walk, innermost last
          out,       \* events queued by the current / last poll, in order
          nops, opsSince, polls, nfaults,
          flt,       \* ghost: the fault injected into the current / last walk ([op, path, err] or NoFault)
          before,    \* ghost: the expected snapshot before the last completed poll
          after      \* ghost: the expected snapshot as taken by the last completed walk
vars == <<fs, rec, epc, mode, prev, cur, stack, out, nops, opsSince, polls, nfaults, flt, before, after>>

NoFault == [op |-> "none", path |-> NoPath, err |-> "none"]

(***************************************************************************************)
(* Declarative expectation                                                             *)
(***************************************************************************************)
Reach(F, r) == IF r THEN F ELSE Restr(F, {p \in DOMAIN F : Len(p) <= 1})
\* a failed stat hides the entry and everything below it; a failed listdir hides everything below the directory
Hidden(F, f) == IF f.op = "stat" THEN {q \in DOMAIN F : PrefixOf(f.path, q)}
                ELSE IF f.op = "listdir" THEN {q \in DOMAIN F : PrefixOf(f.path, q) /\ q # f.path}
                ELSE {}
\* the root counts as gone when it does not exist, cannot be stat'ed, or is unreadable
RootGoneBy(F, f) == \/ Root \notin DOMAIN F
                    \/ (f.op = "stat" /\ f.path = Root)
                    \/ (f.op = "listdir" /\ f.path = Root /\ f.err = "EACCES")
Expected(F, r, f) == LET G == Reach(F, r) IN Restr(G, DOMAIN G \ Hidden(G, f))

(***************************************************************************************)
(* Environment                                                                         *)
(***************************************************************************************)
Used == {fs[p].ino : p \in DOMAIN fs}
Fresh(used) == CHOOSE i \in InoPool \ used : \A j \in InoPool \ used : i <= j
CanOp == epc = "idle" /\ nops < MaxOps /\ opsSince < MaxOpsPerPoll /\ Root \in DOMAIN fs
Count == /\ nops' = nops + 1 /\ opsSince' = opsSince + 1
         /\ UNCHANGED <<rec, epc, mode, prev, cur, stack, out, polls, nfaults, flt, before, after>>

Create(p, k) == /\ CanOp /\ p \notin DOMAIN fs /\ p # Root
                /\ Parent(p) \in DOMAIN fs /\ fs[Parent(p)].isdir
                /\ Cardinality(DOMAIN fs) <= MaxEntries /\ InoPool \ Used # {}
                /\ fs' = (p :> Rec(Fresh(Used), k, 0, 0)) @@ fs
                /\ Count
Delete(p) == /\ CanOp /\ p \in DOMAIN fs /\ p # Root
             /\ fs' = Restr(fs, DOMAIN fs \ Subtree(fs, p))
             /\ Count
Rename(p, q) == /\ CanOp /\ p \in DOMAIN fs /\ p # Root /\ q \notin DOMAIN fs /\ q # Root /\ ~PrefixOf(p, q)
                /\ Parent(q) \in DOMAIN fs /\ fs[Parent(q)].isdir
                /\ \A x \in Subtree(fs, p) : Len(q) + Len(x) - Len(p) <= 2
                /\ LET sub == Subtree(fs, p)
                       keep == DOMAIN fs \ sub
                       To(x) == q \o SubSeq(x, Len(p) + 1, Len(x))
                       From(y) == p \o SubSeq(y, Len(q) + 1, Len(y))
                   IN fs' = [y \in keep \cup {To(x) : x \in sub} |-> IF y \in keep THEN fs[y] ELSE fs[From(y)]]
                /\ Count
\* renameat2(RENAME_EXCHANGE) of two childless entries
Exchange(p, q) == /\ CanOp /\ p \in DOMAIN fs /\ q \in DOMAIN fs /\ p # Root /\ q # Root /\ p # q
                  /\ Subtree(fs, p) = {p} /\ Subtree(fs, q) = {q}
                  /\ fs' = [fs EXCEPT ![p] = fs[q], ![q] = fs[p]]
                  /\ Count
ModifyM(p) == /\ CanOp /\ p \in DOMAIN fs /\ p # Root
              /\ fs' = [fs EXCEPT ![p].mtime = 1 - @] /\ Count
ModifyS(p) == /\ CanOp /\ p \in DOMAIN fs /\ p # Root
              /\ fs' = [fs EXCEPT ![p].size = 1 - @] /\ Count
\* a directory (with what is below it) is replaced by a file of the same name, or a file by a directory
Replace(p) == /\ CanOp /\ p \in DOMAIN fs /\ p # Root
              /\ LET rest == Restr(fs, DOMAIN fs \ Subtree(fs, p))
                     used == {rest[x].ino : x \in DOMAIN rest}
                 IN fs' = (p :> Rec(Fresh(used), ~fs[p].isdir, 0, 0)) @@ rest
              /\ Count
RemoveRoot == /\ CanOp /\ fs' = Empty /\ Count

FsOp == \/ \E p \in AllPaths : \/ \E k \in BOOLEAN : Create(p, k)
                               \/ Delete(p) \/ ModifyM(p) \/ ModifyS(p) \/ Replace(p)
                               \/ \E q \in AllPaths : Rename(p, q) \/ Exchange(p, q)
        \/ RemoveRoot

(***************************************************************************************)
(* The snapshot walk: DirectorySnapshot.__init__ + walk()                              *)
(***************************************************************************************)
\* outcomes of one call: "ok" or an errno; a fault needs budget and (during start()) permission
Outcomes == {"ok"} \cup (IF nfaults < MaxFaults /\ flt = NoFault /\ (mode = "poll" \/ FaultBaseline) THEN Errs ELSE {})
Inject(op, p, e) == /\ flt' = [op |-> op, path |-> p, err |-> e] /\ nfaults' = nfaults + 1
NoInject == UNCHANGED <<flt, nfaults>>
Frame(dir) == [dir |-> dir, st |-> "listdir", paths |-> <<>>, i |-> 1, entries |-> <<>>]
Top == stack[Len(stack)]
SetTop(f) == [stack EXCEPT ![Len(stack)] = f]
Pop == SubSeq(stack, 1, Len(stack) - 1)
\* the snapshot constructor raised (OSError): queue_events -> RootGone; on_thread_start -> the exception escapes start()
Raise == /\ epc' = IF mode = "poll" THEN "rootgone" ELSE "startfailed"
         /\ stack' = <<>>
WalkUnch == UNCHANGED <<fs, rec, mode, prev, out, nops, opsSince, polls, before, after>>

\* st = self.stat(path)   (l.309)
StatRoot ==
    /\ epc = "statroot"
    /\ IF Root \notin DOMAIN fs
       THEN Raise /\ NoInject /\ UNCHANGED cur                    \* really gone: ENOENT
       ELSE \E o \in Outcomes :
              IF o = "ok"
              THEN /\ cur' = (Root :> fs[Root]) /\ stack' = <<Frame(Root)>> /\ epc' = "walk" /\ NoInject
              ELSE /\ Inject("stat", Root, o) /\ Raise /\ UNCHANGED cur
    /\ WalkUnch

\* paths = [join(root, e.name) for e in self.listdir(root)]   (l.319-329)
ListDir ==
    /\ epc = "walk" /\ stack # <<>> /\ Top.st = "listdir"
    /\ \E o \in Outcomes :
         IF o = "ok"
         THEN /\ stack' = SetTop([Top EXCEPT !.st = "stat", !.paths = Listing(fs, Top.dir)])
              /\ NoInject /\ UNCHANGED epc
         ELSE /\ Inject("listdir", Top.dir, o)
              /\ IF o \in {"ENOENT", "ENOTDIR"} /\ Deviation # "reraise"
                 THEN stack' = Pop /\ UNCHANGED epc                \* treated as empty: return
                 ELSE IF Len(stack) > 1 /\ o = "EACCES"
                      THEN stack' = Pop /\ UNCHANGED epc           \* PermissionError suppressed by the caller's frame
                      ELSE Raise                                   \* escapes the constructor
    /\ UNCHANGED cur /\ WalkUnch

\* with suppress(OSError): entry = (p, self.stat(p)); entries.append(entry); yield entry   (l.332-336)
StatEntry ==
    /\ epc = "walk" /\ stack # <<>> /\ Top.st = "stat" /\ Top.i <= Len(Top.paths)
    /\ LET p == Top.paths[Top.i] IN
       \E o \in Outcomes :
         IF o = "ok"
         THEN /\ cur' = (p :> fs[p]) @@ cur
              /\ stack' = SetTop([Top EXCEPT !.i = @ + 1, !.entries = Append(@, p)])
              /\ NoInject /\ UNCHANGED epc
         ELSE /\ Inject("stat", p, o)
              /\ IF Deviation = "nosuppress"
                 THEN Raise /\ UNCHANGED cur
                 ELSE stack' = SetTop([Top EXCEPT !.i = @ + 1]) /\ UNCHANGED <<cur, epc>>
    /\ WalkUnch

\* if self.recursive: ...   (l.338)
EndStats ==
    /\ epc = "walk" /\ stack # <<>> /\ Top.st = "stat" /\ Top.i > Len(Top.paths)
    /\ stack' = IF rec \/ Deviation = "descend" THEN SetTop([Top EXCEPT !.st = "descend", !.i = 1]) ELSE Pop
    /\ UNCHANGED <<cur, epc, flt, nfaults>> /\ WalkUnch

\* for path, st in entries: if S_ISDIR(st.st_mode): yield from self.walk(path)   (l.339-342)
Descend ==
    /\ epc = "walk" /\ stack # <<>> /\ Top.st = "descend" /\ Top.i <= Len(Top.entries)
    /\ LET p == Top.entries[Top.i]
           up == SetTop([Top EXCEPT !.i = @ + 1])
       IN stack' = IF cur[p].isdir THEN Append(up, Frame(p)) ELSE up
    /\ UNCHANGED <<cur, epc, flt, nfaults>> /\ WalkUnch

Return ==
    /\ epc = "walk" /\ stack # <<>> /\ Top.st = "descend" /\ Top.i > Len(Top.entries)
    /\ stack' = Pop
    /\ UNCHANGED <<cur, epc, flt, nfaults>> /\ WalkUnch

(***************************************************************************************)
(* The emitter                                                                         *)
(***************************************************************************************)
Ev(c, s, t) == [cls |-> c, src |-> s, dst |-> t]
Singles(c, S) == LET q == SetToSeq(S) IN [i \in 1..Len(q) |-> Ev(c, q[i], NoPath)]
Doubles(c, S) == LET q == SetToSeq(S) IN [i \in 1..Len(q) |-> Ev(c, q[i][1], q[i][2])]
\* queue_events l.96-114: the class order of the code
EventsOf(D) ==
    IF Deviation = "createfirst"
    THEN Singles("FileCreated", D.fc) \o Singles("FileModified", D.fm) \o Singles("FileDeleted", D.fd)
         \o Doubles("FileMoved", D.fv) \o Singles("DirDeleted", D.dd) \o Singles("DirModified", D.dm)
         \o Singles("DirCreated", D.dc) \o Doubles("DirMoved", D.dv)
    ELSE Singles("FileDeleted", D.fd) \o Singles("FileModified", D.fm) \o Singles("FileCreated", D.fc)
         \o Doubles("FileMoved", D.fv) \o Singles("DirDeleted", D.dd) \o Singles("DirModified", D.dm)
         \o Singles("DirCreated", D.dc) \o Doubles("DirMoved", D.dv)

\* BaseThread.start(): on_thread_start() takes the baseline in the caller's thread
Start == /\ epc = "new" /\ epc' = "statroot" /\ mode' = "baseline"
         /\ cur' = Empty /\ stack' = <<>> /\ flt' = NoFault
         /\ UNCHANGED <<fs, rec, prev, out, nops, opsSince, polls, nfaults, before, after>>

\* stopped_event.wait(timeout) timed out; should_keep_running(); self._take_snapshot() begins
PollTimerFires ==
    /\ epc = "idle" /\ polls < MaxPolls
    /\ epc' = "statroot" /\ mode' = "poll" /\ cur' = Empty /\ stack' = <<>> /\ out' = <<>> /\ flt' = NoFault
    /\ UNCHANGED <<fs, rec, prev, nops, opsSince, polls, nfaults, before, after>>

\* the walk is complete
TakeSnapshot ==
    /\ epc = "walk" /\ stack = <<>>
    /\ IF mode = "baseline"
       THEN /\ prev' = cur /\ epc' = "idle" /\ after' = Expected(fs, rec, flt) /\ before' = after
            /\ UNCHANGED <<out, polls, opsSince>>
       ELSE /\ epc' = "emit" /\ UNCHANGED <<prev, out, polls, opsSince, before, after>>
    /\ UNCHANGED <<fs, rec, mode, cur, stack, nops, nfaults, flt>>

\* events = DirectorySnapshotDiff(self._snapshot, new_snapshot); self._snapshot = new_snapshot; queue the events
EmitDiff ==
    /\ epc = "emit"
    /\ out' = EventsOf(SD!Diff(prev, cur, FALSE))
    /\ prev' = cur /\ epc' = "idle" /\ polls' = polls + 1 /\ opsSince' = 0
    /\ before' = after /\ after' = Expected(fs, rec, flt)
    /\ UNCHANGED <<fs, rec, mode, cur, stack, nops, nfaults, flt>>

\* except OSError: self.queue_event(DirDeletedEvent(self.watch.path)); self.stop(); return
RootGone ==
    /\ epc = "rootgone"
    /\ out' = <<Ev("DirDeleted", Root, NoPath)>>
    /\ epc' = "gone" /\ polls' = polls + 1
    /\ UNCHANGED <<fs, rec, mode, prev, cur, stack, nops, opsSince, nfaults, flt, before, after>>

\* observer.stop() / unschedule(): the emitter thread leaves its loop at the next wait
Stop == /\ epc = "idle" /\ polls = MaxPolls /\ epc' = "stopped"
        /\ UNCHANGED <<fs, rec, mode, prev, cur, stack, out, nops, opsSince, polls, nfaults, flt, before, after>>

Init == /\ fs \in InitTrees /\ rec \in RecModes
        /\ epc = "new" /\ mode = "baseline" /\ prev = Empty /\ cur = Empty /\ stack = <<>> /\ out = <<>>
        /\ nops = 0 /\ opsSince = 0 /\ polls = 0 /\ nfaults = 0
        /\ flt = NoFault /\ before = Empty /\ after = Empty

Walk == StatRoot \/ ListDir \/ StatEntry \/ EndStats \/ Descend \/ Return \/ TakeSnapshot
Next == FsOp \/ Start \/ PollTimerFires \/ Walk \/ EmitDiff \/ RootGone \/ Stop
Spec == Init /\ [][Next]_vars

(***************************************************************************************)
(* Properties                                                                          *)
(***************************************************************************************)
Classes == {"FileDeleted", "FileModified", "FileCreated", "FileMoved", "DirDeleted", "DirModified", "DirCreated", "DirMoved"}
Of(evs, c) == {evs[i].src : i \in {j \in 1..Len(evs) : evs[j].cls = c}}
Of2(evs, c) == {<<evs[i].src, evs[i].dst>> : i \in {j \in 1..Len(evs) : evs[j].cls = c}}
\* the eight lists an event sequence denotes
ListsOf(evs) == [fc |-> Of(evs, "FileCreated"), fd |-> Of(evs, "FileDeleted"), fm |-> Of(evs, "FileModified"),
                 fv |-> Of2(evs, "FileMoved"), dc |-> Of(evs, "DirCreated"), dd |-> Of(evs, "DirDeleted"),
                 dm |-> Of(evs, "DirModified"), dv |-> Of2(evs, "DirMoved")]
OneEach(evs) == \A i, j \in 1..Len(evs) : evs[i] = evs[j] => i = j
\* exactly one event per entry of the difference between A and B, of the right class, with the right path(s):
\* the lists the events denote obey every C09 law for (A, B)
EventsAreDiff(evs, A, B) ==
    /\ \A i \in 1..Len(evs) : evs[i].cls \in Classes
    /\ OneEach(evs)
    /\ LET D == ListsOf(evs) IN
       /\ SD!LawConsistent(A, B, FALSE, D) /\ SD!LawPartition(A, B, FALSE, D) /\ SD!LawMoved(A, B, FALSE, D)
       /\ SD!LawCreated(A, B, FALSE, D) /\ SD!LawDeleted(A, B, FALSE, D) /\ SD!LawModified(A, B, FALSE, D)
       /\ SD!LawKinds(A, B, FALSE, D)
DelBeforeCre(evs) ==
    \A i, j \in 1..Len(evs) : i < j =>
        /\ ~(evs[i].cls = "FileCreated" /\ evs[j].cls = "FileDeleted")
        /\ ~(evs[i].cls = "DirCreated" /\ evs[j].cls = "DirDeleted")

Polled == epc = "idle" /\ polls > 0 /\ mode = "poll"          \* a poll has just been completed normally

C10_EventsEqualDiff          == Polled => EventsAreDiff(out, before, after)
C10_DeletionsBeforeCreations == DelBeforeCre(out)
C10_NothingWhenUnchanged     == (Polled /\ before = after) => out = <<>>
\* the snapshot the emitter keeps is the expected one: without a fault exactly the reachable entries with their stat data
C10_SnapshotIsReachableSet   == (epc = "idle" /\ opsSince = 0 /\ flt = NoFault) => prev = Reach(fs, rec) /\ prev = after
\* with a fault: the reachable entries minus what the fault hides; never an escaping exception unless the root is gone
C10_FaultMeansAbsent         == /\ (epc = "idle" /\ opsSince = 0 /\ flt # NoFault) => prev = Expected(fs, rec, flt) /\ prev = after
                                /\ (epc \in {"rootgone", "startfailed"} => RootGoneBy(fs, flt))
                                /\ (epc = "emit" => ~RootGoneBy(fs, flt))
\* root gone: exactly one DirDeleted(root) and the emitter stops
C10_RootGone                 == epc = "gone" => out = <<Ev("DirDeleted", Root, NoPath)>>
\* ... nothing happens in the emitter after it stopped
StoppedStays                 == (epc \in {"stopped", "gone"}) => (epc' = epc /\ out' = out /\ prev' = prev)
C10_StoppedIsFinal           == [][StoppedStays]_vars

TypeOK == /\ epc \in {"new", "idle", "statroot", "walk", "emit", "rootgone", "gone", "stopped", "startfailed"}
          /\ (Root \in DOMAIN fs => WellFormed(fs)) /\ (Root \notin DOMAIN fs => fs = Empty)
          /\ \A p, q \in DOMAIN fs : p # q => fs[p].ino # fs[q].ino

\* the number of initial trees, printed once: checks/c10.py compares it with its own enumeration
ASSUME PrintT(<<"C10INIT", Cardinality(InitTrees)>>)

\* reachability probes (not used by a config; kept for manual runs: each is violated = reachable)
CoverMoved    == ~(Polled /\ \E i \in 1..Len(out) : out[i].cls \in {"FileMoved", "DirMoved"})
CoverFaulted  == ~(Polled /\ flt # NoFault /\ out # <<>>)
CoverRootGone == ~(epc = "gone" /\ Root \in DOMAIN fs)
CoverEacces   == ~(Polled /\ flt.err = "EACCES" /\ flt.op = "listdir" /\ flt.path # Root /\ out # <<>>)
CoverBoth     == ~(Polled /\ \E i, j \in 1..Len(out) : out[i].cls = "FileDeleted" /\ out[j].cls = "FileCreated")
=============================================================================
