SPECIFICATION Spec
CONSTANTS
  MaxP = 4
  MaxEv = 2
  MaxExit = 1
  ROE = {TRUE, FALSE}
  DEB = {TRUE, FALSE}
  DOS = {TRUE, FALSE}
  FixLock = FALSE
INVARIANT C18_NoCrash
CHECK_DEADLOCK FALSE
