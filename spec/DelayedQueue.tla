---------------------------- MODULE DelayedQueue ----------------------------
(* Implementation-shaped model of watchdog.utils.delayed_queue.DelayedQueue (C17).      *)
(* One consumer looping in get(); one "other" thread O running a program of              *)
(* put(delay?) / remove(elem) / close; a virtual clock.                                  *)
(* get():   acquire; while empty and not closed: wait; if closed: return None;           *)
(*          head := queue[0]; release;   -- then WITHOUT the lock --                     *)
(*          if delayed: sleep until insert_time + delay;                                 *)
(*          with lock: if queue[0] is head: pop, return head   else start over.          *)
(* close(): _closed := True WITHOUT the lock, then acquire / notify / release.           *)
EXTENDS Naturals, Sequences, FiniteSets, TLC

CONSTANTS Delay,      \* pairing delay (2)
          MaxOps,     \* length of O's program
          MaxTime,    \* clock bound
          Gaps        \* tick sizes, e.g. {1,2,3} = {Delay-1, Delay, Delay+1}

None == [e |-> 0, t |-> 0, d |-> FALSE]

VARIABLES dq,        \* Seq([e, t, d]) : element id, insert time, delayed?
          closed,    \* _closed
          now,
          pc,        \* consumer: "start","chk2","waiting","peeked","sleeping","recheck","done"
          head,      \* consumer's local `head`
          wake,      \* consumer's sleep deadline
          lockC,     \* TRUE while the consumer holds the lock (between `while` test and `if self._closed`)
          notified,  \* a notify reached the waiting consumer
          opc,       \* O: "idle" | "closing" (flag written, notify pending)
          nops, nextE,
          closeDone,
          out,       \* history: [e, at] handed out by get (e = 0: end marker)
          removed,   \* history: elements handed out by remove
          puts       \* history: [e, t, d] of every put
vars == <<dq, closed, now, pc, head, wake, lockC, notified, opc, nops, nextE, closeDone, out, removed, puts>>

Init == /\ dq = <<>> /\ closed = FALSE /\ now = 0 /\ pc = "start" /\ head = None /\ wake = 0
        /\ lockC = FALSE /\ notified = FALSE /\ opc = "idle" /\ nops = 0 /\ nextE = 1
        /\ closeDone = FALSE /\ out = <<>> /\ removed = {} /\ puts = {}

\* ---- consumer
\* acquire + the `while len(q) == 0 and not closed` test (reads _closed only if the queue is empty)
C_While == /\ pc = "start" /\ ~lockC
           /\ IF dq = <<>> /\ ~closed
              THEN pc' = "waiting" /\ notified' = FALSE /\ UNCHANGED lockC   \* wait(): lock released
              ELSE pc' = "chk2" /\ lockC' = TRUE /\ UNCHANGED notified
           /\ UNCHANGED <<dq, closed, now, head, wake, opc, nops, nextE, closeDone, out, removed, puts>>
\* `if self._closed: release; return None` else `head = queue[0]; release`
C_Chk2 == /\ pc = "chk2"
          /\ lockC' = FALSE
          /\ IF closed THEN pc' = "done" /\ out' = Append(out, [e |-> 0, at |-> now]) /\ UNCHANGED head
             ELSE IF dq = <<>> THEN pc' = "crash" /\ UNCHANGED <<out, head>>   \* IndexError: cannot happen (invariant)
             ELSE pc' = "peeked" /\ head' = dq[1] /\ UNCHANGED out
          /\ UNCHANGED <<dq, closed, now, wake, notified, opc, nops, nextE, closeDone, removed, puts>>
C_Wake == /\ pc = "waiting" /\ notified /\ pc' = "start"
          /\ UNCHANGED <<dq, closed, now, head, wake, lockC, notified, opc, nops, nextE, closeDone, out, removed, puts>>
\* no lock held: decide whether to sleep
C_Delay == /\ pc = "peeked"
           /\ IF head.d /\ head.t + Delay > now
              THEN pc' = "sleeping" /\ wake' = head.t + Delay
              ELSE pc' = "recheck" /\ UNCHANGED wake
           /\ UNCHANGED <<dq, closed, now, head, lockC, notified, opc, nops, nextE, closeDone, out, removed, puts>>
C_SleepDone == /\ pc = "sleeping" /\ now >= wake /\ pc' = "peeked"
               /\ UNCHANGED <<dq, closed, now, head, wake, lockC, notified, opc, nops, nextE, closeDone, out, removed, puts>>
\* `with self._lock: if len(q) > 0 and q[0][0] is head: popleft; return head`
C_Recheck == /\ pc = "recheck" /\ ~lockC
             /\ IF dq # <<>> /\ dq[1].e = head.e
                THEN dq' = Tail(dq) /\ out' = Append(out, [e |-> head.e, at |-> now])
                ELSE UNCHANGED <<dq, out>>
             /\ pc' = "start"
             /\ UNCHANGED <<closed, now, head, wake, lockC, notified, opc, nops, nextE, closeDone, removed, puts>>

\* ---- the other thread
CanOp == opc = "idle" /\ nops < MaxOps /\ ~lockC
Put(d) == /\ CanOp /\ (d => now + Delay <= MaxTime)   \* (model bound: a delayed element can still expire)
          /\ dq' = Append(dq, [e |-> nextE, t |-> now, d |-> d])
          /\ puts' = puts \cup {[e |-> nextE, t |-> now, d |-> d]}
          /\ nextE' = nextE + 1 /\ nops' = nops + 1
          /\ notified' = (IF pc = "waiting" THEN TRUE ELSE notified)
          /\ UNCHANGED <<closed, now, pc, head, wake, lockC, opc, closeDone, out, removed>>
RemoveAt(s, i) == SubSeq(s, 1, i - 1) \o SubSeq(s, i + 1, Len(s))
Remove(k) == /\ CanOp /\ k \in 1..(nextE - 1)
             /\ nops' = nops + 1
             /\ LET idx == {i \in 1..Len(dq) : dq[i].e = k} IN
                IF idx = {} THEN UNCHANGED <<dq, removed>>
                ELSE LET i == CHOOSE i \in idx : \A j \in idx : i <= j IN
                     dq' = RemoveAt(dq, i) /\ removed' = removed \cup {k}
             /\ UNCHANGED <<closed, now, pc, head, wake, lockC, notified, opc, nextE, closeDone, out, puts>>
\* close(): the flag is written without the lock ...
CloseFlag == /\ opc = "idle" /\ nops < MaxOps /\ ~closeDone
             /\ closed' = TRUE /\ opc' = "closing" /\ nops' = nops + 1
             /\ UNCHANGED <<dq, now, pc, head, wake, lockC, notified, nextE, closeDone, out, removed, puts>>
\* ... then acquire / notify / release
CloseNotify == /\ opc = "closing" /\ ~lockC
               /\ opc' = "idle" /\ closeDone' = TRUE
               /\ notified' = (IF pc = "waiting" THEN TRUE ELSE notified)
               /\ UNCHANGED <<dq, closed, now, pc, head, wake, lockC, nops, nextE, out, removed, puts>>

Tick(g) == /\ now + g <= MaxTime /\ now' = now + g
           /\ UNCHANGED <<dq, closed, pc, head, wake, lockC, notified, opc, nops, nextE, closeDone, out, removed, puts>>

Consumer == C_While \/ C_Chk2 \/ C_Wake \/ C_Delay \/ C_SleepDone \/ C_Recheck
Other == (\E d \in BOOLEAN : Put(d)) \/ (\E k \in 1..MaxOps : Remove(k)) \/ CloseFlag \/ CloseNotify
Finished == pc = "done" /\ opc = "idle" /\ UNCHANGED vars
Next == Consumer \/ Other \/ (\E g \in Gaps : Tick(g)) \/ Finished

Spec == Init /\ [][Next]_vars
FairSpec == Spec /\ WF_vars(Consumer) /\ WF_vars(CloseNotify) /\ WF_vars(Tick(1))

\* ---- properties (C17)
OutElems == {out[i].e : i \in 1..Len(out)} \ {0}
PutOf(k) == CHOOSE p \in puts : p.e = k

NoCrash == pc # "crash"
\* FIFO: elements leave through get() in the order they were put in (ids are issued in put order)
C17_FIFO == \A i, j \in 1..Len(out) : (i < j /\ out[i].e # 0 /\ out[j].e # 0) => out[i].e < out[j].e
\* a delayed element never leaves before its delay has elapsed since insertion
C17_NeverEarly == \A i \in 1..Len(out) : out[i].e # 0 =>
                     LET p == PutOf(out[i].e) IN p.d => out[i].at >= p.t + Delay
\* handed out at most once, by get() or by remove(), never by both
C17_AtMostOnce == /\ \A i, j \in 1..Len(out) : (i # j /\ out[i].e # 0) => out[i].e # out[j].e
                  /\ OutElems \cap removed = {}
\* nothing is lost: every element is still queued, or was handed out (close may discard what is left)
C17_NothingLost == \A p \in puts : \/ \E i \in 1..Len(dq) : dq[i].e = p.e
                                   \/ p.e \in OutElems \/ p.e \in removed
\* an element removed while the consumer was already waiting on it is not returned to the consumer
C17_RemovedNotReturned == [][\A k \in removed' \ removed : k \notin OutElems']_vars
\* the consumer only ever sleeps on a delayed head, and never beyond that head's deadline
C17_SleepOnlyOnDelayedHead == pc = "sleeping" => (head.d /\ wake = head.t + Delay)
\* the end marker is produced only after close() was called
C17_EndMarkerOnlyWhenClosed == \A i \in 1..Len(out) : out[i].e = 0 => closed
\* close() unblocks: once close() has completed, the consumer finishes
C17_CloseUnblocks == closeDone ~> (pc = "done")
=============================================================================
