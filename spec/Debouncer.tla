------------------------------ MODULE Debouncer ------------------------------
(* Implementation-shaped model of watchdog.utils.event_debouncer.EventDebouncer (C18).   *)
(*                                                                                       *)
(*   handle_event(e):  with cond: _events.append(e); cond.notify()                       *)
(*   stop():           with cond: stopped_event.set(); cond.notify()                     *)
(*   run():  with cond:                                                                  *)
(*             while True:                                                               *)
(*               cond.wait()                                  -- UNCONDITIONAL (D8)      *)
(*               if interval:                                                            *)
(*                 while should_keep_running():                                          *)
(*                   if not cond.wait(timeout=interval): break                           *)
(*               if not should_keep_running(): break                                     *)
(*               events = _events; _events = []; callback(events)   -- lock still held   *)
(*                                                                                       *)
(* The condition variable has an explicit waiter set: notify() with no waiter is LOST,   *)
(* exactly as in `threading`.  handle_event and stop are single critical sections (one   *)
(* action each); run() is one action per statement between two releases of the lock.     *)
(* FixD8 = TRUE replaces the unconditional wait by the predicate loop                    *)
(*     while not self._events and self.should_keep_running(): self._cond.wait()          *)
(* (proposed_fixes/D8_debouncer_predicate_wait.diff); FixD8 = FALSE is the code as it is. *)
(*                                                                                       *)
(* Time is the virtual clock of the scheduler: it advances only while the debouncer      *)
(* thread is blocked (or inside the user's callback), and never past a pending deadline. *)
EXTENDS Naturals, Integers, Sequences, FiniteSets, TLC

CONSTANTS Intervals,  \* debounce intervals tried, e.g. {0, 2}
          MaxEv,      \* number of events handed in
          MaxTime,    \* clock bound
          Gaps,       \* tick sizes, e.g. {1, 2, 3} = {interval-1, interval, interval+1}
          FixD8

T == "deb"   \* the debouncer thread

VARIABLES iv,         \* debounce_interval_seconds
          events,     \* _events (ids)
          stopped,    \* stopped_event
          waiters,    \* threads blocked in cond.wait() and not yet notified
          notified,   \* waiters whose token was set by a notify
          pc,         \* run(): "start","top","w1","deb","tw","twre","chk","swap","cb","done"
          deadline,   \* of the timed wait
          now,
          nextE,
          arr,        \* history: arrival time of event k
          delivered   \* history: callback invocations [evs |-> ids, at |-> time]
vars == <<iv, events, stopped, waiters, notified, pc, deadline, now, nextE, arr, delivered>>

\* the debouncer thread holds the condition's lock in these states
LockT == pc \in {"top", "deb", "chk", "swap", "cb"}

Init == /\ iv \in Intervals /\ events = <<>> /\ stopped = FALSE /\ waiters = {} /\ notified = {}
        /\ pc = "start" /\ deadline = 0 /\ now = 0 /\ nextE = 1 /\ arr = <<>> /\ delivered = <<>>

\* notify(): wake one waiter if there is one, else nothing happens
Notify == IF waiters # {} THEN /\ notified' = notified \cup waiters /\ waiters' = {}
                          ELSE UNCHANGED <<waiters, notified>>

\* ---- API threads (each call is one critical section)
HandleEvent == /\ ~LockT /\ nextE <= MaxEv
               /\ events' = Append(events, nextE) /\ arr' = Append(arr, now) /\ nextE' = nextE + 1
               /\ Notify
               /\ UNCHANGED <<iv, stopped, pc, deadline, now, delivered>>
Stop == /\ ~LockT /\ ~stopped
        /\ stopped' = TRUE /\ Notify
        /\ UNCHANGED <<iv, events, pc, deadline, now, nextE, arr, delivered>>

\* ---- run()
T_Start == /\ pc = "start" /\ pc' = "top"                                   \* `with self._cond:`
           /\ UNCHANGED <<iv, events, stopped, waiters, notified, deadline, now, nextE, arr, delivered>>
\* top of `while True`: the first wait
T_Top == /\ pc = "top"
         /\ IF FixD8 /\ ~(events = <<>> /\ ~stopped)
            THEN pc' = "deb" /\ UNCHANGED waiters
            ELSE pc' = "w1" /\ waiters' = waiters \cup {T}                   \* wait(): lock released
         /\ UNCHANGED <<iv, events, stopped, notified, deadline, now, nextE, arr, delivered>>
T_Wake1 == /\ pc = "w1" /\ T \in notified
           /\ notified' = notified \ {T}
           /\ pc' = IF FixD8 THEN "top" ELSE "deb"
           /\ UNCHANGED <<iv, events, stopped, waiters, deadline, now, nextE, arr, delivered>>
\* `if interval: while should_keep_running(): if not wait(timeout): break`
T_Deb == /\ pc = "deb"
         /\ IF iv > 0 /\ ~stopped
            THEN pc' = "tw" /\ waiters' = waiters \cup {T} /\ deadline' = now + iv
            ELSE pc' = "chk" /\ UNCHANGED <<waiters, deadline>>
         /\ UNCHANGED <<iv, events, stopped, notified, now, nextE, arr, delivered>>
T_TwNotified == /\ pc = "tw" /\ T \in notified
                /\ notified' = notified \ {T} /\ pc' = "deb"
                /\ UNCHANGED <<iv, events, stopped, waiters, deadline, now, nextE, arr, delivered>>
\* the timeout fires: the thread leaves the waiter set WITHOUT the lock, then re-acquires it
T_TwTimeout == /\ pc = "tw" /\ T \notin notified /\ now >= deadline
               /\ waiters' = waiters \ {T} /\ pc' = "twre"
               /\ UNCHANGED <<iv, events, stopped, notified, deadline, now, nextE, arr, delivered>>
T_TwReacq == /\ pc = "twre" /\ pc' = "chk"
             /\ UNCHANGED <<iv, events, stopped, waiters, notified, deadline, now, nextE, arr, delivered>>
T_Chk == /\ pc = "chk"
         /\ pc' = IF stopped THEN "done" ELSE "swap"
         /\ UNCHANGED <<iv, events, stopped, waiters, notified, deadline, now, nextE, arr, delivered>>
T_Swap == /\ pc = "swap"
          /\ delivered' = Append(delivered, [evs |-> events, at |-> now])
          /\ events' = <<>> /\ pc' = "cb"
          /\ UNCHANGED <<iv, stopped, waiters, notified, deadline, now, nextE, arr>>
T_CbRet == /\ pc = "cb" /\ pc' = "top"
           /\ UNCHANGED <<iv, events, stopped, waiters, notified, deadline, now, nextE, arr, delivered>>

Thread == T_Start \/ T_Top \/ T_Wake1 \/ T_Deb \/ T_TwNotified \/ T_TwTimeout \/ T_TwReacq \/ T_Chk \/ T_Swap \/ T_CbRet

\* the debouncer thread could take a step right now (the callback may take time, so "cb" is not urgent)
ThreadUrgent == \/ pc \in {"start", "top", "deb", "twre", "chk", "swap"}
                \/ (pc = "w1" /\ T \in notified)
                \/ (pc = "tw" /\ (T \in notified \/ now >= deadline))
Tick(g) == /\ ~ThreadUrgent /\ now + g <= MaxTime
           /\ (pc = "tw" => now + g <= deadline)
           /\ now' = now + g
           /\ UNCHANGED <<iv, events, stopped, waiters, notified, pc, deadline, nextE, arr, delivered>>

Next == Thread \/ HandleEvent \/ Stop \/ (\E g \in Gaps : Tick(g))
Spec == Init /\ [][Next]_vars
FairSpec == Spec /\ WF_vars(Thread)

\* ---- properties (C18, debouncer part)
RECURSIVE Flat(_)
Flat(s) == IF s = <<>> THEN <<>> ELSE Head(s).evs \o Flat(Tail(s))

\* every event handed in is passed on exactly once, in arrival order: the batches, concatenated, followed by
\* what is still pending, are exactly the events handed in (ids are issued in arrival order)
C18_ExactlyOnceInOrderBatched == Flat(delivered) \o events = [k \in 1..(nextE - 1) |-> k]
C18_NoEmptyBatch == \A i \in 1..Len(delivered) : delivered[i].evs # <<>>
\* nothing is delivered once stop() has run (events pending at stop() are discarded)
C18_NoDeliveryAfterStop == [][stopped => delivered' = delivered]_vars
\* delivered once no further event has arrived for the interval, (a) not later: while not stopped, an event is never
\* still pending when the clock has passed (arrival of the last event + interval) ...
C18_DeliveredWhenQuiet == (~stopped /\ events # <<>>) => now <= arr[Len(arr)] + iv
\* ... (b) not earlier: a batch contains an event that is `interval` old, and none that arrived strictly inside the
\* last `interval` (an event arriving at the very instant of the time-out may ride along)
C18_NotEarly == \A i \in 1..Len(delivered) :
                  LET b == delivered[i] IN
                  (iv > 0 /\ b.evs # <<>>) =>
                     /\ \E j \in 1..Len(b.evs) : arr[b.evs[j]] + iv <= b.at
                     /\ \A j \in 1..Len(b.evs) : arr[b.evs[j]] + iv <= b.at \/ arr[b.evs[j]] = b.at
\* the thread always exits on stop()
C18_ThreadExits == stopped ~> (pc = "done")
=============================================================================
