SPECIFICATION FairSpec
CONSTANTS
  Delay = 2
  MaxOps = 3
  MaxTime = 5
  Gaps = {1, 2, 3}
PROPERTY C17_CloseUnblocks
CHECK_DEADLOCK FALSE
