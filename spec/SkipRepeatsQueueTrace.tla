----------------------- MODULE SkipRepeatsQueueTrace -----------------------
(* Level-P trace specification for C16 (DESIGN §3, §6.3, A.4).                           *)
(* Consumes only black-box events recorded from the real SkipRepeatsQueue:               *)
(*    call/ret of put(item) and get(block) with the item identity and value.             *)
(* The internal linearization points (LinPut, LinGet) are not logged: TLC places them.   *)
(* The object below is the most permissive one that still satisfies C16: a put either    *)
(* appends, or is dropped iff its value equals the value of the *current tail* of the    *)
(* queue (the item enqueued immediately before it, still waiting); a get pops the head.  *)
(* A trace TLC cannot consume to its end has no explanation => VIOLATION.                *)
(* "eqlaw" lines carry the event equality/hash law of C16 as a monitor.                  *)
EXTENDS TraceUtil

VARIABLES tid, l, q, pend, viol
vars == <<tid, l, q, pend, viol>>

Tr == AllTraces[tid]
AllThreads == UNION {{AllTraces[i][j].t : j \in 1..Len(AllTraces[i])} : i \in 1..NTraces}
Idle == [k |-> "idle"]

ASSUME InitRegs

Init == /\ tid \in 1..NTraces /\ l = 1 /\ q = <<>> /\ viol = {}
        /\ pend = [t \in AllThreads |-> Idle]

Ev(k, op) == l <= Len(Tr) /\ Tr[l].e = k /\ Tr[l].op = op /\ l' = l + 1 /\ UNCHANGED tid

CallPut == /\ Ev("call", "put") /\ pend[Tr[l].t] = Idle
           /\ pend' = [pend EXCEPT ![Tr[l].t] = [k |-> "put", id |-> Tr[l].id, v |-> Tr[l].v, done |-> FALSE]]
           /\ UNCHANGED <<q, viol>>
RetPut  == /\ Ev("ret", "put") /\ pend[Tr[l].t].k = "put" /\ pend[Tr[l].t].done
           /\ pend' = [pend EXCEPT ![Tr[l].t] = Idle] /\ UNCHANGED <<q, viol>>
CallGet == /\ Ev("call", "get") /\ pend[Tr[l].t] = Idle
           /\ pend' = [pend EXCEPT ![Tr[l].t] = [k |-> "get", block |-> Tr[l].block, done |-> FALSE, res |-> 0]]
           /\ UNCHANGED <<q, viol>>
\* res = identity of the item obtained, 0 for queue.Empty
RetGet  == /\ Ev("ret", "get") /\ pend[Tr[l].t].k = "get" /\ pend[Tr[l].t].done
           /\ pend[Tr[l].t].res = Tr[l].res
           /\ pend' = [pend EXCEPT ![Tr[l].t] = Idle] /\ UNCHANGED <<q, viol>>

\* Reduction (sound, see DESIGN §6.3): a linearization point is only ever placed immediately before a
\* `ret` line whose own operation has not been linearized yet -- every valid placement can be shifted
\* later into this canonical form (call lines observe nothing; order of the points is preserved).
LinOK == l <= Len(Tr) /\ Tr[l].e = "ret" /\ ~pend[Tr[l].t].done

LinPut(t) == /\ LinOK /\ pend[t].k = "put" /\ ~pend[t].done
             /\ pend' = [pend EXCEPT ![t].done = TRUE]
             /\ \/ q' = Append(q, [id |-> pend[t].id, v |-> pend[t].v])
                \/ (q # <<>> /\ q[Len(q)].v = pend[t].v /\ UNCHANGED q)
             /\ UNCHANGED <<l, tid, viol>>
LinGet(t) == /\ LinOK /\ pend[t].k = "get" /\ ~pend[t].done
             /\ IF q = <<>>
                THEN ~pend[t].block /\ pend' = [pend EXCEPT ![t].done = TRUE, ![t].res = 0] /\ UNCHANGED q
                ELSE pend' = [pend EXCEPT ![t].done = TRUE, ![t].res = Head(q).id] /\ q' = Tail(q)
             /\ UNCHANGED <<l, tid, viol>>

\* equality / hash law of the items that flow through the queue (events): a monitor, never blocks
EqLaw == /\ l <= Len(Tr) /\ Tr[l].e = "eqlaw" /\ l' = l + 1 /\ UNCHANGED <<tid, q, pend>>
         /\ viol' = viol \cup (IF Tr[l].eq # (Tr[l].samecls /\ Tr[l].samefields) THEN {"P_C16_EqIffSameClassAndFields"} ELSE {})
                         \cup (IF Tr[l].eq /\ ~Tr[l].heq THEN {"P_C16_EqualImpliesSameHash"} ELSE {})
                         \cup (IF Tr[l].ne # ~Tr[l].eq THEN {"P_C16_NeIsNotEq"} ELSE {})

\* stop expanding a trace as soon as one complete explanation has been found
Next == TLCGet(BIG + tid) = 0 /\ (CallPut \/ RetPut \/ CallGet \/ RetGet \/ EqLaw \/ \E t \in AllThreads : LinPut(t) \/ LinGet(t))
Spec == Init /\ [][Next]_vars

Report == Progress(tid, l, Len(Tr), viol)
PostCond == Post
=============================================================================
