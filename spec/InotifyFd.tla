------------------------------ MODULE InotifyFd ------------------------------
(* Descriptor / reader-thread hand-over protocol of watchdog.observers.inotify_c.Inotify and         *)
(* InotifyBuffer (property C12).                                                                     *)
(*   constructor: inotify_init, os.pipe, then one inotify_add_watch per directory -- each may fail    *)
(*   reader (InotifyBuffer.run):  while should_keep_running(): read_events()                          *)
(*        read_events:  lock{ if closed: return;  is_reading := True }                                *)
(*                      poll(inotify fd, kill pipe) ; read(inotify fd) if readable                    *)
(*                      lock{ is_reading := False; if closed: close all three fds; return }           *)
(*                      lock{ process the batch (may add watches) }                                   *)
(*   closer  (stop() -> close()): stop flag; lock{ if not closed: closed := True; rm_watch(root);     *)
(*                      if is_reading: write(kill pipe)  else: close all three fds } ; join reader    *)
(* Who closes is decided by is_reading under the lock.  Two repaired defects are kept as switches:    *)
(*   FixD1  a failing constructor closes what it had opened                                           *)
(*   FixD2  is_reading starts False (it started True: close() before the first read_events() leaked)  *)
(*   FixD13 the batch-processing section re-checks `closed` (it called inotify_add_watch on a          *)
(*          descriptor that close() had closed in the meantime)                                       *)
EXTENDS Naturals, FiniteSets, TLC

CONSTANTS NW,         \* number of inotify_add_watch calls of the constructor (directories of the tree)
          Closers,    \* threads calling close()/stop()
          MaxData,    \* bound on kernel events arriving
          FixD1, FixD2, FixD13

Fds == {"ino", "kr", "kw"}

VARIABLES fd, closedFlag, isReading, lock,
          ctor, wcount,
          rpc, cpc, stopFlag, killWritten, kdata, ndata,
          viol
vars == <<fd, closedFlag, isReading, lock, ctor, wcount, rpc, cpc, stopFlag, killWritten, kdata, ndata, viol>>

Init == /\ fd = [x \in Fds |-> "none"] /\ closedFlag = FALSE /\ isReading = ~FixD2 /\ lock = "free"
        /\ ctor = "start" /\ wcount = 0
        /\ rpc = "notstarted" /\ cpc = [c \in Closers |-> "idle"] /\ stopFlag = FALSE
        /\ killWritten = FALSE /\ kdata = FALSE /\ ndata = 0 /\ viol = {}

Use(S)   == {<<"use_after_close", x>> : x \in {y \in S : fd[y] # "open"}}
CloseAll == /\ fd' = [x \in Fds |-> "closed"]
            /\ viol' = viol \cup {<<"double_close", x>> : x \in {y \in Fds : fd[y] = "closed"}}

\* ---- constructor (runs in the thread that schedules the watch, before the reader exists)
CtorInit(ok) == /\ ctor = "start"
                /\ IF ok THEN fd' = [fd EXCEPT !["ino"] = "open"] /\ ctor' = "pipe"
                         ELSE UNCHANGED fd /\ ctor' = "failed"
                /\ UNCHANGED <<closedFlag, isReading, lock, wcount, rpc, cpc, stopFlag, killWritten, kdata, ndata, viol>>
CtorPipe == /\ ctor = "pipe" /\ fd' = [fd EXCEPT !["kr"] = "open", !["kw"] = "open"] /\ ctor' = "watch"
            /\ UNCHANGED <<closedFlag, isReading, lock, wcount, rpc, cpc, stopFlag, killWritten, kdata, ndata, viol>>
CtorAddWatch(ok) ==
    /\ ctor = "watch"
    /\ IF ok THEN /\ wcount' = wcount + 1
                  /\ ctor' = IF wcount + 1 = NW THEN "ready" ELSE "watch"
                  /\ rpc' = IF wcount + 1 = NW THEN "outer" ELSE rpc       \* InotifyBuffer starts the reader
                  /\ UNCHANGED <<fd, viol>>
             ELSE /\ ctor' = "failed" /\ UNCHANGED <<wcount, rpc>>
                  /\ IF FixD1 THEN CloseAll ELSE UNCHANGED <<fd, viol>>
    /\ UNCHANGED <<closedFlag, isReading, lock, cpc, stopFlag, killWritten, kdata, ndata>>

\* ---- reader thread
ROuter == /\ rpc = "outer" /\ rpc' = IF stopFlag THEN "exit" ELSE "r1"
          /\ UNCHANGED <<fd, closedFlag, isReading, lock, ctor, wcount, cpc, stopFlag, killWritten, kdata, ndata, viol>>
R1 == /\ rpc = "r1" /\ lock = "free"
      /\ IF closedFlag THEN rpc' = "outer" /\ UNCHANGED isReading
                       ELSE rpc' = "poll" /\ isReading' = TRUE
      /\ UNCHANGED <<fd, closedFlag, lock, ctor, wcount, cpc, stopFlag, killWritten, kdata, ndata, viol>>
RPoll == /\ rpc = "poll" /\ (kdata \/ killWritten)
         /\ viol' = viol \cup Use({"ino", "kr"})
         /\ rpc' = IF kdata THEN "read" ELSE "r4"
         /\ UNCHANGED <<fd, closedFlag, isReading, lock, ctor, wcount, cpc, stopFlag, killWritten, kdata, ndata>>
RRead == /\ rpc = "read" /\ viol' = viol \cup Use({"ino"}) /\ kdata' = FALSE /\ rpc' = "r4"
         /\ UNCHANGED <<fd, closedFlag, isReading, lock, ctor, wcount, cpc, stopFlag, killWritten, ndata>>
R4 == /\ rpc = "r4" /\ lock = "free" /\ isReading' = FALSE
      /\ IF closedFlag THEN CloseAll /\ rpc' = "outer"
                       ELSE UNCHANGED <<fd, viol>> /\ rpc' = "proc"
      /\ UNCHANGED <<closedFlag, lock, ctor, wcount, cpc, stopFlag, killWritten, kdata, ndata>>
\* processing the batch under the lock; a CREATE|ISDIR makes it call inotify_add_watch
RProc == /\ rpc = "proc" /\ lock = "free"
         /\ \E addw \in BOOLEAN : viol' = viol \cup (IF addw /\ ~(FixD13 /\ closedFlag) THEN Use({"ino"}) ELSE {})
         /\ rpc' = "outer"
         /\ UNCHANGED <<fd, closedFlag, isReading, lock, ctor, wcount, cpc, stopFlag, killWritten, kdata, ndata>>
Reader == ROuter \/ R1 \/ RPoll \/ RRead \/ R4 \/ RProc

\* ---- closers: stop() = set flag, close(), then join the reader
CStop(c) == /\ cpc[c] = "idle" /\ ctor = "ready" /\ stopFlag' = TRUE /\ cpc' = [cpc EXCEPT ![c] = "close"]
            /\ UNCHANGED <<fd, closedFlag, isReading, lock, ctor, wcount, rpc, killWritten, kdata, ndata, viol>>
CClose(c) == /\ cpc[c] = "close" /\ lock = "free" /\ cpc' = [cpc EXCEPT ![c] = "join"]
             /\ IF closedFlag THEN UNCHANGED <<fd, closedFlag, killWritten, kdata, viol>>
                ELSE /\ closedFlag' = TRUE
                     /\ kdata' = TRUE                              \* inotify_rm_watch(root) queues IN_IGNORED
                     /\ IF isReading
                        THEN /\ killWritten' = TRUE /\ viol' = viol \cup Use({"ino", "kw"}) /\ UNCHANGED fd
                        ELSE /\ UNCHANGED killWritten
                             /\ fd' = [x \in Fds |-> "closed"]
                             /\ viol' = viol \cup Use({"ino"}) \cup {<<"double_close", x>> : x \in {y \in Fds : fd[y] = "closed"}}
             /\ UNCHANGED <<isReading, lock, ctor, wcount, rpc, stopFlag, ndata>>
CJoin(c) == /\ cpc[c] = "join" /\ rpc = "exit" /\ cpc' = [cpc EXCEPT ![c] = "done"]
            /\ UNCHANGED <<fd, closedFlag, isReading, lock, ctor, wcount, rpc, stopFlag, killWritten, kdata, ndata, viol>>

\* ---- the kernel delivers an event
KData == /\ ndata < MaxData /\ fd["ino"] = "open" /\ ~kdata /\ kdata' = TRUE /\ ndata' = ndata + 1
         /\ UNCHANGED <<fd, closedFlag, isReading, lock, ctor, wcount, rpc, cpc, stopFlag, killWritten, viol>>

Finished == /\ (ctor = "failed" \/ \A c \in Closers : cpc[c] = "done") /\ UNCHANGED vars
Next == (\E ok \in BOOLEAN : CtorInit(ok) \/ CtorAddWatch(ok)) \/ CtorPipe \/ Reader
        \/ (\E c \in Closers : CStop(c) \/ CClose(c) \/ CJoin(c)) \/ KData \/ Finished
Spec == Init /\ [][Next]_vars
FairSpec == Spec /\ WF_vars(Reader) /\ \A c \in Closers : WF_vars(CClose(c) \/ CJoin(c))

\* ---- properties (C12)
C12_NoUseAfterClose == \A v \in viol : v[1] # "use_after_close"
C12_NoDoubleClose   == \A v \in viol : v[1] # "double_close"
C12_AllReleasedWhenDone == (\A c \in Closers : cpc[c] = "done") => \A x \in Fds : fd[x] = "closed"
C12_FailedCtorLeavesNothing == ctor = "failed" => \A x \in Fds : fd[x] # "open"
C12_ReaderExitsAfterStop == stopFlag ~> (rpc = "exit")
=============================================================================
