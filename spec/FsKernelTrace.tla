----------------------------- MODULE FsKernelTrace -----------------------------
(* Environment validation (DESIGN §5.6): the kernel half of the model against the REAL kernel.                 *)
(* An independent recorder (ctypes inotify_init1 / inotify_add_watch / read, no watchdog code) executes          *)
(* TLC-generated operation histories one system call at a time on a scratch tree and logs                       *)
(*    watch  a watch was added for a directory (path, wd returned by the kernel)                                 *)
(*    sys    the system call (kind, paths)                                                                      *)
(*    evs    the raw events the kernel queued for it: [wd, t, dir, ck (0 / 1 = has a cookie), nm]                 *)
(* FsKernel.tla must predict exactly that stream: same watch descriptors, same events, same order.               *)
EXTENDS FsKernel, TraceUtil

VARIABLES tid, l, viol
tvars == <<node, kw, kq, ck, hotD, hotN, tid, l, viol>>
Tr == AllTraces[tid]
ASSUME InitRegs

Dir(p, n) == [k |-> "dir", par |-> p, nm |-> n]
Init == /\ tid \in 1..NTraces /\ l = 1 /\ viol = {}
        /\ node = [i \in Ino |-> IF i = RR THEN Dir(0, "R") ELSE IF i = RO THEN Dir(0, "O") ELSE Free]
        /\ kw = << >> /\ kq = << >> /\ ck = 1 /\ hotD = {} /\ hotN = {}

RECURSIVE ResolveFrom(_, _)
ResolveFrom(i, p) == IF p = << >> THEN i
                     ELSE LET c == ChildNamed(i, Head(p)) IN IF c = {} THEN 0 ELSE ResolveFrom(CHOOSE j \in c : TRUE, Tail(p))
Res(x) == ResolveFrom(IF x.top = "R" THEN RR ELSE RO, x.p)
Line(k) == l <= Len(Tr) /\ Tr[l].e = k
Consume == l' = l + 1 /\ UNCHANGED tid
Canon(evs) == [i \in 1..Len(evs) |-> [evs[i] EXCEPT !.ck = IF @ = 0 THEN 0 ELSE 1]]

Watch == /\ Line("watch") /\ Consume
         /\ LET i == Res(Tr[l].at) IN
            /\ kw' = AddWatch(i)
            /\ viol' = viol \cup (IF i = 0 \/ WdOf(i) # {} \/ Len(kw) + 1 # Tr[l].wd THEN {"P_K_WatchDescriptor"} ELSE {})
         /\ UNCHANGED <<node, kq, ck, hotD, hotN>>

\* the system call: tree effect + predicted events (pacing does not matter here); kq is used as "events of this call"
Sys == /\ Line("sys") /\ Consume
       /\ LET o == Tr[l]
              par == Res(o.at)              \* parent directory (create) or the entry itself
              nm == o.nm IN
          CASE o.k = "mkdir" -> /\ node' = [node EXCEPT ![NewIno] = [k |-> "dir", par |-> par, nm |-> nm]]
                                /\ kq' = MkdirEvents(par, nm) /\ UNCHANGED <<kw, ck>>
            [] o.k = "creat" -> /\ node' = [node EXCEPT ![NewIno] = [k |-> "file", par |-> par, nm |-> nm]]
                                /\ kq' = CreatEvents(par, nm) /\ UNCHANGED <<kw, ck>>
            [] o.k = "write" -> /\ kq' = WriteEvents(par) /\ UNCHANGED <<node, kw, ck>>
            [] o.k = "chmod" -> /\ kq' = ChmodEvents(par) /\ UNCHANGED <<node, kw, ck>>
            [] o.k = "unlink" -> /\ node' = [node EXCEPT ![par] = Free] /\ kq' = UnlinkEvents(par) /\ UNCHANGED <<kw, ck>>
            [] o.k = "rmdir" -> /\ node' = [node EXCEPT ![par] = Free] /\ kq' = RmdirEvents(par) /\ kw' = DropWatches({par}) /\ UNCHANGED ck
            [] o.k = "rename" ->
                 LET p2 == Res(o.to)
                     vs == ChildNamed(p2, o.nm2)
                     v == IF vs = {} THEN 0 ELSE CHOOSE x \in vs : TRUE IN
                 /\ node' = [j \in Ino |-> IF j = par THEN [node[par] EXCEPT !.par = p2, !.nm = o.nm2] ELSE IF j = v THEN Free ELSE node[j]]
                 /\ kq' = RenameEvents(par, p2, o.nm2, v)
                 /\ kw' = IF v # 0 THEN DropWatches({v}) ELSE kw
                 /\ ck' = ck + 1
            [] OTHER -> UNCHANGED <<node, kw, kq, ck>>
       /\ UNCHANGED <<hotD, hotN, viol>>

Evs == /\ Line("evs") /\ Consume
       /\ viol' = viol \cup (IF Canon(kq) # Tr[l].evs THEN {"P_K_EventsAsPredicted"} ELSE {})
       /\ kq' = << >>
       /\ UNCHANGED <<node, kw, ck, hotD, hotN>>

Next == TLCGet(BIG + tid) = 0 /\ (Watch \/ Sys \/ Evs)
Spec == Init /\ [][Next]_tvars
Report == Progress(tid, l, Len(Tr), viol)
PostCond == Post
=============================================================================
