SPECIFICATION Spec
CONSTANTS
  NW = 2
  Closers = {c1, c2}
  MaxData = 2
  FixD1 = TRUE
  FixD2 = TRUE
  FixD13 = TRUE
INVARIANT C12_NoUseAfterClose
CHECK_DEADLOCK FALSE
