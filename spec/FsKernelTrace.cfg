SPECIFICATION Spec
CONSTANTS
  Names = {"a", "b"}
  MaxIno = 12
  MaxDepth = 6
CONSTRAINT Report
POSTCONDITION PostCond
CHECK_DEADLOCK FALSE
