SPECIFICATION Spec
CONSTANTS
  Names = {"a", "b"}
  MaxIno = 6
  MaxDepth = 2
  MaxOps = 3
  StartTree = "deep"
  FixD5 = TRUE
  FixD6 = TRUE
  FixD15 = TRUE
  AvoidD7 = TRUE
INVARIANT C07_NoCrash
INVARIANT C01_ReplicaMatches
INVARIANT C02_WatchedEqualsDirs
