SPECIFICATION Spec
CONSTANTS
  Names = {"a", "b"}
  MaxIno = 6
  MaxDepth = 2
  MaxOps = 2
  StartTree = "empty"
  FixD5 = TRUE
  FixD6 = TRUE
  FixD15 = TRUE
  AvoidD7 = TRUE
INVARIANT C02_NoStaleWatches
