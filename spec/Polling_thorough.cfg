SPECIFICATION Spec
CONSTANTS
  Names = {1, 2}
  InoPool = {1, 2, 3, 4}
  MaxEntries = 3
  MaxOps = 2
  MaxOpsPerPoll = 1
  MaxPolls = 3
  MaxFaults = 1
  Errs = {"ENOENT", "ENOTDIR", "EACCES"}
  RecModes = {TRUE, FALSE}
  FaultBaseline = TRUE
  Deviation = "none"
INVARIANT TypeOK
INVARIANT C10_EventsEqualDiff
INVARIANT C10_DeletionsBeforeCreations
INVARIANT C10_NothingWhenUnchanged
INVARIANT C10_SnapshotIsReachableSet
INVARIANT C10_FaultMeansAbsent
INVARIANT C10_RootGone
PROPERTY C10_StoppedIsFinal
CHECK_DEADLOCK FALSE
