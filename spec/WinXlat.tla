------------------------------ MODULE WinXlat ------------------------------
(* C20, DESIGN section 4.6: the translation table of WindowsApiEmitter.queue_events                       *)
(* (src/watchdog/observers/read_directory_changes.py l.69-100) as TLA+ actions over native batches.       *)
(*                                                                                                        *)
(* Environment (documented ReadDirectoryChangesW semantics, the same as the simulator of checks/c20.py):  *)
(*   DoOp      one file-system operation; appends its FILE_NOTIFY_INFORMATION records to the kernel-side  *)
(*             queue `pend`: create = ADDED, write = MODIFIED, delete = REMOVED (recursive: children      *)
(*             first), rename inside one directory = OLD immediately followed by NEW, move between two    *)
(*             directories of the tree = REMOVED + ADDED, move out = REMOVED, move in = ADDED (top entry   *)
(*             only), root removal = REMOVED ... then SELF; non-recursive: only the root's entries.       *)
(*   Read(n)   one ReadDirectoryChangesW call returns the first n pending records (every batch cut).      *)
(* Emitter (one action per branch of the table; every branch looks at the file system AS IT IS NOW):      *)
(*   T_RenamedOld, T_RenamedNewDir (+ generate_sub_moved_events when recursive), T_RenamedNewFile,        *)
(*   T_Modified, T_AddedDir (+ generate_sub_created_events when recursive), T_AddedFile, T_Removed,       *)
(*   T_RemovedSelf;  `last` is self._last_renamed_src_path: set by RENAMED_OLD_NAME, consumed (reset to    *)
(*   "") by RENAMED_NEW_NAME, kept across reads (the repair ad9135d of finding W1).                         *)
(*                                                                                                        *)
(* Defect switches (the main configs set both to FALSE; each *_neg_* config sets one to TRUE and TLC must  *)
(* then find the violation):                                                                               *)
(*   LocalRenameSource  the code before ad9135d: the rename source is a local variable of queue_events(),   *)
(*                  reset by every read and not consumed by RENAMED_NEW_NAME               (finding W1,    *)
(*                  fixed; WinXlat_neg_W1.cfg keeps the switch and the split reads non-vacuous)             *)
(*   StaleStat      an operation may change what os.path.isdir(p) answers for a path p whose ADDED or     *)
(*                  RENAMED_NEW_NAME record is still untranslated (e.g. a directory created or moved in    *)
(*                  and immediately renamed: the record is translated when p is gone)       (finding W2)  *)
(* Environment (not defect switches, TRUE in every config): SplitPairs - a read may end between           *)
(* RENAMED_OLD_NAME and RENAMED_NEW_NAME; B2B - operations may be issued while records are pending,       *)
(* respecting the C01 pacing; WithRoot - the watched root may be removed.                                 *)
EXTENDS XlatCommon, TLC

CONSTANTS MaxOps, SplitPairs, LocalRenameSource, StaleStat, B2B, WithRoot

VARIABLES start, rec, fs, nops, pend, batch, last, out, hot, lop, lout, alive
vars == <<start, rec, fs, nops, pend, batch, last, out, hot, lop, lout, alive>>

Rc(a, p) == [a |-> a, p |-> p]
RECURSIVE SeqOfSet(_)
SeqOfSet(S) == IF S = {} THEN <<>> ELSE LET x == CHOOSE y \in S : \A z \in S : Len(y) >= Len(z) IN <<x>> \o SeqOfSet(S \ {x})
\* children first (all children of a depth-1 directory are leaves in this universe), then the entry itself
RemovedRecs(t, p) == LET ch == SeqOfSet(Children(t, p)) IN [i \in 1..Len(ch) |-> Rc("REMOVED", ch[i])] \o <<Rc("REMOVED", p)>>
AllRemoved(t) == LET ps == SeqOfSet({p \in Paths : t[p] # "n"}) IN [i \in 1..Len(ps) |-> Rc("REMOVED", ps[i])]

Native(t, o) ==
    CASE o.op \in {"mkfile", "mkdir"} -> <<Rc("ADDED", o.src)>>
      [] o.op = "write" -> <<Rc("MODIFIED", o.src)>>
      [] o.op = "delete" -> RemovedRecs(t, o.src)
      [] o.op = "moveout" -> <<Rc("REMOVED", o.src)>>
      [] o.op = "movein" -> <<Rc("ADDED", o.dst)>>
      [] o.op = "rename" -> IF Parent(o.src) = Parent(o.dst) THEN <<Rc("OLD", o.src), Rc("NEW", o.dst)>>
                            ELSE <<Rc("REMOVED", o.src), Rc("ADDED", o.dst)>>
      [] o.op = "rmroot" -> AllRemoved(t) \o <<Rc("SELF", ROOT)>>
Visible(recs) == SelectSeq(recs, LAMBDA r : rec \/ Len(r.p) <= 1)
IsPair(o) == o.op = "rename" /\ Parent(o.src) = Parent(o.dst)

\* the history universe, printed once so that checks/c20.py can compare it with its own enumeration of the same
\* vocabulary: per start tree <<number of entries, enabled operations, histories of two operations>>
Hist2(t) == UNION {{<<o1, o2>> : o2 \in Ops(ApplyOp(t, o1))} : o1 \in Ops(t)}
ASSUME PrintT(<<"UNIVERSE", {<<Cardinality(AsSet(t)), Cardinality(Ops(t)), Cardinality(Hist2(t))>> : t \in StartTrees}>>)

Quiet == pend = <<>> /\ batch = <<>>
NoLop == [op |-> "none"]
Init == /\ start \in StartTrees /\ rec \in BOOLEAN /\ fs = start /\ nops = 0 /\ pend = <<>> /\ batch = <<>>
        /\ last = NONE /\ out = <<>> /\ hot = {} /\ lop = NoLop /\ lout = <<>> /\ alive = TRUE

PendingStat(p) == (\E i \in 1..Len(pend) : pend[i].a \in {"ADDED", "NEW"} /\ pend[i].p = p)
                  \/ (\E j \in 1..Len(batch) : batch[j].a \in {"ADDED", "NEW"} /\ batch[j].p = p)

DoOp(o) ==
    /\ nops < MaxOps /\ alive
    /\ batch = <<>>
    /\ (Quiet \/ B2B)
    /\ LET h0 == IF Quiet THEN {} ELSE hot IN PacingOK(fs, h0, o) /\ hot' = HotAfter(fs, h0, o)
    /\ ~StaleStat => \A p \in Paths : PendingStat(p) => ((fs[p] = "d") <=> (ApplyOp(fs, o)[p] = "d"))
    /\ fs' = ApplyOp(fs, o)
    /\ pend' = pend \o Visible(Native(fs, o))
    /\ nops' = nops + 1
    /\ lop' = IF Quiet THEN [op |-> o.op, o |-> o, desc |-> DescOf(fs', IF o.op = "rename" \/ o.op = "movein" THEN o.dst ELSE o.src),
                             pair |-> IsPair(o)]
              ELSE NoLop
    /\ lout' = <<>>
    /\ UNCHANGED <<start, rec, batch, last, out, alive>>

\* queue_events(): winapi_events = self._read_events()   (before ad9135d also: last_renamed_src_path = "")
Read(n) ==
    /\ batch = <<>> /\ n \in 1..Len(pend) /\ alive
    /\ (~SplitPairs /\ n < Len(pend)) => pend[n].a # "OLD"
    /\ (pend[1].a = "SELF" => n = 1) /\ (\A i \in 2..n : pend[i].a # "SELF")     \* the failing read is a read of its own
    /\ batch' = SubSeq(pend, 1, n) /\ pend' = SubSeq(pend, n + 1, Len(pend))
    /\ last' = IF LocalRenameSource THEN NONE ELSE last
    /\ UNCHANGED <<start, rec, fs, nops, out, hot, lop, lout, alive>>

Emit(evs) == out' = out \o evs /\ lout' = lout \o evs
Step == batch # <<>> /\ batch' = Tail(batch) /\ UNCHANGED <<start, rec, fs, nops, pend, hot, lop>>
Hd == batch[1]
IsDir(p) == p # NONE /\ p # ROOT /\ fs[p] = "d"                    \* os.path.isdir(src_path), now
SubSeqOf(S) == SeqOfSet(S)
\* generate_sub_moved_events(src, dst): walk dst NOW; source = dst-prefix textually replaced ("" if src is "")
SubMoved(s, d) == LET ch == SubSeqOf(Children(fs, d)) IN
                  [i \in 1..Len(ch) |-> Ev("moved", fs[ch[i]], IF s = NONE THEN NONE ELSE Rebase(ch[i], d, s), ch[i], TRUE)]
SubCreated(p) == LET ch == SubSeqOf(Children(fs, p)) IN [i \in 1..Len(ch) |-> Ev("created", fs[ch[i]], ch[i], NONE, TRUE)]

T_RenamedOld == /\ Step /\ Hd.a = "OLD" /\ last' = Hd.p /\ Emit(<<>>) /\ UNCHANGED alive
T_RenamedNewDir == /\ Step /\ Hd.a = "NEW" /\ IsDir(Hd.p)
                   /\ Emit(<<Ev("moved", "d", last, Hd.p, FALSE)>> \o (IF rec THEN SubMoved(last, Hd.p) ELSE <<>>))
                   /\ last' = (IF LocalRenameSource THEN last ELSE NONE) /\ UNCHANGED alive
T_RenamedNewFile == /\ Step /\ Hd.a = "NEW" /\ ~IsDir(Hd.p)
                    /\ Emit(<<Ev("moved", "f", last, Hd.p, FALSE)>>)
                    /\ last' = (IF LocalRenameSource THEN last ELSE NONE) /\ UNCHANGED alive
T_Modified == /\ Step /\ Hd.a = "MODIFIED"
              /\ Emit(<<Ev("modified", IF IsDir(Hd.p) THEN "d" ELSE "f", Hd.p, NONE, FALSE)>>) /\ UNCHANGED <<last, alive>>
T_AddedDir == /\ Step /\ Hd.a = "ADDED" /\ IsDir(Hd.p)
              /\ Emit(<<Ev("created", "d", Hd.p, NONE, FALSE)>> \o (IF rec THEN SubCreated(Hd.p) ELSE <<>>))
              /\ UNCHANGED <<last, alive>>
T_AddedFile == /\ Step /\ Hd.a = "ADDED" /\ ~IsDir(Hd.p)
               /\ Emit(<<Ev("created", "f", Hd.p, NONE, FALSE)>>) /\ UNCHANGED <<last, alive>>
T_Removed == /\ Step /\ Hd.a = "REMOVED"                            \* always a FileDeletedEvent
             /\ Emit(<<Ev("deleted", "f", Hd.p, NONE, FALSE)>>) /\ UNCHANGED <<last, alive>>
T_RemovedSelf == /\ Step /\ Hd.a = "SELF"
                 /\ Emit(<<Ev("deleted", "d", ROOT, NONE, FALSE)>>) /\ alive' = FALSE /\ UNCHANGED last

Translate == T_RenamedOld \/ T_RenamedNewDir \/ T_RenamedNewFile \/ T_Modified \/ T_AddedDir \/ T_AddedFile
             \/ T_Removed \/ T_RemovedSelf
Next == (\E o \in Ops(fs) \cup (IF WithRoot THEN {RootOp} ELSE {}) : DoOp(o)) \/ (\E n \in 1..Len(pend) : Read(n)) \/ Translate
Spec == Init /\ [][Next]_vars

\* ---- properties (C01 / C03 vocabulary), evaluated when every record has been read and translated
Xlat_ReplicaMatches == Quiet => ReplicaOK(start, out, fs, rec)
PacedOp(name) == Quiet /\ lop.op = name
Xlat_RenameIsOneMovedEvent == (PacedOp("rename") /\ lop.pair /\ rec) => RenameOK(lop.o, lop.desc, lout)
VisibleP(p) == rec \/ Len(p) = 1
Xlat_MoveInOutIsCreatedDeleted ==
    /\ (PacedOp("movein") /\ VisibleP(lop.o.dst)) => MoveInOK(lop.o, lop.desc, lout, rec)
    /\ (PacedOp("moveout") /\ VisibleP(lop.o.src)) => MoveOutOK(lop.o, lout)
Xlat_RootRemovedStops == (Quiet /\ lop.op = "rmroot") => (~alive /\ \E i \in 1..Len(lout) : lout[i] = Ev("deleted", "d", ROOT, NONE, FALSE))
=============================================================================
