SPECIFICATION Spec
CONSTANTS
  Producers = {p1, p2}
  Vals = {1, 2}
  MaxPuts = 2
  MaxGets = 3
INVARIANT LastIsTail
INVARIANT C16_FIFO
INVARIANT C16_NoLossExceptDup
INVARIANT C16_Accounted
INVARIANT C16_ProducerOrder
INVARIANT C16_AcceptAfterGet
