SPECIFICATION Spec
CONSTANTS
  MaxOps = 4
  SplitPairs = FALSE
  RenameTwice = FALSE
  NonRecDirs = FALSE
  NonRecCross = FALSE
  B2B = FALSE
  WithRoot = TRUE
  InodeReuse = FALSE
  StickyCreated = FALSE
  ViewSkipInCreatedRemoved = FALSE
  RecModes = {TRUE, FALSE}
INVARIANT Xlat_ReplicaMatches
INVARIANT Xlat_RenameIsOneMovedEvent
INVARIANT Xlat_MoveInOutIsCreatedDeleted
INVARIANT FSEvents_NonRecursiveNothingBelowChildren
INVARIANT Xlat_RootRemovedStops
CHECK_DEADLOCK FALSE
