SPECIFICATION Spec
CONSTANTS
  Family = "partialstart"
  MaxEm = 3
  EvPerEm = 2
  FixD3 = TRUE
  FixD10 = TRUE
  FixD12 = TRUE
  FixD17 = TRUE
  FixD18 = TRUE
  FixD20 = FALSE
INVARIANT C13_StartRetrySucceeds
