SPECIFICATION Spec
CONSTANTS
  Producers = {p1, p2, p3}
  Vals = {1, 2}
  MaxPuts = 2
  MaxGets = 4
INVARIANT LastIsTail
INVARIANT C16_FIFO
INVARIANT C16_NoLossExceptDup
INVARIANT C16_Accounted
INVARIANT C16_ProducerOrder
INVARIANT C16_AcceptAfterGet
