SPECIFICATION Spec
CONSTANTS
  MaxEv = 3
  WAIT = {FALSE}
  DROP = {FALSE}
  HonourDrop = TRUE
INVARIANT NegOverlap
CHECK_DEADLOCK FALSE
