SPECIFICATION Spec
CONSTANTS
  MaxPat = 2
  FixD13 = FALSE
  StrictPaths = FALSE
CHECK_DEADLOCK FALSE
INVARIANT TableRow
