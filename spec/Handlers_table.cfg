SPECIFICATION Spec
CONSTANTS
  MaxPat = 2
  FixEmptyDest = TRUE
CHECK_DEADLOCK FALSE
INVARIANT TableRow
