SPECIFICATION Spec
CONSTANTS
  Delay = 2
  MaxOps = 4
  MaxTime = 6
  Gaps = {1, 2, 3}
INVARIANT NoCrash
INVARIANT C17_FIFO
INVARIANT C17_NeverEarly
INVARIANT C17_AtMostOnce
INVARIANT C17_NothingLost
INVARIANT C17_SleepOnlyOnDelayedHead
INVARIANT C17_EndMarkerOnlyWhenClosed
PROPERTY C17_RemovedNotReturned
CHECK_DEADLOCK FALSE
