SPECIFICATION Spec
CONSTANTS
  MaxOps = 2
  SplitPairs = FALSE
  RenameTwice = TRUE
  NonRecDirs = FALSE
  NonRecCross = FALSE
  B2B = TRUE
  WithRoot = TRUE
  InodeReuse = FALSE
  StickyCreated = FALSE
  ViewSkipInCreatedRemoved = FALSE
  RecModes = {TRUE}
INVARIANT Xlat_ReplicaMatches
CHECK_DEADLOCK FALSE
