---------------------------- MODULE InotifyFdTrace ----------------------------
(* Level-P trace specification for C12: a per-descriptor state machine driven by the `sys` lines     *)
(* recorded at the OS seam (inotify_init, pipe, inotify_add_watch, inotify_rm_watch, poll, read,      *)
(* write, close), plus the final census of descriptors and library threads.                          *)
(*   P_C12_NoUseAfterClose   no descriptor is read/polled/written/watched after it was closed        *)
(*   P_C12_NoDoubleClose     none is closed twice                                                    *)
(*   P_C12_AllReleased       after stop()/unschedule()/a failed construction every descriptor        *)
(*                           created for the watch is closed                                          *)
(*   P_C12_ThreadsGone       ... and every helper thread has exited                                   *)
(*   P_C12_NoUncaught        no library thread died of an exception on the way                        *)
(* Deterministic: the trace alone fixes the state.                                                   *)
EXTENDS TraceUtil

VARIABLES tid, l, st, viol
vars == <<tid, l, st, viol>>
Tr == AllTraces[tid]
ASSUME InitRegs

Init == tid \in 1..NTraces /\ l = 1 /\ st = << >> /\ viol = {}

Set(f, k, v) == IF k \in DOMAIN f THEN [f EXCEPT ![k] = v] ELSE f @@ (k :> v)
StOf(k) == IF k \in DOMAIN st THEN st[k] ELSE "none"
SeqSet(s) == {s[i] : i \in 1..Len(s)}

Sys == /\ l <= Len(Tr) /\ Tr[l].e = "sys" /\ l' = l + 1 /\ UNCHANGED tid
       /\ LET c == Tr[l].call IN
          CASE c = "inotify_init" /\ Tr[l].ok -> st' = Set(st, Tr[l].res, "open") /\ UNCHANGED viol
            [] c = "pipe" /\ Tr[l].ok -> st' = Set(Set(st, Tr[l].res[1], "open"), Tr[l].res[2], "open") /\ UNCHANGED viol
            [] c = "close" ->
                 /\ st' = Set(st, Tr[l].fd, "closed")
                 /\ viol' = viol \cup (IF StOf(Tr[l].fd) = "closed" THEN {"P_C12_NoDoubleClose"} ELSE {})
            [] c \in {"inotify_add_watch", "inotify_rm_watch", "read", "write"} ->
                 /\ viol' = viol \cup (IF StOf(Tr[l].fd) # "open" THEN {"P_C12_NoUseAfterClose"} ELSE {})
                 /\ UNCHANGED st
            [] c = "poll" ->
                 /\ viol' = viol \cup (IF \E f \in SeqSet(Tr[l].res) : StOf(f) # "open" THEN {"P_C12_NoUseAfterClose"} ELSE {})
                 /\ UNCHANGED st
            [] OTHER -> UNCHANGED <<st, viol>>
\* the seam's shadow table refused the call (the real descriptor number was not touched)
Shadow == /\ l <= Len(Tr) /\ Tr[l].e \in {"use_after_close", "double_close"} /\ l' = l + 1 /\ UNCHANGED <<tid, st>>
          /\ viol' = viol \cup {IF Tr[l].e = "double_close" THEN "P_C12_NoDoubleClose" ELSE "P_C12_NoUseAfterClose"}
Final == /\ l <= Len(Tr) /\ Tr[l].e = "final" /\ l' = l + 1 /\ UNCHANGED <<tid, st>>
         /\ viol' = viol \cup (IF \E k \in DOMAIN st : st[k] = "open" THEN {"P_C12_AllReleased"} ELSE {})
                         \cup (IF Len(Tr[l].open) > 0 THEN {"P_C12_AllReleased"} ELSE {})
                         \cup (IF Len(Tr[l].live) > 0 THEN {"P_C12_ThreadsGone"} ELSE {})
Uncaught == /\ l <= Len(Tr) /\ Tr[l].e = "uncaught" /\ l' = l + 1 /\ UNCHANGED <<tid, st>>
            /\ viol' = viol \cup {"P_C12_NoUncaught"}
DeadlockLine == /\ l <= Len(Tr) /\ Tr[l].e = "deadlock" /\ l' = l + 1 /\ UNCHANGED <<tid, st>>
                /\ viol' = viol \cup {"P_C12_NoDeadlock"}
Other == /\ l <= Len(Tr) /\ Tr[l].e \in {"call", "ret", "op", "note", "thread_start", "thread_exit"} /\ l' = l + 1
         /\ UNCHANGED <<tid, st, viol>>

Next == TLCGet(BIG + tid) = 0 /\ (Sys \/ Shadow \/ Final \/ Uncaught \/ DeadlockLine \/ Other)
Spec == Init /\ [][Next]_vars
Report == Progress(tid, l, Len(Tr), viol)
PostCond == Post
=============================================================================
