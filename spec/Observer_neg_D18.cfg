SPECIFICATION Spec
CONSTANTS
  Family = "doublestart"
  MaxEm = 3
  EvPerEm = 2
  FixD3 = TRUE
  FixD10 = TRUE
  FixD12 = TRUE
  FixD17 = TRUE
  FixD18 = FALSE
  FixD20 = TRUE
INVARIANT C13_ScheduledWatchHasEmitter
