SPECIFICATION Spec
CONSTANTS
  MaxOps = 3
  SplitPairs = FALSE
  RenameTwice = FALSE
  NonRecDirs = FALSE
  NonRecCross = FALSE
  B2B = TRUE
  WithRoot = TRUE
  InodeReuse = TRUE
  StickyCreated = TRUE
  ViewSkipInCreatedRemoved = TRUE
  RecModes = {TRUE}
INVARIANT Xlat_ReplicaMatches
CHECK_DEADLOCK FALSE
