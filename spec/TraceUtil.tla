---------------------------- MODULE TraceUtil ----------------------------
(* Batch trace validation plumbing shared by every *Trace module (DESIGN §6.3).        *)
(* One JVM validates many traces: tid is chosen in Init; per-trace verdicts are kept in *)
(* TLC registers (needs -workers 1) and printed from a POSTCONDITION.                   *)
EXTENDS Naturals, Integers, Sequences, FiniteSets, TLC, TLCExt, Json, IOUtils

BIG == 1000000
AllTraces == JsonDeserialize(IOEnv.TRACES)
NTraces == Len(AllTraces)

InitRegs == \A i \in 1..NTraces : TLCSet(i, 0) /\ TLCSet(BIG + i, 0)

\* CONSTRAINT helper: remember the furthest line reached for trace `t` and whether it was consumed completely
Progress(t, l, len) ==
    /\ (IF TLCGet(t) < l THEN TLCSet(t, l) ELSE TRUE)
    /\ (l = len + 1 => TLCSet(BIG + t, 1))

\* print one VIOL line per failing monitor clause (deduplicated by the harness)
ReportViol(t, l, viol) == \A c \in viol : PrintT(<<"VIOL", t, c, l>>)

\* POSTCONDITION
Post == \A i \in 1..NTraces : PrintT(<<"TRACE", i, TLCGet(BIG + i) = 1, TLCGet(i)>>)

Has(r, f) == f \in DOMAIN r
Get(r, f, d) == IF f \in DOMAIN r THEN r[f] ELSE d
SeqToSet(s) == {s[i] : i \in 1..Len(s)}
Last(s) == s[Len(s)]
=============================================================================
