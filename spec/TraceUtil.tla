---------------------------- MODULE TraceUtil ----------------------------
(* Batch trace validation plumbing shared by every *Trace module (DESIGN §6.3).        *)
(* One JVM validates many traces: tid is chosen in Init; per-trace verdicts are kept in *)
(* TLC registers (needs -workers 1) and printed from a POSTCONDITION.                   *)
EXTENDS Naturals, Integers, Sequences, FiniteSets, TLC, TLCExt, Json, IOUtils

BIG == 1000000
AllTraces == JsonDeserialize(IOEnv.TRACES)
NTraces == Len(AllTraces)

InitRegs == \A i \in 1..NTraces : TLCSet(i, 0) /\ TLCSet(BIG + i, 0) /\ TLCSet(2 * BIG + i, {})

\* CONSTRAINT helper.  Register i: furthest line reached for trace i.  Register BIG+i: 1 once SOME explanation
\* consumed the whole trace with every monitor clause TRUE (the trace is then accepted and no longer expanded).
\* Register 2*BIG+i: the failing clauses of the first complete explanation that had some (reported only if no
\* clean explanation exists: acceptance is existential over the placements of the unlogged steps).
Progress(t, l, len, viol) ==
    /\ (IF TLCGet(t) < l THEN TLCSet(t, l) ELSE TRUE)
    /\ (l = len + 1 =>
          IF viol = {} THEN TLCSet(BIG + t, 1)
          ELSE IF TLCGet(2 * BIG + t) = {} THEN TLCSet(2 * BIG + t, viol) ELSE TRUE)

\* POSTCONDITION
Post == \A i \in 1..NTraces : PrintT(<<"TRACE", i, TLCGet(BIG + i) = 1, TLCGet(i), TLCGet(2 * BIG + i)>>)

Has(r, f) == f \in DOMAIN r
Get(r, f, d) == IF f \in DOMAIN r THEN r[f] ELSE d
SeqToSet(s) == {s[i] : i \in 1..Len(s)}
Last(s) == s[Len(s)]
=============================================================================
