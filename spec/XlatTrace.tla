----------------------------- MODULE XlatTrace -----------------------------
(* Level-P trace specification for C20 (DESIGN section 3, 6.3, 7).                                        *)
(* Lines recorded from the REAL WindowsApiEmitter / FSEventsEmitter fed with simulated native batches,    *)
(* and from the REAL buffer decoders (checks/c20.py):                                                     *)
(*   start  layer ("win" | "fse"), rec, tree         the real listing of the watched root at watch start  *)
(*   op     op, src, dst, k, nat, desc, paced, tree  one operation executed on the scratch tree, the real *)
(*                                                   listing after it; desc = descendants (relative path, *)
(*                                                   kind) of the moved / arrived directory; nat = "pair" *)
(*                                                   iff the OS reports the rename as a rename            *)
(*   feed   evs                                      the normalized events the emitter queued for one     *)
(*                                                   native batch: [ty, k, src, dst, syn]                 *)
(*   exc    what                                     the translation raised                               *)
(*   end                                             every batch has been fed                             *)
(*   dec    enc, dec                                 one decoder round trip: encoded / decoded records    *)
(* Paths are sequences of name ids relative to the watched root (<<>> = the root itself); <<0>> = the     *)
(* empty string (no path), <<99>> = a path that does not decompose (outside the watched tree).            *)
(*                                                                                                        *)
(* The monitors are the clauses of C20, written from the property text and DESIGN section 7 (Apply), not  *)
(* from the emitters' code:                                                                               *)
(*   P_C20_ReplicaMatches        replaying created / deleted / moved onto the start tree yields the real  *)
(*                               final tree (non-recursive: the root's direct children)                   *)
(*   P_C20_RenameContract        paced rename that the OS reports as a rename, recursive watch: exactly   *)
(*                               one non-synthetic moved event (both paths, right kind), one synthetic    *)
(*                               moved event per descendant and no other, nothing created or deleted      *)
(*   P_C20_MoveInOut             paced move in = created (+ synthetic created per descendant when         *)
(*                               recursive), nothing moved or deleted; paced move out = deleted, nothing  *)
(*                               moved or created (the File/Dir flavour of a deleted event is NOT         *)
(*                               demanded: ReadDirectoryChangesW cannot tell)                             *)
(*   P_C20_FSEventsNonRecursive  no event of a non-recursive FSEvents watch names a path below the root's *)
(*                               direct children                                                          *)
(*   P_C20_NoException           the translation of a well-formed batch does not raise                    *)
(*   P_C20_DecodeEqualsEncoded   decoded records = encoded records                                        *)
EXTENDS TraceUtil

\* Clause codes accumulated in `viol` (short, because TLC wraps long printed verdict tuples and the harness parser
\* does not read wrapped ones); checks/c20.py maps them back to the clause names.
P_C20_ReplicaMatches == "R"
P_C20_RenameContract == "N"
P_C20_MoveInOut == "M"
P_C20_FSEventsNonRecursive == "F"
P_C20_NoException == "X"
P_C20_DecodeEqualsEncoded == "D"

VARIABLES tid, l, st, viol
vars == <<tid, l, st, viol>>

Tr == AllTraces[tid]
NONE == <<0>>
UNK  == <<99>>
Special(p) == p = NONE \/ p = UNK

ASSUME InitRegs

IsPrefix(s, t) == Len(s) <= Len(t) /\ SubSeq(t, 1, Len(s)) = s
Rebase(p, s, d) == d \o SubSeq(p, Len(s) + 1, Len(p))
TreeOf(js) == {[p |-> js[i].p, k |-> js[i].k] : i \in 1..Len(js)}
Paths(rep) == {x.p : x \in rep}

\* ---- Apply (DESIGN section 7, "Replaying events"): total
Created(rep, p, k) == {x \in rep : x.p # p} \cup {[p |-> p, k |-> k]}
Deleted(rep, p) == {x \in rep : ~IsPrefix(p, x.p)}
Moved(rep, s, d, k) ==
    IF Special(s) /\ Special(d) THEN rep
    ELSE IF Special(s) THEN Created(rep, d, k)
    ELSE IF Special(d) THEN Deleted(rep, s)
    ELSE IF s \in Paths(rep)
         THEN {x \in rep : ~IsPrefix(s, x.p) /\ ~IsPrefix(d, x.p)}
              \cup {[p |-> Rebase(x.p, s, d), k |-> x.k] : x \in {y \in rep : IsPrefix(s, y.p)}}
         ELSE IF d \notin Paths(rep) THEN rep \cup {[p |-> d, k |-> k]}
         ELSE rep
Apply0(rep, e) ==
    IF e.ty = "created" THEN (IF Special(e.src) THEN rep ELSE Created(rep, e.src, e.k))
    ELSE IF e.ty = "deleted" THEN (IF Special(e.src) THEN rep ELSE Deleted(rep, e.src))
    ELSE IF e.ty = "moved" THEN Moved(rep, e.src, e.dst, e.k)
    ELSE rep
\* TLC builds set values lazily (a filter over a union over a filter ...): a long feed would nest hundreds of them and
\* overflow the Java stack when the result is finally enumerated; Cardinality enumerates and caches at every step.
Apply(rep, e) == LET r == Apply0(rep, e) IN IF Cardinality(r) >= 0 THEN r ELSE r
\* left fold of Apply over evs[lo..hi], by halving, the left half forced before the right one is started (TLC passes
\* operator arguments lazily: an unforced fold would still nest one pending evaluation per event)
RECURSIVE Fold(_, _, _, _)
Fold(rep, evs, lo, hi) == IF lo > hi THEN rep
                          ELSE IF lo = hi THEN Apply(rep, evs[lo])
                          ELSE LET mid == (lo + hi) \div 2
                                   left == Fold(rep, evs, lo, mid)
                               IN IF Cardinality(left) >= 0 THEN Fold(left, evs, mid + 1, hi) ELSE left
ApplyAll(rep, evs, i) == Fold(rep, evs, i, Len(evs))

Depth1(rep) == {x \in rep : Len(x.p) = 1}

\* ---- per-operation contract (C03 "one at a time"), evaluated when the next op / end line arrives
Evs(ty, syn) == {e \in SeqToSet(st.evs) : e.ty = ty /\ e.syn = syn}
Pair(e) == <<e.src, e.dst, e.k>>
Visible(p) == st.rec \/ Len(p) = 1

RenameOK ==
    LET o == st.op IN
    /\ {Pair(e) : e \in Evs("moved", FALSE)} = {<<o.src, o.dst, o.k>>}
    /\ {Pair(e) : e \in Evs("moved", TRUE)} = {<<o.src \o o.desc[i].p, o.dst \o o.desc[i].p, o.desc[i].k>> : i \in 1..Len(o.desc)}
    /\ Evs("created", FALSE) \cup Evs("created", TRUE) \cup Evs("deleted", FALSE) \cup Evs("deleted", TRUE) = {}
MoveInOK ==
    LET o == st.op IN
    /\ {<<e.src, e.k>> : e \in Evs("created", FALSE)} = {<<o.dst, o.k>>}
    /\ st.rec => {<<e.src, e.k>> : e \in Evs("created", TRUE)} = {<<o.dst \o o.desc[i].p, o.desc[i].k>> : i \in 1..Len(o.desc)}
    /\ Evs("moved", FALSE) \cup Evs("moved", TRUE) \cup Evs("deleted", FALSE) \cup Evs("deleted", TRUE) = {}
MoveOutOK ==
    LET o == st.op
        del == {e.src : e \in Evs("deleted", FALSE) \cup Evs("deleted", TRUE)} IN
    /\ o.src \in del /\ \A p \in del : IsPrefix(o.src, p)
    /\ Evs("moved", FALSE) \cup Evs("moved", TRUE) \cup Evs("created", FALSE) \cup Evs("created", TRUE) = {}

ContractViol ==
    IF st.op.op = "none" \/ ~st.op.paced THEN {}
    ELSE IF st.op.op = "rename" /\ st.op.nat = "pair" /\ st.rec
         THEN (IF RenameOK THEN {} ELSE {P_C20_RenameContract})
    ELSE IF st.op.op = "movein" /\ Visible(st.op.dst)
         THEN (IF MoveInOK THEN {} ELSE {P_C20_MoveInOut})
    ELSE IF st.op.op = "moveout" /\ Visible(st.op.src)
         THEN (IF MoveOutOK THEN {} ELSE {P_C20_MoveInOut})
    ELSE {}

NoOp == [op |-> "none", paced |-> FALSE]
Init == /\ tid \in 1..NTraces /\ l = 1 /\ viol = {}
        /\ st = [layer |-> "none", rec |-> TRUE, rep |-> {}, cur |-> {}, op |-> NoOp, evs |-> <<>>]

Line(k) == l <= Len(Tr) /\ Tr[l].e = k /\ l' = l + 1 /\ UNCHANGED tid

Start == /\ Line("start")
         /\ st' = [layer |-> Tr[l].layer, rec |-> Tr[l].rec, rep |-> TreeOf(Tr[l].tree), cur |-> TreeOf(Tr[l].tree),
                   op |-> NoOp, evs |-> <<>>]
         /\ UNCHANGED viol
Op == /\ Line("op")
      /\ viol' = viol \cup ContractViol
      /\ st' = [st EXCEPT !.cur = TreeOf(Tr[l].tree), !.evs = <<>>,
                          !.op = [op |-> Tr[l].op, src |-> Tr[l].src, dst |-> Tr[l].dst, k |-> Tr[l].k, nat |-> Tr[l].nat,
                                  desc |-> Tr[l].desc, paced |-> Tr[l].paced]]
DeepPath(e) == (~Special(e.src) /\ Len(e.src) >= 2) \/ (~Special(e.dst) /\ Len(e.dst) >= 2)
Feed == /\ Line("feed")
        /\ st' = [st EXCEPT !.rep = ApplyAll(st.rep, Tr[l].evs, 1), !.evs = st.evs \o Tr[l].evs]
        /\ viol' = viol \cup (IF st.layer = "fse" /\ ~st.rec /\ \E i \in 1..Len(Tr[l].evs) : DeepPath(Tr[l].evs[i])
                              THEN {P_C20_FSEventsNonRecursive} ELSE {})
Exc == /\ Line("exc") /\ viol' = viol \cup {P_C20_NoException} /\ UNCHANGED st
End == /\ Line("end")
       /\ LET want == IF st.rec THEN st.cur ELSE Depth1(st.cur)
              have == IF st.rec THEN st.rep ELSE Depth1(st.rep) IN
          viol' = viol \cup ContractViol \cup (IF have = want THEN {} ELSE {P_C20_ReplicaMatches})
       /\ st' = [st EXCEPT !.op = NoOp, !.evs = <<>>]
Dec == /\ Line("dec")
       /\ viol' = viol \cup (IF Tr[l].enc = Tr[l].dec THEN {} ELSE {P_C20_DecodeEqualsEncoded})
       /\ UNCHANGED st

Next == TLCGet(BIG + tid) = 0 /\ (Start \/ Op \/ Feed \/ Exc \/ End \/ Dec)
Spec == Init /\ [][Next]_vars

Report == Progress(tid, l, Len(Tr), viol)
PostCond == Post
=============================================================================
