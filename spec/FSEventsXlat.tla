---------------------------- MODULE FSEventsXlat ----------------------------
(* C20, DESIGN section 4.6: the translation table of FSEventsEmitter.queue_events (l.160-287) with the    *)
(* non-recursive filter queue_event / _is_recursive_event (l.87-108) of src/watchdog/observers/fsevents.py *)
(* as TLA+ actions over native callback batches.                                                          *)
(*                                                                                                        *)
(* Environment (documented FSEvents semantics with file events + extended data, the same as the simulator *)
(* of checks/c20.py): every item carries an inode id;                                                     *)
(*   DoOp          appends the operation's native events to `pend`: Cr / Rm / Mod with the item's kind;    *)
(*                 a rename inside the tree = two Rn events (old path, new path, same inode) adjacent in   *)
(*                 the stream; move out / move in = ONE Rn event; recursive delete = Rm per entry,         *)
(*                 children first; root removal = Rm ... Rm(root) then an event with the Root flag and no  *)
(*                 inode.  FSEvents always reports the whole subtree (the emitter filters).                *)
(*   Callback(n)   the next callback delivers the first n pending events (every batch cut)                 *)
(*   Coalesce(i)   inside the delivered batch two ADJACENT events of the same (inode, path) are merged:     *)
(*                 flags OR-ed (repeatable: every partition of a run into consecutive blocks)              *)
(* Emitter: one action per branch of the while loop, each looking at the file system AS IT IS NOW          *)
(*   T_CreatedRemoved   is_created and is_removed (created unless historic, modified, deleted)             *)
(*   T_Plain            created unless historic / modified / removed, no rename flag                       *)
(*   T_RenamedPair      a later event of the batch with the rename flag and the same inode exists: moved + *)
(*                      generate_sub_moved_events + coalesced flags of the destination event               *)
(*   T_RenamedIn        no such event and stat(path).st_ino = inode: created + generate_sub_created_events *)
(*   T_RenamedOut       otherwise: deleted, `continue`                                                     *)
(*   T_RootChanged      DirDeletedEvent(watch path), stop, _fs_view.clear()                                *)
(*   every queued event passes Filter = queue_event(): dropped iff the watch is non-recursive and          *)
(*   _is_recursive_event(event);  `view` is _fs_view, the set of inodes already announced.                 *)
(*                                                                                                        *)
(* Environment choices (not defects): InodeReuse - a new entry may get the inode number of a removed one;   *)
(* StickyCreated - FSEvents may repeat ItemCreated on later records of an item whose creation it has        *)
(* already delivered (the "spurious is_created" the emitter's _fs_view exists for).  FSEventsXlat_reuse.cfg *)
(* sets both.  ViewSkipInCreatedRemoved is a seeded mutant of the emitter (the is_created-and-is_removed    *)
(* branch without its _fs_view.add / discard pair): FSEventsXlat_neg_view.cfg must be refuted - it is only  *)
(* with inode re-use and sticky flags that this pair matters.                                              *)
(* Environment switches (main configs: all FALSE; each *_neg_* config sets one to TRUE and TLC must find   *)
(* the violation that checks/c20.py also observes on the real emitter):                                    *)
(*   SplitPairs   a callback batch may end between the two Rn events of one rename           (finding F3)  *)
(*   RenameTwice  an item may be renamed / moved again while an Rn event of it is untranslated, or an entry *)
(*                moved in may re-use the inode number of a removed item whose Rn event is   (finding F4) *)
(*   NonRecDirs   non-recursive watch: directories directly in the root are created, deleted, moved in,    *)
(*                out or below                                                               (finding F1)  *)
(*   NonRecCross  non-recursive watch: renames between the root and a sub-directory         (finding F2)  *)
EXTENDS XlatCommon, TLC

CONSTANTS MaxOps, SplitPairs, RenameTwice, NonRecDirs, NonRecCross, B2B, WithRoot, RecModes,
          InodeReuse, StickyCreated, ViewSkipInCreatedRemoved

VARIABLES start, rec, fs, ino, nextid, nops, pend, batch, phase, view, out, hot, lop, lout, alive, rootgone, freed, ann
vars == <<start, rec, fs, ino, nextid, nops, pend, batch, phase, view, out, hot, lop, lout, alive, rootgone, freed, ann>>

UNK == <<99>>                                   \* a path outside the watched tree (dirname of the root)
RootIno == 100
IdOf(p) == IF Len(p) = 1 THEN p[1] ELSE 2 * p[1] + p[2]          \* inode ids 1..6 of the start tree's entries
Dirname(p) == IF p = ROOT THEN UNK ELSE Parent(p)

\* nw: the record begins a new item (bookkeeping of the generator, like pr: the emitter never reads it)
N(p, i, fl, k, pr) == [p |-> p, i |-> i, fl |-> fl, k |-> k, pr |-> pr, nw |-> FALSE]
Nw(p, i, fl, k) == [p |-> p, i |-> i, fl |-> fl, k |-> k, pr |-> "", nw |-> TRUE]
RECURSIVE SeqOfSet(_)
SeqOfSet(S) == IF S = {} THEN <<>> ELSE LET x == CHOOSE y \in S : \A z \in S : Len(y) >= Len(z) IN <<x>> \o SeqOfSet(S \ {x})
RemovedEvs(ps) == [j \in 1..Len(ps) |-> N(ps[j], ino[ps[j]], {"Rm"}, fs[ps[j]], "")]

Native(o, c) ==
    CASE o.op \in {"mkfile", "mkdir"} -> <<Nw(o.src, c, {"Cr"}, o.k)>>
      [] o.op = "write" -> <<N(o.src, ino[o.src], {"Mod"}, "f", "")>>
      [] o.op = "delete" -> RemovedEvs(SeqOfSet(Children(fs, o.src)) \o <<o.src>>)
      [] o.op = "moveout" -> <<N(o.src, ino[o.src], {"Rn"}, fs[o.src], "")>>
      [] o.op = "movein" -> <<Nw(o.dst, c, {"Rn"}, KindOf(o))>>
      [] o.op = "rename" -> <<N(o.src, ino[o.src], {"Rn"}, fs[o.src], "old"), N(o.dst, ino[o.src], {"Rn"}, fs[o.src], "new")>>
      [] o.op = "rmroot" -> RemovedEvs(SeqOfSet({p \in Paths : fs[p] # "n"}))
                            \o <<N(ROOT, RootIno, {"Rm"}, "d", ""), N(ROOT, 0, {"Root"}, "d", "")>>
InoAfter(o, c) ==
    CASE o.op \in {"mkfile", "mkdir"} -> [ino EXCEPT ![o.src] = c]
      [] o.op = "write" -> ino
      [] o.op \in {"delete", "moveout"} -> [p \in Paths |-> IF IsPrefix(o.src, p) THEN 0 ELSE ino[p]]
      [] o.op = "rename" -> [p \in Paths |-> IF IsPrefix(o.dst, p)
                                             THEN (IF Rebase(p, o.dst, o.src) \in Paths THEN ino[Rebase(p, o.dst, o.src)] ELSE 0)
                                             ELSE IF IsPrefix(o.src, p) THEN 0 ELSE ino[p]]
      [] o.op = "movein" -> [p \in Paths |-> IF p = o.dst THEN c
                                             ELSE IF o.k = "t" /\ p = o.dst \o <<1>> THEN nextid + 1
                                             ELSE IF o.k = "t" /\ p = o.dst \o <<2>> THEN nextid + 2 ELSE ino[p]]
      [] o.op = "rmroot" -> [p \in Paths |-> 0]

Quiet == pend = <<>> /\ batch = <<>>
NoLop == [op |-> "none"]
Init == /\ start \in StartTrees /\ rec \in RecModes /\ fs = start
        /\ ino = [p \in Paths |-> IF start[p] = "n" THEN 0 ELSE IdOf(p)] /\ nextid = 7
        /\ nops = 0 /\ pend = <<>> /\ batch = <<>> /\ phase = "idle" /\ view = {} /\ out = <<>>
        /\ hot = {} /\ lop = NoLop /\ lout = <<>> /\ alive = TRUE /\ rootgone = FALSE /\ freed = {} /\ ann = {}

PendingRn(i) == (\E j \in 1..Len(pend) : pend[j].i = i /\ "Rn" \in pend[j].fl)
                \/ (\E j \in 1..Len(batch) : batch[j].i = i /\ "Rn" \in batch[j].fl)
IsDirOp(o) == o.op = "mkdir" \/ (o.op = "movein" /\ o.k # "f") \/ (o.op \in {"delete", "moveout", "rename"} /\ fs[o.src] = "d")
NonRecOK(o) ==
    /\ NonRecDirs \/ ~(IsDirOp(o) /\ ((o.op # "rename" /\ Len(IF o.op = "movein" THEN o.dst ELSE o.src) = 1)
                                       \/ (o.op = "rename" /\ Len(o.src) = 1 /\ Len(o.dst) > 1)
                                       \/ (o.op = "rename" /\ SplitPairs /\ (Len(o.src) = 1 \/ Len(o.dst) = 1))))
    /\ NonRecDirs \/ ~(o.op = "rmroot" /\ \E p \in Paths : Len(p) = 1 /\ fs[p] = "d")
    /\ NonRecCross \/ ~(o.op = "rename" /\ (Len(o.src) = 1) # (Len(o.dst) = 1))

Creates(o) == o.op \in {"mkfile", "mkdir", "movein"}
FreedBy(o) == IF o.op = "delete" THEN {ino[p] : p \in {q \in Paths : IsPrefix(o.src, q) /\ fs[q] # "n"}}
              ELSE IF o.op = "rmroot" THEN {ino[p] : p \in {q \in Paths : fs[q] # "n"}} ELSE {}
DoOp(o, c) ==
    /\ nops < MaxOps /\ alive /\ batch = <<>>
    /\ (Quiet \/ B2B)
    /\ LET h0 == IF Quiet THEN {} ELSE hot IN PacingOK(fs, h0, o) /\ hot' = HotAfter(fs, h0, o)
    /\ (o.op \in {"rename", "moveout"} /\ ~RenameTwice) => ~PendingRn(ino[o.src])
    /\ (o.op = "movein" /\ ~RenameTwice) => ~PendingRn(c)      \* ... nor under a re-used inode number
    /\ rec \/ NonRecOK(o)
    /\ c \in (IF InodeReuse /\ Creates(o) THEN freed ELSE {}) \cup {nextid}
    /\ freed' = IF InodeReuse THEN (freed \ {c}) \cup FreedBy(o) ELSE {}
    /\ fs' = ApplyOp(fs, o) /\ ino' = InoAfter(o, c)
    /\ nextid' = nextid + (IF o.op \in {"mkfile", "mkdir"} THEN 1 ELSE IF o.op = "movein" THEN 3 ELSE 0)
    /\ pend' = pend \o Native(o, c)
    /\ nops' = nops + 1
    /\ rootgone' = (rootgone \/ o.op = "rmroot")
    /\ lop' = IF Quiet THEN [op |-> o.op, o |-> o, desc |-> DescOf(fs', IF o.op = "rename" \/ o.op = "movein" THEN o.dst ELSE o.src)]
              ELSE NoLop
    /\ lout' = <<>>
    /\ UNCHANGED <<start, rec, batch, phase, view, out, alive, ann>>

\* delivery bookkeeping of the environment: `ann` = inode numbers whose CURRENT item has been delivered with ItemCreated
RECURSIVE Deliver(_, _, _, _)
Deliver(b, j, a, sticky) ==       \* <<batch with sticky ItemCreated flags, announced set afterwards>>
    IF j > Len(b) THEN <<b, a>>
    ELSE LET e == b[j]
             a0 == IF e.nw THEN a \ {e.i} ELSE a
             e2 == IF sticky /\ e.i \in a0 /\ e.i # 0 THEN [e EXCEPT !.fl = e.fl \cup {"Cr"}] ELSE e
             a1 == IF "Rm" \in e2.fl THEN a0 \ {e.i} ELSE IF "Cr" \in e2.fl THEN a0 \cup {e.i} ELSE a0
         IN Deliver([b EXCEPT ![j] = e2], j + 1, a1, sticky)

Callback(n, sticky) ==
    /\ batch = <<>> /\ n \in 1..Len(pend) /\ alive
    /\ (~SplitPairs /\ n < Len(pend)) => ~(pend[n].pr = "old")
    /\ sticky \in (IF StickyCreated THEN BOOLEAN ELSE {FALSE})
    /\ LET d == Deliver(SubSeq(pend, 1, n), 1, ann, sticky) IN batch' = d[1] /\ ann' = (IF StickyCreated THEN d[2] ELSE {})
    /\ pend' = SubSeq(pend, n + 1, Len(pend))
    /\ phase' = "coal"
    /\ UNCHANGED <<start, rec, fs, ino, nextid, nops, view, out, hot, lop, lout, alive, rootgone, freed>>

\* only events ADJACENT in the batch are merged (the position of a merged event relative to events between its parts
\* is not documented, so such merges are not generated)
Coalesce(i) ==
    /\ phase = "coal" /\ i < Len(batch)
    /\ batch[i].i = batch[i + 1].i /\ batch[i].p = batch[i + 1].p /\ batch[i].i # 0
    /\ ~batch[i + 1].nw                    \* an item that re-uses the inode number (at the same path) is another item
    /\ batch' = [m \in 1..(Len(batch) - 1) |->
                   IF m = i THEN [batch[i] EXCEPT !.fl = batch[i].fl \cup batch[i + 1].fl, !.pr = ""]
                   ELSE IF m < i THEN batch[m] ELSE batch[m + 1]]
    /\ UNCHANGED <<start, rec, fs, ino, nextid, nops, pend, phase, view, out, hot, lop, lout, alive, rootgone, freed, ann>>

\* ---- the emitter
DirMod(p) == Ev("modified", "d", Dirname(p), NONE, FALSE)
QCreated(e) == <<Ev("created", e.k, e.p, NONE, FALSE), DirMod(e.p)>>
QDeleted(e) == <<Ev("deleted", e.k, e.p, NONE, FALSE), DirMod(e.p)>>
QModified(e) == <<Ev("modified", e.k, e.p, NONE, FALSE)>>
QRenamed(e, d) == <<Ev("moved", e.k, e.p, d.p, FALSE), DirMod(e.p), DirMod(d.p)>>
KidsNow(p) == IF p = ROOT THEN <<>> ELSE SeqOfSet(Children(fs, p))
SubMoved(s, d) == LET ch == KidsNow(d) IN [j \in 1..Len(ch) |-> Ev("moved", fs[ch[j]], Rebase(ch[j], d, s), ch[j], TRUE)]
SubCreated(p) == LET ch == KidsNow(p) IN [j \in 1..Len(ch) |-> Ev("created", fs[ch[j]], ch[j], NONE, TRUE)]

\* _is_recursive_event / queue_event
IsRecursiveEvent(e) ==
    LET s == IF e.k = "d" THEN e.src ELSE Dirname(e.src) IN
    IF s = ROOT THEN FALSE
    ELSE IF e.ty = "moved" /\ Dirname(e.dst) = ROOT THEN FALSE
    ELSE TRUE
Filter(evs) == SelectSeq(evs, LAMBDA e : rec \/ ~IsRecursiveEvent(e))

Hd == batch[1]
Rest == Tail(batch)
Exists(e) == IF e.p = ROOT THEN ~rootgone /\ e.i = RootIno ELSE fs[e.p] # "n" /\ ino[e.p] = e.i     \* stat(path).st_ino == inode
Historic(e) == e.i \in view
Pre(e) == (IF "Cr" \in e.fl /\ ~Historic(e) THEN QCreated(e) ELSE <<>>) \o (IF "Mod" \in e.fl THEN QModified(e) ELSE <<>>)
DstIdx == {j \in 1..Len(Rest) : "Rn" \in Rest[j].fl /\ Rest[j].i = Hd.i}
FirstDst == CHOOSE j \in DstIdx : \A m \in DstIdx : j <= m
Without(s, j) == SubSeq(s, 1, j - 1) \o SubSeq(s, j + 1, Len(s))

Step(evs, newbatch, newview) ==
    /\ batch # <<>> /\ alive
    /\ phase' = "xlat"
    /\ batch' = newbatch /\ view' = newview
    /\ out' = out \o Filter(evs) /\ lout' = lout \o Filter(evs)
    /\ UNCHANGED <<start, rec, fs, ino, nextid, nops, pend, hot, lop, rootgone, freed, ann>>

T_CreatedRemoved ==
    /\ batch # <<>> /\ {"Cr", "Rm"} \subseteq Hd.fl /\ "Root" \notin Hd.fl
    /\ Step(Pre(Hd) \o QDeleted(Hd), Rest, IF ViewSkipInCreatedRemoved THEN view ELSE view \ {Hd.i}) /\ UNCHANGED alive
T_Plain ==
    /\ batch # <<>> /\ ~({"Cr", "Rm"} \subseteq Hd.fl) /\ "Rn" \notin Hd.fl /\ "Root" \notin Hd.fl
    /\ Step(Pre(Hd) \o (IF "Rm" \in Hd.fl THEN QDeleted(Hd) ELSE <<>>), Rest,
            IF "Rm" \in Hd.fl THEN view \ {Hd.i} ELSE view \cup {Hd.i})
    /\ UNCHANGED alive
T_RenamedPair ==
    /\ batch # <<>> /\ ~({"Cr", "Rm"} \subseteq Hd.fl) /\ "Rn" \in Hd.fl /\ "Root" \notin Hd.fl /\ DstIdx # {}
    /\ LET d == Rest[FirstDst] IN
       Step(Pre(Hd) \o QRenamed(Hd, d) \o SubMoved(Hd.p, d.p)
            \o (IF "Mod" \in d.fl THEN QModified(d) ELSE <<>>)
            \o (IF "Rm" \in d.fl THEN QDeleted(d) ELSE <<>>)
            \o (IF "Rm" \in Hd.fl THEN QDeleted(Hd) ELSE <<>>),
            Without(Rest, FirstDst),
            IF "Rm" \in d.fl \/ "Rm" \in Hd.fl THEN view \ {Hd.i} ELSE view \cup {Hd.i})
    /\ UNCHANGED alive
T_RenamedIn ==
    /\ batch # <<>> /\ ~({"Cr", "Rm"} \subseteq Hd.fl) /\ "Rn" \in Hd.fl /\ "Root" \notin Hd.fl /\ DstIdx = {} /\ Exists(Hd)
    /\ Step(Pre(Hd) \o QCreated(Hd) \o SubCreated(Hd.p) \o (IF "Rm" \in Hd.fl THEN QDeleted(Hd) ELSE <<>>), Rest,
            IF "Rm" \in Hd.fl THEN view \ {Hd.i} ELSE view \cup {Hd.i})
    /\ UNCHANGED alive
T_RenamedOut ==
    /\ batch # <<>> /\ ~({"Cr", "Rm"} \subseteq Hd.fl) /\ "Rn" \in Hd.fl /\ "Root" \notin Hd.fl /\ DstIdx = {} /\ ~Exists(Hd)
    /\ Step(Pre(Hd) \o QDeleted(Hd), Rest, view \ {Hd.i}) /\ UNCHANGED alive
T_RootChanged ==
    /\ batch # <<>> /\ "Root" \in Hd.fl
    /\ Step(<<Ev("deleted", "d", ROOT, NONE, FALSE)>>, Rest, {}) /\ alive' = FALSE

Translate == T_CreatedRemoved \/ T_Plain \/ T_RenamedPair \/ T_RenamedIn \/ T_RenamedOut \/ T_RootChanged
Next == \/ \E o \in Ops(fs) \cup (IF WithRoot THEN {RootOp} ELSE {}) : \E c \in freed \cup {nextid} : DoOp(o, c)
        \/ \E n \in 1..Len(pend) : \E sticky \in BOOLEAN : Callback(n, sticky)
        \/ \E i \in 1..Len(batch) : Coalesce(i)
        \/ Translate
Spec == Init /\ [][Next]_vars

\* ---- properties
Xlat_ReplicaMatches == Quiet => ReplicaOK(start, out, fs, rec)
PacedOp(name) == Quiet /\ lop.op = name
Xlat_RenameIsOneMovedEvent == (PacedOp("rename") /\ rec) => RenameOK(lop.o, lop.desc, lout)
VisibleP(p) == rec \/ Len(p) = 1
Xlat_MoveInOutIsCreatedDeleted ==
    /\ (PacedOp("movein") /\ VisibleP(lop.o.dst)) => MoveInOK(lop.o, lop.desc, lout, rec)
    /\ (PacedOp("moveout") /\ VisibleP(lop.o.src)) => MoveOutOK(lop.o, lout)
Deep(p) == p # NONE /\ p # UNK /\ Len(p) >= 2
FSEvents_NonRecursiveNothingBelowChildren == ~rec => \A j \in 1..Len(out) : ~Deep(out[j].src) /\ ~Deep(out[j].dst)
Xlat_RootRemovedStops == (Quiet /\ lop.op = "rmroot") => (~alive /\ \E j \in 1..Len(lout) : lout[j] = Ev("deleted", "d", ROOT, NONE, FALSE))
=============================================================================
