------------------------- MODULE SnapshotDiffTrace -------------------------
(* Level-P trace specification for C09 (DESIGN §3, §4.5, §6.3).                          *)
(* A trace is a batch of independent lines; every line is one evaluation of the REAL     *)
(* DirectorySnapshotDiff:                                                                *)
(*   ref, snap : the two snapshots as read back from the real DirectorySnapshot objects  *)
(*               (paths / inode / isdir / mtime / size), each a list of                  *)
(*               <<path, ino, dev, isdir, mtime, size>>                                  *)
(*   ig        : ignore_device                                                           *)
(*   d         : the eight lists of DirectorySnapshotDiff(ref, snap, ignore_device=ig)   *)
(*   r         : the eight lists of DirectorySnapshotDiff(snap, ref, ignore_device=ig)   *)
(*   exc       : "" or the text of the exception one of the two evaluations raised        *)
(* The monitors are the laws of C09 themselves (SnapshotDiff!LawXxx), evaluated on d (and *)
(* for the swap law, on d and r); the transcription SnapshotDiff!Diff is NOT consulted.  *)
(* A failing law is recorded in viol (line number and law bits); the line is consumed.   *)
(* Level I: lines whose lists differ from SnapshotDiff!Diff are only COUNTED (drift).    *)
EXTENDS TraceUtil

VARIABLES tid, l, viol,
          drift      \* Level I: number of lines on which the lists differ from the transcription SnapshotDiff!Diff
vars == <<tid, l, viol, drift>>

SD == INSTANCE SnapshotDiff WITH NonRootPaths <- {}, Inodes <- {}, Devs <- {}, Mtimes <- {}, Sizes <- {},
                                 MaxEntries <- 0, RootRecs <- {}, Deviation <- "none",
                                 ref <- 0, snap <- 0, ign <- FALSE, phase <- "", d <- 0, rv <- 0, bad <- {}

Tr == AllTraces[tid]
ASSUME InitRegs

ToFun(es) == [p \in {es[i][1] : i \in 1..Len(es)} |->
                 LET e == es[CHOOSE i \in 1..Len(es) : es[i][1] = p]
                 IN [ino |-> e[2], dev |-> e[3], isdir |-> e[4], mtime |-> e[5], size |-> e[6]]]
Pairs(s) == {<<s[i][1], s[i][2]>> : i \in 1..Len(s)}
ToSets(x) == [fc |-> SeqToSet(x.fc), fd |-> SeqToSet(x.fd), fm |-> SeqToSet(x.fm), fv |-> Pairs(x.fv),
              dc |-> SeqToSet(x.dc), dd |-> SeqToSet(x.dd), dm |-> SeqToSet(x.dm), dv |-> Pairs(x.dv)]
NoDup(s) == Cardinality(SeqToSet(s)) = Len(s)
\* "every entry appears in exactly one of the ... lists": no entry is listed twice
ExactlyOnce(x) == NoDup(x.fc \o x.dc) /\ NoDup(x.fd \o x.dd) /\ NoDup(x.fm \o x.dm) /\ NoDup(x.fv \o x.dv)

\* Bit mask of the laws that fail on line ln (bit k = the k-th name of LawNames, k from 0):
\*   P_C09_Consistent P_C09_Partition P_C09_Moved P_C09_Created P_C09_Deleted P_C09_Modified P_C09_Kinds
\*   P_C09_SelfEmpty P_C09_Swap P_C09_IgnoreDevice P_C09_Returns
\* (numbers, not names, are accumulated in viol: TLC wraps long tuples when printing and the verdict line must
\*  stay on one line; checks/c09.py decodes  line * 4096 + 2048 * reversed + mask.)
B(ok, k) == IF ok THEN 0 ELSE 2 ^ k
Mask(ln) ==
    LET R == ToFun(ln.ref)  S == ToFun(ln.snap)  ig == ln.ig
        D == ToSets(ln.d)   Rv == ToSets(ln.r)
        P_C09_Consistent   == SD!LawConsistent(R, S, ig, D)
        P_C09_Partition    == SD!LawPartition(R, S, ig, D)
        P_C09_Moved        == SD!LawMoved(R, S, ig, D)
        P_C09_Created      == SD!LawCreated(R, S, ig, D)
        P_C09_Deleted      == SD!LawDeleted(R, S, ig, D)
        P_C09_Modified     == SD!LawModified(R, S, ig, D)
        P_C09_Kinds        == SD!LawKinds(R, S, ig, D) /\ ExactlyOnce(ln.d)
        P_C09_SelfEmpty    == SD!LawSelfEmpty(R, S, ig, D)
        P_C09_Swap         == SD!LawSwap(D, Rv)
        P_C09_IgnoreDevice == SD!LawIgnoreDevice(R, S, ig, D)
        P_C09_Returns      == ln.exc = ""          \* the diff of a well-formed pair does not raise
    IN IF ~SD!Pre(R, S, ig) THEN 0
       ELSE IF ~P_C09_Returns THEN 2 ^ 10
       ELSE B(P_C09_Consistent, 0) + B(P_C09_Partition, 1) + B(P_C09_Moved, 2) + B(P_C09_Created, 3)
          + B(P_C09_Deleted, 4) + B(P_C09_Modified, 5) + B(P_C09_Kinds, 6) + B(P_C09_SelfEmpty, 7)
          + B(P_C09_Swap, 8) + B(P_C09_IgnoreDevice, 9)

\* both directions of the pair are judged: (ref, snap, d) and (snap, ref, r)
Rev(ln) == [ref |-> ln.snap, snap |-> ln.ref, ig |-> ln.ig, d |-> ln.r, r |-> ln.d, exc |-> ln.exc]

\* Level I (never a verdict): do the actual lists equal the transcription's?
Drifts(ln) == ln.exc = "" /\ (ToSets(ln.d) # SD!Diff(ToFun(ln.ref), ToFun(ln.snap), ln.ig)
                              \/ ToSets(ln.r) # SD!Diff(ToFun(ln.snap), ToFun(ln.ref), ln.ig))

Init == tid \in 1..NTraces /\ l = 1 /\ viol = {} /\ drift = 0

Line == /\ l <= Len(Tr) /\ l' = l + 1 /\ UNCHANGED tid
        /\ drift' = drift + (IF Drifts(Tr[l]) THEN 1 ELSE 0)
        /\ LET m1 == Mask(Tr[l])  m2 == Mask(Rev(Tr[l]))
               \* the drift count travels as one negative number added with the last line
               dr == IF l = Len(Tr) /\ drift' > 0 THEN {0 - drift'} ELSE {}
           IN viol' = IF Cardinality(viol) >= 3 THEN viol \cup dr
                      ELSE viol \cup dr \cup (IF m1 # 0 THEN {l * 4096 + m1} ELSE {})
                                       \cup (IF m2 # 0 THEN {l * 4096 + 2048 + m2} ELSE {})

Next == TLCGet(BIG + tid) = 0 /\ Line
Spec == Init /\ [][Next]_vars

Report == Progress(tid, l, Len(Tr), viol)
PostCond == Post
=============================================================================
