SPECIFICATION Spec
CONSTANTS
  MaxPat = 3
  FixEmptyDest = TRUE
CHECK_DEADLOCK FALSE
INVARIANT C15_AnyThenTyped
INVARIANT C15_CallsArePrefix
INVARIANT C15_BaseAlwaysDispatches
INVARIANT C15_PatternDecision
INVARIANT C15_RegexDecision
INVARIANT C15_IgnoredDirectoryNeverDispatched
