SPECIFICATION Spec
CONSTANTS
  NonRootPaths <- PathsFlat
  Inodes = {1, 2, 3}
  Devs = {1}
  Mtimes = {1, 2}
  Sizes = {1, 2}
  MaxEntries = 2
  RootRecs <- RootFixed
  Deviation = "none"
INVARIANT C09_Consistent
INVARIANT C09_Partition
INVARIANT C09_Moved
INVARIANT C09_Created
INVARIANT C09_Deleted
INVARIANT C09_Modified
INVARIANT C09_Kinds
INVARIANT C09_SelfEmpty
INVARIANT C09_Swap
INVARIANT C09_IgnoreDevice
CHECK_DEADLOCK FALSE
