SPECIFICATION Spec
CONSTANTS
  MaxOps = 2
  SplitPairs = TRUE
  LocalRenameSource = FALSE
  StaleStat = FALSE
  B2B = TRUE
  WithRoot = TRUE
INVARIANT Xlat_ReplicaMatches
INVARIANT Xlat_RenameIsOneMovedEvent
INVARIANT Xlat_MoveInOutIsCreatedDeleted
INVARIANT Xlat_RootRemovedStops
CHECK_DEADLOCK FALSE
