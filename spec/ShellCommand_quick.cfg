SPECIFICATION Spec
CONSTANTS
  MaxEv = 3
  WAIT = {TRUE, FALSE}
  DROP = {TRUE, FALSE}
  HonourDrop = TRUE
INVARIANT C18_NoOverlapWhenWaitOrDrop
INVARIANT C18_WaitMeansEnded
INVARIANT C18_WatcherSetExact
CHECK_DEADLOCK FALSE
