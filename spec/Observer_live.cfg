SPECIFICATION FairSpec
CONSTANTS
  Family = "lifecycle"
  MaxEm = 3
  EvPerEm = 1
  FixD3 = TRUE
  FixD10 = TRUE
  FixD12 = TRUE
  FixD17 = TRUE
  FixD18 = TRUE
  FixD20 = TRUE
PROPERTY C06_StopTerminates
