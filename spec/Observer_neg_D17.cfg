SPECIFICATION Spec
CONSTANTS
  Family = "stopfirst"
  MaxEm = 3
  EvPerEm = 2
  FixD3 = TRUE
  FixD10 = TRUE
  FixD12 = TRUE
  FixD17 = FALSE
  FixD18 = TRUE
  FixD20 = TRUE
INVARIANT C06_AllExitedAfterJoin
