----------------------------- MODULE ShellCommand -----------------------------
(* Implementation-shaped model of watchdog.tricks.ShellCommandTrick (C18).                 *)
(*   on_any_event (called by the ONE dispatcher thread only):                              *)
(*     if drop_during_process and is_process_running(): return                             *)
(*     self.process = Popen(command)                                                       *)
(*     if wait_for_process: self.process.wait()                                            *)
(*     else: pw = ProcessWatcher(process, None); _process_watchers.add(pw);                *)
(*           pw.callback = partial(_process_watchers.discard, pw); pw.start()              *)
(*   is_process_running: bool(_process_watchers or (process is not None and               *)
(*                                                  process.poll() is None))               *)
(* ProcessWatcher i: poll loop on child i; when it is gone: discard itself from the set.   *)
(* Commands end by themselves (Exit) at any time.  HonourDrop = FALSE is a negative        *)
(* control (drop_during_process ignored).                                                  *)
EXTENDS Naturals, FiniteSets, TLC

CONSTANTS MaxEv, WAIT, DROP, HonourDrop

P == 1..MaxEv

VARIABLES wait, drop, alive, nspawn, process, watchers, wpc, dpc, nEv, dropped
vars == <<wait, drop, alive, nspawn, process, watchers, wpc, dpc, nEv, dropped>>

Init == /\ wait \in WAIT /\ drop \in DROP /\ alive = {} /\ nspawn = 0 /\ process = 0 /\ watchers = {}
        /\ wpc = [i \in P |-> "none"] /\ dpc = "idle" /\ nEv = 0 /\ dropped = 0

D_Event == /\ dpc = "idle" /\ nEv < MaxEv /\ nEv' = nEv + 1
           /\ dpc' = IF drop /\ HonourDrop THEN "chk1" ELSE "spawn"
           /\ UNCHANGED <<wait, drop, alive, nspawn, process, watchers, wpc, dropped>>
\* `self._process_watchers or ...` : the set is read first
D_Chk1 == /\ dpc = "chk1"
          /\ IF watchers # {} THEN dpc' = "idle" /\ dropped' = dropped + 1 ELSE dpc' = "chk2" /\ UNCHANGED dropped
          /\ UNCHANGED <<wait, drop, alive, nspawn, process, watchers, wpc, nEv>>
\* `... (self.process is not None and self.process.poll() is None)`
D_Chk2 == /\ dpc = "chk2"
          /\ IF process # 0 /\ process \in alive THEN dpc' = "idle" /\ dropped' = dropped + 1
                                                 ELSE dpc' = "spawn" /\ UNCHANGED dropped
          /\ UNCHANGED <<wait, drop, alive, nspawn, process, watchers, wpc, nEv>>
D_Spawn == /\ dpc = "spawn"
           /\ nspawn' = nspawn + 1 /\ alive' = alive \cup {nspawn + 1} /\ process' = nspawn + 1
           /\ dpc' = IF wait THEN "waitp" ELSE "addw"
           /\ UNCHANGED <<wait, drop, watchers, wpc, nEv, dropped>>
D_Wait == /\ dpc = "waitp" /\ process \notin alive /\ dpc' = "idle"       \* self.process.wait()
          /\ UNCHANGED <<wait, drop, alive, nspawn, process, watchers, wpc, nEv, dropped>>
D_AddWatcher == /\ dpc = "addw" /\ watchers' = watchers \cup {process}
                /\ wpc' = [wpc EXCEPT ![process] = "new"] /\ dpc' = "startw"
                /\ UNCHANGED <<wait, drop, alive, nspawn, process, nEv, dropped>>
D_StartWatcher == /\ dpc = "startw" /\ wpc' = [wpc EXCEPT ![process] = "poll"] /\ dpc' = "idle"
                  /\ UNCHANGED <<wait, drop, alive, nspawn, process, watchers, nEv, dropped>>

W_Poll(i) == /\ wpc[i] = "poll"
             /\ wpc' = [wpc EXCEPT ![i] = IF i \in alive THEN "wait" ELSE "fin"]
             /\ UNCHANGED <<wait, drop, alive, nspawn, process, watchers, dpc, nEv, dropped>>
W_Wait(i) == /\ wpc[i] = "wait" /\ wpc' = [wpc EXCEPT ![i] = "poll"]      \* nobody ever stops these watchers
             /\ UNCHANGED <<wait, drop, alive, nspawn, process, watchers, dpc, nEv, dropped>>
W_Fin(i) == /\ wpc[i] = "fin" /\ watchers' = watchers \ {i} /\ wpc' = [wpc EXCEPT ![i] = "exit"]
            /\ UNCHANGED <<wait, drop, alive, nspawn, process, dpc, nEv, dropped>>

Exit(i) == /\ i \in alive /\ alive' = alive \ {i}
           /\ UNCHANGED <<wait, drop, nspawn, process, watchers, wpc, dpc, nEv, dropped>>

Next == D_Event \/ D_Chk1 \/ D_Chk2 \/ D_Spawn \/ D_Wait \/ D_AddWatcher \/ D_StartWatcher
        \/ \E i \in P : W_Poll(i) \/ W_Wait(i) \/ W_Fin(i) \/ Exit(i)
Spec == Init /\ [][Next]_vars

\* never two commands at the same time when asked to wait or to drop
C18_NoOverlapWhenWaitOrDrop == (wait \/ drop) => Cardinality(alive) <= 1
\* (not vacuous) without either option commands do overlap: NegOverlap must be violated
NegOverlap == Cardinality(alive) <= 1
\* when asked to wait, on_any_event returns only after its command has ended
C18_WaitMeansEnded == (wait /\ dpc = "idle") => alive = {}
\* a watcher stays registered exactly as long as it has not seen its command end
C18_WatcherSetExact == \A i \in P : (i \in watchers) <=> (wpc[i] \in {"new", "poll", "wait", "fin"})
=============================================================================
