SPECIFICATION Spec
CONSTANTS
  MaxOps = 2
  SplitPairs = FALSE
  RenameTwice = FALSE
  NonRecDirs = FALSE
  NonRecCross = TRUE
  B2B = TRUE
  WithRoot = TRUE
  InodeReuse = FALSE
  StickyCreated = FALSE
  ViewSkipInCreatedRemoved = FALSE
  RecModes = {FALSE}
INVARIANT FSEvents_NonRecursiveNothingBelowChildren
CHECK_DEADLOCK FALSE
