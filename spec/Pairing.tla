------------------------------- MODULE Pairing -------------------------------
(* InotifyBuffer: pairing of IN_MOVED_FROM / IN_MOVED_TO by cookie over the delay queue (C08).       *)
(*   reader (InotifyBuffer.run + _group_events):  read a batch; for each event of the batch, in        *)
(*       order: a MOVED_TO looks for its MOVED_FROM first among the events of the same batch grouped   *)
(*       so far, then in the delay queue (remove(matching_from)); then every grouped item is put:      *)
(*       IN_IGNORED is dropped, an unmatched MOVED_FROM is put with delay, everything else without.    *)
(*   consumer (InotifyEmitter via read_event):  DelayedQueue.get -- here the abstract delay queue of   *)
(*       C17 (DelayedQueue.tla checks the implementation of the queue itself).                        *)
(* The native sequence, how it is cut into read batches, the gaps on the virtual clock and the         *)
(* interleaving of reader and consumer are all chosen by TLC.                                          *)
EXTENDS Naturals, Sequences, FiniteSets, TLC

CONSTANTS MaxLen,     \* length of the native sequence
          Delay,      \* pairing delay (2)
          MaxTime, Gaps

\* native alphabet: [k, c]   k \in {"MF","MT","X","IG"}   c = cookie (0 for X / IG)
Alphabet == {[k |-> "MF", c |-> 1], [k |-> "MT", c |-> 1], [k |-> "MF", c |-> 2], [k |-> "MT", c |-> 2],
             [k |-> "X", c |-> 0], [k |-> "IG", c |-> 0]}

VARIABLES native,    \* the whole native sequence (chosen initially); elements get their index as identity
          nfed,      \* how many were read so far
          batch,     \* events of the current batch not yet grouped (indices into native)
          grouped,   \* grouped items of the current batch: [a |-> idx, b |-> idx or 0]
          dq,        \* delay queue: Seq([a, b, t, d])
          now,
          out,       \* delivered: Seq([a, b, at])
          fedAt,     \* index -> time the event was read
          procAt     \* index -> time the reader processed it (its group step)
vars == <<native, nfed, batch, grouped, dq, now, out, fedAt, procAt>>

Seqs(n) == UNION {[1..m -> Alphabet] : m \in 1..n}
\* a cookie is used by at most one MF and one MT, and the MT comes after the MF if both occur
WellFormed(s) == \A i, j \in 1..Len(s) : (i # j /\ s[i].c # 0 /\ s[i].c = s[j].c) =>
                     (s[i].k # s[j].k /\ (s[i].k = "MF" => i < j) /\ (s[i].k = "MT" => j < i))

Init == /\ native \in {s \in Seqs(MaxLen) : WellFormed(s)}
        /\ nfed = 0 /\ batch = << >> /\ grouped = << >> /\ dq = << >> /\ now = 0 /\ out = << >>
        /\ fedAt = [i \in 1..MaxLen |-> 0] /\ procAt = [i \in 1..MaxLen |-> 0]

K(i) == native[i].k
C(i) == native[i].c
Single(i) == [a |-> i, b |-> 0]
IsLoneMF(g) == g.b = 0 /\ K(g.a) = "MF"

\* read a batch of n events (every cut of the sequence into batches)
Read(n) == /\ batch = << >> /\ grouped = << >> /\ n \in 1..(Len(native) - nfed)
           /\ batch' = [i \in 1..n |-> nfed + i] /\ nfed' = nfed + n
           /\ fedAt' = [i \in 1..MaxLen |-> IF i \in (nfed + 1)..(nfed + n) THEN now ELSE fedAt[i]]
           /\ UNCHANGED <<native, grouped, dq, now, out, procAt>>

RemoveAt(s, i) == SubSeq(s, 1, i - 1) \o SubSeq(s, i + 1, Len(s))
\* _group_events, one event of the batch
GroupStep ==
    /\ batch # << >>
    /\ LET e == Head(batch) IN
       /\ batch' = Tail(batch)
       /\ IF K(e) = "MT"
          THEN LET ing == {j \in 1..Len(grouped) : IsLoneMF(grouped[j]) /\ C(grouped[j].a) = C(e)}
                   inq == {j \in 1..Len(dq) : dq[j].b = 0 /\ K(dq[j].a) = "MF" /\ C(dq[j].a) = C(e)} IN
               IF ing # {} THEN LET j == CHOOSE x \in ing : TRUE IN
                                grouped' = [grouped EXCEPT ![j] = [a |-> grouped[j].a, b |-> e]] /\ UNCHANGED dq
               ELSE IF inq # {} THEN LET j == CHOOSE x \in inq : TRUE IN
                                     grouped' = Append(grouped, [a |-> dq[j].a, b |-> e]) /\ dq' = RemoveAt(dq, j)
               ELSE grouped' = Append(grouped, Single(e)) /\ UNCHANGED dq
          ELSE grouped' = Append(grouped, Single(e)) /\ UNCHANGED dq
    /\ procAt' = [procAt EXCEPT ![Head(batch)] = now]
    /\ UNCHANGED <<native, nfed, now, out, fedAt>>
\* put the grouped items, one at a time
PutStep ==
    /\ batch = << >> /\ grouped # << >>
    /\ LET g == Head(grouped) IN
       /\ grouped' = Tail(grouped)
       /\ dq' = IF g.b = 0 /\ K(g.a) = "IG" THEN dq ELSE Append(dq, [a |-> g.a, b |-> g.b, t |-> now, d |-> IsLoneMF(g)])
    /\ UNCHANGED <<native, nfed, batch, now, out, fedAt, procAt>>
\* the consumer takes the head (abstract delay queue: a delayed element only after its delay)
Get == /\ dq # << >> /\ (dq[1].d => now >= dq[1].t + Delay)
       /\ out' = Append(out, [a |-> dq[1].a, b |-> dq[1].b, at |-> now]) /\ dq' = Tail(dq)
       /\ UNCHANGED <<native, nfed, batch, grouped, now, fedAt, procAt>>
Tick(g) == /\ now + g <= MaxTime /\ now' = now + g /\ UNCHANGED <<native, nfed, batch, grouped, dq, out, fedAt, procAt>>

Done == nfed = Len(native) /\ batch = << >> /\ grouped = << >> /\ dq = << >> /\ UNCHANGED vars
Next == (\E n \in 1..MaxLen : Read(n)) \/ GroupStep \/ PutStep \/ Get \/ (\E g \in Gaps : Tick(g)) \/ Done
Spec == Init /\ [][Next]_vars

\* ---------------------------------------------------------------------------- properties (C08)
Delivered == UNION {{out[i].a} \cup (IF out[i].b = 0 THEN {} ELSE {out[i].b}) : i \in 1..Len(out)}
\* every native event except the kernel's watch-removed markers is handed over at most once ...
C08_AtMostOnce == \A i, j \in 1..Len(out) : i # j => ({out[i].a, out[i].b} \cap {out[j].a, out[j].b}) \subseteq {0}
\* ... and, once everything is drained, exactly once
C08_ExactlyOnceWhenDrained == (nfed = Len(native) /\ batch = << >> /\ grouped = << >> /\ dq = << >>)
                                 => Delivered = {i \in 1..Len(native) : K(i) # "IG"}
\* in kernel order, a pair taking the slot of one of its halves: some choice of slots is strictly increasing
RECURSIVE Ordered(_, _)
Ordered(i, last) == IF i > Len(out) THEN TRUE
                    ELSE LET opts == {s \in {out[i].a, out[i].b} \ {0} : s > last} IN
                         opts # {} /\ Ordered(i + 1, CHOOSE s \in opts : \A z \in opts : s <= z)
C08_InKernelOrder == Ordered(1, 0)
\* pairs are real pairs: same cookie, from before to
C08_PairsAreCookieMates == \A i \in 1..Len(out) : out[i].b # 0 => (K(out[i].a) = "MF" /\ K(out[i].b) = "MT" /\ C(out[i].a) = C(out[i].b))
\* a first half that stays unmatched is delivered alone no earlier than the delay
C08_LoneFromNotEarly == \A i \in 1..Len(out) : (out[i].b = 0 /\ K(out[i].a) = "MF") => out[i].at >= fedAt[out[i].a] + Delay
\* the second half arrived -- was processed by the reader (DESIGN §7: "arrives in time" is defined at the reader's
\* group step, not at the kernel's enqueue time) -- before the first had been handed out => one pair
C08_PairIfInTime == \A i \in 1..Len(out) : (out[i].b = 0 /\ K(out[i].a) = "MT") =>
                       \A m \in 1..Len(native) : (K(m) = "MF" /\ C(m) = C(out[i].a) /\ m < out[i].a)
                           => \E j \in 1..Len(out) : j < i /\ out[j].a = m /\ out[j].b = 0 /\ out[j].at <= procAt[out[i].a]
=============================================================================
