SPECIFICATION Spec
CONSTANTS
  MaxOps = 2
  SplitPairs = FALSE
  RenameTwice = FALSE
  NonRecDirs = TRUE
  NonRecCross = FALSE
  B2B = TRUE
  WithRoot = TRUE
  RecModes = {FALSE}
INVARIANT Xlat_ReplicaMatches
CHECK_DEADLOCK FALSE
