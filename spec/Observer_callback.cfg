SPECIFICATION Spec
CONSTANTS
  Family = "callback"
  MaxEm = 3
  EvPerEm = 2
  FixD3 = TRUE
  FixD10 = TRUE
  FixD12 = TRUE
  FixD17 = TRUE
  FixD18 = TRUE
  FixD20 = TRUE
INVARIANT TypeOK
INVARIANT C04_OnlySnapshotOnce
INVARIANT C04_InQueueOrder
INVARIANT C05_NoCallAfterReturn
INVARIANT C13_RegistryIsMap
INVARIANT C13_NoStaleHandlers
INVARIANT C13_EveryScheduledWatchRuns
INVARIANT C06_AllExitedAfterJoin
PROPERTY C04_ExactlyOnce
PROPERTY C05_EmitterStoppedOnReturn
