------------------------- MODULE SkipRepeatsQueue -------------------------
(* Implementation-shaped model of watchdog.utils.bricks.SkipRepeatsQueue on top of      *)
(* queue.Queue (property C16).                                                          *)
(*   put():  `if self._last_item is None or item != self._last_item:` -- two reads of   *)
(*           _last_item WITHOUT the queue mutex -- then Queue.put: under the mutex      *)
(*           _put appends and sets _last_item := item.                                  *)
(*   get():  under the mutex _get pops the head and clears _last_item iff the popped    *)
(*           object *is* _last_item (identity).                                         *)
(* Items carry an identity (id) and a value (v): `!=` compares v, `is` compares id.     *)
EXTENDS Naturals, Sequences, FiniteSets, TLC, SequencesExt

CONSTANTS Producers,      \* set of producer threads
          Vals,           \* item values
          MaxPuts,        \* puts per producer
          MaxGets         \* number of get attempts of the single consumer

None == [id |-> 0, v |-> 0]

VARIABLES q,        \* the deque inside queue.Queue
          last,     \* _last_item
          pc,       \* pc[p] \in {"idle","read2","enq","done"}
          cur,      \* cur[p]: item being put
          nput,     \* nput[p]: puts started so far
          nextId,
          ngets,    \* gets attempted
          enq,      \* history: every item appended, in order
          got,      \* history: what the consumer obtained, in order ("empty" marks excluded)
          dropped,  \* history: set of [it, tail] : item dropped because it equalled `tail`
          offered   \* history: per producer, sequence of items offered

vars == <<q, last, pc, cur, nput, nextId, ngets, enq, got, dropped, offered>>

Init == /\ q = <<>> /\ last = None
        /\ pc = [p \in Producers |-> "idle"]
        /\ cur = [p \in Producers |-> None]
        /\ nput = [p \in Producers |-> 0]
        /\ nextId = 1 /\ ngets = 0
        /\ enq = <<>> /\ got = <<>> /\ dropped = {}
        /\ offered = [p \in Producers |-> <<>>]

\* put(): first read of _last_item  (`self._last_item is None`)
PutRead1(p, v) ==
    /\ pc[p] = "idle" /\ nput[p] < MaxPuts
    /\ LET it == [id |-> nextId, v |-> v] IN
       /\ cur' = [cur EXCEPT ![p] = it]
       /\ offered' = [offered EXCEPT ![p] = Append(@, it)]
       /\ nextId' = nextId + 1
       /\ nput' = [nput EXCEPT ![p] = @ + 1]
       /\ pc' = [pc EXCEPT ![p] = IF last = None THEN "enq" ELSE "read2"]
    /\ UNCHANGED <<q, last, ngets, enq, got, dropped>>

\* put(): second read (`item != self._last_item`); _last_item may have changed in between
PutRead2(p) ==
    /\ pc[p] = "read2"
    /\ IF last = None \/ cur[p].v # last.v
       THEN pc' = [pc EXCEPT ![p] = "enq"] /\ UNCHANGED dropped
       ELSE /\ pc' = [pc EXCEPT ![p] = "idle"]
            /\ dropped' = dropped \cup {[it |-> cur[p], tail |-> last, intail |-> (q # <<>> /\ q[Len(q)] = last)]}
    /\ UNCHANGED <<q, last, cur, nput, nextId, ngets, enq, got, offered>>

\* Queue.put under the mutex: _put(item); (one atomic critical section)
PutEnq(p) ==
    /\ pc[p] = "enq"
    /\ q' = Append(q, cur[p]) /\ last' = cur[p] /\ enq' = Append(enq, cur[p])
    /\ pc' = [pc EXCEPT ![p] = "idle"]
    /\ UNCHANGED <<cur, nput, nextId, ngets, got, dropped, offered>>

\* Queue.get(block=False) under the mutex
Get ==
    /\ ngets < MaxGets
    /\ ngets' = ngets + 1
    /\ IF q = <<>> THEN UNCHANGED <<q, last, got>>
       ELSE /\ q' = Tail(q) /\ got' = Append(got, Head(q))
            /\ last' = IF Head(q).id = last.id THEN None ELSE last
    /\ UNCHANGED <<pc, cur, nput, nextId, enq, dropped, offered>>

Done == /\ \A p \in Producers : pc[p] = "idle" /\ nput[p] = MaxPuts
        /\ ngets = MaxGets
        /\ UNCHANGED vars

Next == \/ \E p \in Producers, v \in Vals : PutRead1(p, v)
        \/ \E p \in Producers : PutRead2(p) \/ PutEnq(p)
        \/ Get
        \/ Done

Spec == Init /\ [][Next]_vars

---------------------------------------------------------------------------
\* Properties (C16)

\* the mechanism: _last_item is either None or the still-unconsumed tail
LastIsTail == last # None => (q # <<>> /\ q[Len(q)] = last)

\* FIFO, nothing lost once enqueued: what was obtained is a prefix of what was appended, the rest is still queued
C16_FIFO == enq = got \o q

\* an item is lost only if it equalled the item enqueued immediately before it while that one was still waiting
C16_NoLossExceptDup == \A d \in dropped : d.it.v = d.tail.v /\ d.intail

\* every offered item is either appended, dropped (as above), or still in flight; per-producer order is kept
InFlight == {cur[p] : p \in {x \in Producers : pc[x] \in {"read2", "enq"}}}
C16_Accounted ==
    \A p \in Producers : \A i \in 1..Len(offered[p]) :
        LET it == offered[p][i] IN
        \/ \E j \in 1..Len(enq) : enq[j] = it
        \/ \E d \in dropped : d.it = it
        \/ it \in InFlight
C16_ProducerOrder ==
    \A p \in Producers : \A i, j \in 1..Len(offered[p]) : i < j =>
        \A a, b \in 1..Len(enq) : (enq[a] = offered[p][i] /\ enq[b] = offered[p][j]) => a < b

\* once the equal item has been taken out an equal item is accepted again: sequentially (no put in flight),
\* a put that starts when the tail of the queue differs from it (or the queue is empty) is never dropped
C16_AcceptAfterGet == (\A p \in Producers : pc[p] = "idle") => (q = <<>> => last = None)
=============================================================================
