SPECIFICATION Spec
CONSTANTS
  Names = {"r", "x", "y"}
  NameSeq <- NS3
  MaxDepth = 4
  MaxNodes = 4
  Pairs <- PairsQuick
  Roots <- RootsAll
CHECK_DEADLOCK FALSE
INVARIANT Neg_TextualIsPrefixRewrite
