SPECIFICATION Spec
CONSTANTS
  Intervals = {0, 2}
  MaxEv = 5
  MaxTime = 11
  Gaps = {1, 2, 3}
  FixD8 = TRUE
INVARIANT C18_ExactlyOnceInOrderBatched
INVARIANT C18_NoEmptyBatch
INVARIANT C18_DeliveredWhenQuiet
INVARIANT C18_NotEarly
PROPERTY C18_NoDeliveryAfterStop
CHECK_DEADLOCK FALSE
