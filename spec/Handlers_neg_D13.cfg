SPECIFICATION Spec
CONSTANTS
  MaxPat = 2
  FixD13 = FALSE
  StrictPaths = TRUE
CHECK_DEADLOCK FALSE
INVARIANT C15_RegexDecision
