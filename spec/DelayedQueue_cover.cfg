SPECIFICATION Spec
CONSTANTS
  Delay = 2
  MaxOps = 3
  MaxTime = 4
  Gaps = {1, 2}
INVARIANT NoCrash
CHECK_DEADLOCK FALSE
