------------------------------- MODULE Observer -------------------------------
(* Implementation-shaped model of watchdog.observers.api.BaseObserver (C04, C05, C06, C13).          *)
(*   registry   _watches, _handlers, _emitters, _emitter_for_watch under one re-entrant lock          *)
(*   emitters   one thread per watch:  while should_keep_running(): queue_events()                    *)
(*   dispatcher observer thread: get entry; with lock: for h in copy(handlers[w]): if h still          *)
(*              registered: h.dispatch(event)  -- callbacks may call the API re-entrantly              *)
(*   API calls  from application threads and from callbacks, each as its real sequence of steps:       *)
(*              (stop: set flag) acquire / body / (join emitters, lock held) / release / (stop: sentinel)*)
(* The three defects repaired by fix: commits are kept as switches so that TLC can show what they      *)
(* were (set a switch to FALSE and the corresponding invariant fails):                                 *)
(*   FixD3  schedule() registers the handler only after the emitter was created and started            *)
(*   FixD10 start() holds the observer lock                                                            *)
(*   FixD12 schedule() does not start an emitter once stop() was requested                             *)
(*   FixD17 start() does not start the emitters once stop() was requested                              *)
(*   FixD18 a repeated start() raises before it touches the emitters                                   *)
(*   FixD20 a retried start() skips the emitters an earlier, failed start() had already started        *)
EXTENDS Naturals, Sequences, FiniteSets, TLC

CONSTANTS Family,          \* name of the client-program family (see Programs)
          MaxEm,           \* emitter ids 1..MaxEm
          EvPerEm,         \* events each emitter produces
          FixD3, FixD10, FixD12, FixD17, FixD18, FixD20

Watches == {1, 2}
Handlers == {1, 2, 3}
Apps == {"a1", "a2"}
Threads == Apps \cup {"disp"}
EmIds == 1..MaxEm
Sentinel == [ev |-> 0, w |-> 0]
NoOp == [op |-> "none", h |-> 0, w |-> 0]
NoCall == [c |-> NoOp, ph |-> "idle", js |-> {}, ok |-> TRUE]

Op(o, h, w) == [op |-> o, h |-> h, w |-> w]

\* client programs per application thread, callback scripts (handler -> k-th call -> ops), failing emitter starts
Programs ==
  CASE Family = "startrace" -> [a1 |-> <<Op("schedule", 1, 1), Op("start", 0, 0)>>, a2 |-> <<Op("schedule", 2, 2)>>]
    [] Family = "dispatch"  -> [a1 |-> <<Op("schedule", 1, 1), Op("schedule", 2, 1), Op("start", 0, 0), Op("stop", 0, 0), Op("join", 0, 0)>>,
                                a2 |-> <<Op("schedule", 3, 1), Op("remove", 3, 1), Op("unschedule", 0, 1)>>]
    [] Family = "callback"  -> [a1 |-> <<Op("schedule", 1, 1), Op("schedule", 2, 1), Op("start", 0, 0), Op("stop", 0, 0), Op("join", 0, 0)>>,
                                a2 |-> <<Op("schedule", 2, 2), Op("remove", 2, 2)>>]
    [] Family = "lifecycle" -> [a1 |-> <<Op("schedule", 1, 1), Op("start", 0, 0), Op("stop", 0, 0), Op("join", 0, 0)>>,
                                a2 |-> <<Op("schedule", 2, 2), Op("unschedule_all", 0, 0), Op("stop", 0, 0)>>]
    [] Family = "stoprace"  -> [a1 |-> <<Op("schedule", 1, 1), Op("start", 0, 0), Op("stop", 0, 0), Op("join", 0, 0)>>,
                                a2 |-> <<Op("schedule", 2, 2)>>]
    [] Family = "stopfirst" -> [a1 |-> <<Op("schedule", 1, 1), Op("start", 0, 0), Op("join", 0, 0)>>, a2 |-> <<Op("stop", 0, 0)>>]
    [] Family = "doublestart" -> [a1 |-> <<Op("schedule", 1, 1), Op("start", 0, 0), Op("start", 0, 0), Op("stop", 0, 0), Op("join", 0, 0)>>,
                                  a2 |-> <<Op("schedule", 2, 2), Op("start", 0, 0)>>]
    [] Family = "partialstart" -> [a1 |-> <<Op("schedule", 2, 2), Op("schedule", 1, 1), Op("start", 0, 0), Op("start", 0, 0), Op("stop", 0, 0), Op("join", 0, 0)>>,
                                   a2 |-> << >>]
    [] Family = "failing"   -> [a1 |-> <<Op("start", 0, 0), Op("schedule", 1, 1), Op("schedule", 2, 1), Op("stop", 0, 0), Op("join", 0, 0)>>,
                                a2 |-> << >>]
    [] OTHER -> [a1 |-> << >>, a2 |-> << >>]
Scripts ==   \* <<handler, k>> :> ops executed inside that handler's k-th callback
  CASE Family = "callback" -> (<<1, 1>> :> <<Op("unschedule", 0, 1)>>) @@ (<<2, 2>> :> <<Op("remove", 1, 1), Op("schedule", 3, 1)>>)
    [] Family = "lifecycle" -> (<<1, 1>> :> <<Op("stop", 0, 0)>>)
    [] OTHER -> << >>
FailStartInit == IF Family \in {"failing", "partialstart"} THEN {1} ELSE {}

VARIABLES lockOwner, lockDepth,
          watches, handlers, emitterFor, emitters,     \* the registry
          em,            \* emitter id -> [w, st, flag, left, pc]   st: "none","created","running","exited"
          nextEm, failStart,
          obs, stopFlag, evq,
          dpc, dcur, dleft, dcount,                    \* dispatcher: pc, current entry, handlers left in the copy, calls per handler
          cbq,                                         \* ops still to run inside the current callback
          apc, cs,                                     \* per thread: program counter, current API call
          \* history variables for the properties
          qlog, dlog, banned, snap, lastFailed
vars == <<lockOwner, lockDepth, watches, handlers, emitterFor, emitters, em, nextEm, failStart, obs, stopFlag, evq,
          dpc, dcur, dleft, dcount, cbq, apc, cs, qlog, dlog, banned, snap, lastFailed>>

NoEm == [w |-> 0, st |-> "none", flag |-> FALSE, left |-> 0, pc |-> "check"]

Init == /\ lockOwner = "none" /\ lockDepth = 0
        /\ watches = {} /\ handlers = [w \in Watches |-> {}] /\ emitterFor = [w \in Watches |-> 0] /\ emitters = {}
        /\ em = [e \in EmIds |-> NoEm] /\ nextEm = 1 /\ failStart = FailStartInit
        /\ obs = "new" /\ stopFlag = FALSE /\ evq = << >>
        /\ dpc = "loop" /\ dcur = Sentinel /\ dleft = {} /\ dcount = [h \in Handlers |-> 0] /\ cbq = << >>
        /\ apc = [t \in Apps |-> 1] /\ cs = [t \in Threads |-> NoCall]
        /\ qlog = << >> /\ dlog = << >> /\ banned = {} /\ snap = {} /\ lastFailed = {}

-----------------------------------------------------------------------------
\* the re-entrant lock
CanAcquire(t) == lockOwner = "none" \/ lockOwner = t
Acquire(t) == /\ lockOwner' = t /\ lockDepth' = lockDepth + 1
Release(t) == /\ lockDepth' = lockDepth - 1 /\ lockOwner' = IF lockDepth = 1 THEN "none" ELSE t

Alive == obs = "alive"
StopEm(S) == [e \in EmIds |-> IF e \in S THEN [em[e] EXCEPT !.flag = TRUE] ELSE em[e]]
Joinable(S) == {e \in S : em[e].st = "running"}          \* join() of a never-started thread raises and is suppressed
PairsOf(w) == {<<h, w>> : h \in handlers[w]}
AllPairs == UNION {PairsOf(w) : w \in Watches}

\* the next operation of thread t (application program or callback script)
NextOp(t) == IF t = "disp" THEN Head(cbq) ELSE Programs[t][apc[t]]
HasOp(t) == IF t = "disp" THEN (dpc = "incb" /\ cbq # << >>) ELSE apc[t] <= Len(Programs[t])
Advance(t) == IF t = "disp" THEN cbq' = Tail(cbq) /\ UNCHANGED apc
              ELSE apc' = [apc EXCEPT ![t] = @ + 1] /\ UNCHANGED cbq

\* ---- step 1: begin a call.  stop() sets the stop flag before taking the lock; join() takes no lock at all.
Begin(t) ==
    /\ HasOp(t) /\ cs[t].ph = "idle"
    /\ LET c == NextOp(t) IN
       /\ cs' = [cs EXCEPT ![t] = [c |-> c, ph |-> IF c.op = "join" THEN "joinobs" ELSE "acq", js |-> {}, ok |-> TRUE]]
       /\ stopFlag' = (stopFlag \/ c.op = "stop")
       \* a registering call lifts the ban on its pair when it is called (C05 rule)
       /\ banned' = IF c.op \in {"schedule", "add"} THEN banned \ {<<c.h, c.w>>} ELSE banned
    /\ UNCHANGED <<lockOwner, lockDepth, watches, handlers, emitterFor, emitters, em, nextEm, failStart, obs, evq,
                   dpc, dcur, dleft, dcount, cbq, apc, qlog, dlog, snap, lastFailed>>

\* ---- step 2: take the lock (start() without FixD10 does not)
Acq(t) ==
    /\ cs[t].ph = "acq"
    /\ IF cs[t].c.op = "start" /\ ~FixD10
       THEN UNCHANGED <<lockOwner, lockDepth>>
       ELSE CanAcquire(t) /\ Acquire(t)
    /\ cs' = [cs EXCEPT ![t].ph = "body"]
    /\ UNCHANGED <<watches, handlers, emitterFor, emitters, em, nextEm, failStart, obs, stopFlag, evq,
                   dpc, dcur, dleft, dcount, cbq, apc, qlog, dlog, banned, snap, lastFailed>>

\* ---- step 3: the body, one critical section
Body(t) ==
    /\ cs[t].ph = "body"
    /\ LET c == cs[t].c IN
       CASE c.op = "schedule" ->
              IF emitterFor[c.w] # 0
              THEN \* the watch has an emitter already: just add the handler
                   /\ handlers' = [handlers EXCEPT ![c.w] = @ \cup {c.h}] /\ watches' = watches \cup {c.w}
                   /\ cs' = [cs EXCEPT ![t].ph = "rel"]
                   /\ UNCHANGED <<emitterFor, emitters, em, nextEm, failStart, obs, lastFailed>>
              ELSE LET e == nextEm
                       startIt == Alive /\ (FixD12 => ~stopFlag)
                       fails == startIt /\ c.w \in failStart IN
                   /\ nextEm' = nextEm + 1
                   /\ IF fails
                      THEN \* emitter.start() raised: schedule() raises
                           /\ failStart' = failStart \ {c.w}
                           /\ handlers' = IF FixD3 THEN handlers ELSE [handlers EXCEPT ![c.w] = @ \cup {c.h}]
                           /\ cs' = [cs EXCEPT ![t].ph = "rel", ![t].ok = FALSE]
                           /\ lastFailed' = lastFailed \cup {<<c.h, c.w>>}
                           /\ UNCHANGED <<emitterFor, emitters, em, watches>>
                      ELSE /\ em' = [em EXCEPT ![e] = [w |-> c.w, st |-> IF startIt THEN "running" ELSE "created",
                                                       flag |-> FALSE, left |-> EvPerEm, pc |-> "check"]]
                           /\ emitterFor' = [emitterFor EXCEPT ![c.w] = e] /\ emitters' = emitters \cup {e}
                           /\ handlers' = [handlers EXCEPT ![c.w] = @ \cup {c.h}] /\ watches' = watches \cup {c.w}
                           /\ cs' = [cs EXCEPT ![t].ph = "rel"]
                           /\ lastFailed' = lastFailed \ {<<c.h, c.w>>}
                           /\ UNCHANGED failStart
                   /\ UNCHANGED obs
         [] c.op = "add" ->
              /\ handlers' = [handlers EXCEPT ![c.w] = @ \cup {c.h}]
              /\ cs' = [cs EXCEPT ![t].ph = "rel"]
              /\ UNCHANGED <<watches, emitterFor, emitters, em, nextEm, failStart, obs, lastFailed>>
         [] c.op = "remove" ->
              /\ IF c.h \in handlers[c.w]
                 THEN handlers' = [handlers EXCEPT ![c.w] = @ \ {c.h}] /\ cs' = [cs EXCEPT ![t].ph = "rel", ![t].js = {}]
                 ELSE UNCHANGED handlers /\ cs' = [cs EXCEPT ![t].ph = "rel", ![t].ok = FALSE]     \* KeyError
              /\ UNCHANGED <<watches, emitterFor, emitters, em, nextEm, failStart, obs, lastFailed>>
         [] c.op = "unschedule" ->
              IF emitterFor[c.w] = 0
              THEN /\ cs' = [cs EXCEPT ![t].ph = "rel", ![t].ok = FALSE]                            \* KeyError
                   /\ UNCHANGED <<watches, handlers, emitterFor, emitters, em, nextEm, failStart, obs, lastFailed>>
              ELSE LET e == emitterFor[c.w] IN
                   /\ handlers' = [handlers EXCEPT ![c.w] = {}]
                   /\ emitterFor' = [emitterFor EXCEPT ![c.w] = 0] /\ emitters' = emitters \ {e}
                   /\ em' = StopEm({e})
                   /\ watches' = watches \ {c.w}
                   /\ cs' = [cs EXCEPT ![t].ph = "join", ![t].js = Joinable({e})]
                   /\ UNCHANGED <<nextEm, failStart, obs, lastFailed>>
         [] c.op \in {"unschedule_all", "stop"} ->
              /\ handlers' = [w \in Watches |-> {}]
              /\ em' = StopEm(emitters)
              /\ emitterFor' = [w \in Watches |-> 0] /\ emitters' = {} /\ watches' = {}
              /\ cs' = [cs EXCEPT ![t].ph = "join", ![t].js = Joinable(emitters)]
              /\ UNCHANGED <<nextEm, failStart, obs, lastFailed>>
         [] c.op = "start" ->
              \* emitter starts (a failing one is removed and start() raises), then the observer thread
              IF obs # "new"
              THEN \* threads can only be started once.  Without FixD18 the emitters were started again first: the first
                   \* one that had been started before raised, was removed (stopped, joined) and start() raised
                   LET again == {e \in emitters : em[e].st \in {"running", "exited"}} IN
                   IF ~FixD18 /\ ~stopFlag /\ again # {}
                   THEN LET e == CHOOSE x \in again : \A y \in again : x <= y IN
                        /\ emitterFor' = [emitterFor EXCEPT ![em[e].w] = 0] /\ emitters' = emitters \ {e}
                        /\ em' = StopEm({e})
                        /\ cs' = [cs EXCEPT ![t].ph = "join", ![t].js = Joinable({e}), ![t].ok = FALSE]
                        /\ UNCHANGED <<watches, handlers, nextEm, failStart, obs, lastFailed>>
                   ELSE /\ cs' = [cs EXCEPT ![t].ph = "rel", ![t].ok = FALSE]
                        /\ UNCHANGED <<watches, handlers, emitterFor, emitters, em, nextEm, failStart, obs, lastFailed>>
              ELSE \* the emitters are started in the order the set iterates (their numbers here).  Trouble: one that cannot be
                   \* started (injected) - or, without FixD20, one that an earlier, failed start() had started already
                   \* (RuntimeError).  The troublesome one is removed and start() raises; those before it were started.
                   LET go == FixD17 => ~stopFlag
                       bad == {e \in emitters : em[e].st = "created" /\ em[e].w \in failStart}
                       again == IF FixD20 THEN {} ELSE {e \in emitters : em[e].st \in {"running", "exited"}}
                       trouble == IF go THEN bad \cup again ELSE {} IN
                   IF trouble # {}
                   THEN LET e == CHOOSE x \in trouble : \A y \in trouble : x <= y IN
                        /\ failStart' = IF e \in bad THEN failStart \ {em[e].w} ELSE failStart
                        /\ emitterFor' = [emitterFor EXCEPT ![em[e].w] = 0] /\ emitters' = emitters \ {e}
                        /\ em' = [x \in EmIds |-> IF x = e THEN [em[e] EXCEPT !.flag = TRUE]
                                                  ELSE IF x \in emitters /\ x < e /\ em[x].st = "created" THEN [em[x] EXCEPT !.st = "running"]
                                                  ELSE em[x]]
                        /\ cs' = [cs EXCEPT ![t].ph = IF e \in bad THEN "rel" ELSE "join", ![t].js = IF e \in bad THEN {} ELSE Joinable({e}),
                                            ![t].ok = FALSE]
                        /\ UNCHANGED <<watches, handlers, nextEm, obs, lastFailed>>
                   ELSE /\ em' = [e \in EmIds |-> IF e \in emitters /\ em[e].st = "created" /\ go
                                                    THEN [em[e] EXCEPT !.st = "running"] ELSE em[e]]
                        /\ cs' = [cs EXCEPT ![t].ph = IF FixD10 THEN "startobs" ELSE "startgap"]
                        /\ UNCHANGED <<watches, handlers, emitterFor, emitters, nextEm, failStart, obs, lastFailed>>
         [] OTHER -> FALSE
    /\ UNCHANGED <<lockOwner, lockDepth, stopFlag, evq, dpc, dcur, dleft, dcount, cbq, apc, qlog, dlog, banned, snap>>

\* start(): the observer thread itself (with ~FixD10 there is a window between the emitter copy and this step)
StartGap(t) == /\ cs[t].ph = "startgap" /\ cs' = [cs EXCEPT ![t].ph = "startobs"]
               /\ UNCHANGED <<lockOwner, lockDepth, watches, handlers, emitterFor, emitters, em, nextEm, failStart, obs, stopFlag, evq,
                              dpc, dcur, dleft, dcount, cbq, apc, qlog, dlog, banned, snap, lastFailed>>
StartObs(t) == /\ cs[t].ph = "startobs" /\ obs' = "alive" /\ cs' = [cs EXCEPT ![t].ph = "rel"]
               /\ UNCHANGED <<lockOwner, lockDepth, watches, handlers, emitterFor, emitters, em, nextEm, failStart, stopFlag, evq,
                              dpc, dcur, dleft, dcount, cbq, apc, qlog, dlog, banned, snap, lastFailed>>

\* ---- step 4: emitter.join() with the lock held
Join(t) == /\ cs[t].ph = "join"
           /\ \A e \in cs[t].js : em[e].st = "exited"
           /\ cs' = [cs EXCEPT ![t].ph = "rel"]
           /\ UNCHANGED <<lockOwner, lockDepth, watches, handlers, emitterFor, emitters, em, nextEm, failStart, obs, stopFlag, evq,
                          dpc, dcur, dleft, dcount, cbq, apc, qlog, dlog, banned, snap, lastFailed>>

\* ---- step 5: release; the call returns (stop() still has to enqueue the sentinel).  C05 bans take effect here.
Removed(c, before) == CASE c.op = "remove" -> {<<c.h, c.w>>}
                        [] c.op = "unschedule" -> {<<h, c.w>> : h \in Handlers}
                        [] c.op \in {"unschedule_all", "stop"} -> Handlers \X Watches
                        [] OTHER -> {}
PendingReg == {<<cs[t].c.h, cs[t].c.w>> : t \in {x \in Threads : cs[x].ph # "idle" /\ cs[x].c.op \in {"schedule", "add"}}}
Rel(t) ==
    /\ cs[t].ph = "rel"
    /\ IF cs[t].c.op = "start" /\ ~FixD10 THEN UNCHANGED <<lockOwner, lockDepth>> ELSE Release(t)
    /\ IF cs[t].c.op = "stop"
       THEN cs' = [cs EXCEPT ![t].ph = "sentinel"] /\ UNCHANGED <<apc, cbq>>
       ELSE cs' = [cs EXCEPT ![t] = NoCall] /\ Advance(t)
    /\ banned' = IF cs[t].ok THEN banned \cup (Removed(cs[t].c, handlers) \ PendingReg) ELSE banned
    /\ UNCHANGED <<watches, handlers, emitterFor, emitters, em, nextEm, failStart, obs, stopFlag, evq,
                   dpc, dcur, dleft, dcount, qlog, dlog, snap, lastFailed>>
PutSentinel(t) ==
    \* the event queue skips an item equal to the last one put while that one is still queued (SkipRepeatsQueue):
    \* a second stop() adds no second sentinel behind an unconsumed one (found by the spec -> code replay)
    /\ cs[t].ph = "sentinel"
    /\ evq' = IF evq # << >> /\ evq[Len(evq)] = Sentinel THEN evq ELSE Append(evq, Sentinel)
    /\ cs' = [cs EXCEPT ![t] = NoCall] /\ Advance(t)
    /\ UNCHANGED <<lockOwner, lockDepth, watches, handlers, emitterFor, emitters, em, nextEm, failStart, obs, stopFlag,
                   dpc, dcur, dleft, dcount, qlog, dlog, banned, snap, lastFailed>>
\* join(): no lock; RuntimeError if the thread was never started or when called by the observer thread itself
JoinObs(t) ==
    /\ cs[t].ph = "joinobs"
    /\ (obs = "exited" \/ obs = "new" \/ t = "disp")
    /\ cs' = [cs EXCEPT ![t] = NoCall] /\ Advance(t)
    /\ UNCHANGED <<lockOwner, lockDepth, watches, handlers, emitterFor, emitters, em, nextEm, failStart, obs, stopFlag, evq,
                   dpc, dcur, dleft, dcount, qlog, dlog, banned, snap, lastFailed>>

Call(t) == Begin(t) \/ Acq(t) \/ Body(t) \/ StartGap(t) \/ StartObs(t) \/ Join(t) \/ Rel(t) \/ PutSentinel(t) \/ JoinObs(t)

-----------------------------------------------------------------------------
\* emitter threads:  while should_keep_running(): queue_events()
ECheck(e) == /\ em[e].st = "running" /\ em[e].pc = "check"
             /\ em' = [em EXCEPT ![e] = IF em[e].flag THEN [@ EXCEPT !.st = "exited"]
                                        ELSE IF em[e].left > 0 THEN [@ EXCEPT !.pc = "emit"] ELSE @]
             /\ (em[e].flag \/ em[e].left > 0)            \* with nothing left the emitter blocks until stopped
             /\ UNCHANGED <<lockOwner, lockDepth, watches, handlers, emitterFor, emitters, nextEm, failStart, obs, stopFlag, evq,
                            dpc, dcur, dleft, dcount, cbq, apc, cs, qlog, dlog, banned, snap, lastFailed>>
EQueue(e) == /\ em[e].st = "running" /\ em[e].pc = "emit"
             /\ LET ev == [ev |-> e * 10 + (EvPerEm - em[e].left) + 1, w |-> em[e].w] IN
                evq' = Append(evq, ev) /\ qlog' = Append(qlog, ev)
             /\ em' = [em EXCEPT ![e].left = @ - 1, ![e].pc = "check"]
             /\ UNCHANGED <<lockOwner, lockDepth, watches, handlers, emitterFor, emitters, nextEm, failStart, obs, stopFlag,
                            dpc, dcur, dleft, dcount, cbq, apc, cs, dlog, banned, snap, lastFailed>>

-----------------------------------------------------------------------------
\* the dispatcher (observer thread)
DLoop == /\ Alive /\ dpc = "loop"
         /\ IF stopFlag THEN obs' = "exited" /\ UNCHANGED dpc ELSE dpc' = "get" /\ UNCHANGED obs
         /\ UNCHANGED <<lockOwner, lockDepth, watches, handlers, emitterFor, emitters, em, nextEm, failStart, stopFlag, evq,
                        dcur, dleft, dcount, cbq, apc, cs, qlog, dlog, banned, snap, lastFailed>>
DGet == /\ Alive /\ dpc = "get" /\ evq # << >>
        /\ evq' = Tail(evq)
        /\ IF Head(evq) = Sentinel THEN dpc' = "loop" /\ UNCHANGED dcur ELSE dpc' = "lock" /\ dcur' = Head(evq)
        /\ UNCHANGED <<lockOwner, lockDepth, watches, handlers, emitterFor, emitters, em, nextEm, failStart, obs, stopFlag,
                       dleft, dcount, cbq, apc, cs, qlog, dlog, banned, snap, lastFailed>>
DLock == /\ dpc = "lock" /\ CanAcquire("disp") /\ Acquire("disp")
         /\ dleft' = handlers[dcur.w] /\ snap' = handlers[dcur.w] /\ dpc' = "iter"
         /\ UNCHANGED <<watches, handlers, emitterFor, emitters, em, nextEm, failStart, obs, stopFlag, evq,
                        dcur, dcount, cbq, apc, cs, qlog, dlog, banned, lastFailed>>
\* one turn of `for handler in copy: if handler in self._handlers[watch]: handler.dispatch(event)`
DIter == /\ dpc = "iter"
         /\ IF dleft = {}
            THEN /\ Release("disp") /\ dpc' = "loop"
                 /\ UNCHANGED <<dleft, dcount, cbq, dlog>>
            ELSE \E h \in dleft :
                 /\ dleft' = dleft \ {h}
                 /\ UNCHANGED <<lockOwner, lockDepth>>
                 /\ IF h \in handlers[dcur.w]
                    THEN /\ dlog' = Append(dlog, [h |-> h, ev |-> dcur.ev, w |-> dcur.w, bad |-> (<<h, dcur.w>> \in banned)])
                         /\ dcount' = [dcount EXCEPT ![h] = @ + 1]
                         /\ IF <<h, dcount[h] + 1>> \in DOMAIN Scripts
                            THEN cbq' = Scripts[<<h, dcount[h] + 1>>] /\ dpc' = "incb"
                            ELSE UNCHANGED <<cbq, dpc>>
                    ELSE UNCHANGED <<dlog, dcount, cbq, dpc>>
         /\ UNCHANGED <<watches, handlers, emitterFor, emitters, em, nextEm, failStart, obs, stopFlag, evq,
                        dcur, apc, cs, qlog, banned, snap, lastFailed>>
\* the callback's API calls are Call("disp"); when the script is exhausted the loop over the copy continues
DCbDone == /\ dpc = "incb" /\ cbq = << >> /\ cs["disp"].ph = "idle" /\ dpc' = "iter"
           /\ UNCHANGED <<lockOwner, lockDepth, watches, handlers, emitterFor, emitters, em, nextEm, failStart, obs, stopFlag, evq,
                          dcur, dleft, dcount, cbq, apc, cs, qlog, dlog, banned, snap, lastFailed>>
Dispatcher == DLoop \/ DGet \/ DLock \/ DIter \/ DCbDone \/ Call("disp")

-----------------------------------------------------------------------------
AllDone == /\ \A t \in Apps : apc[t] > Len(Programs[t]) /\ cs[t].ph = "idle"
           /\ cs["disp"].ph = "idle"
Finished == AllDone /\ UNCHANGED vars          \* explicit stutter: every other terminal state is a deadlock
Next == (\E t \in Apps : Call(t)) \/ Dispatcher \/ (\E e \in EmIds : ECheck(e) \/ EQueue(e)) \/ Finished
Spec == Init /\ [][Next]_vars
FairSpec == Spec /\ WF_vars(Dispatcher) /\ \A t \in Apps : WF_vars(Call(t)) /\ \A e \in EmIds : WF_vars(ECheck(e) \/ EQueue(e))

-----------------------------------------------------------------------------
\* Properties

Quiet == \A t \in Threads : cs[t].ph = "idle"
TypeOK == lockDepth >= 0 /\ (lockOwner = "none") = (lockDepth = 0)

\* C04: only handlers registered at dispatch time are called, each at most once per event
C04_OnlySnapshotOnce ==
    \A i \in 1..Len(dlog) : \A j \in 1..Len(dlog) : (i # j /\ dlog[i].ev = dlog[j].ev) => dlog[i].h # dlog[j].h
\* C04: per handler, events of one watch arrive in the order they were queued
PosInQ(ev) == CHOOSE i \in 1..Len(qlog) : qlog[i].ev = ev
C04_InQueueOrder ==
    \A i, j \in 1..Len(dlog) : (i < j /\ dlog[i].h = dlog[j].h /\ dlog[i].w = dlog[j].w /\ dlog[i].ev # dlog[j].ev)
                                  => PosInQ(dlog[i].ev) < PosInQ(dlog[j].ev)
\* C04: when the dispatcher finishes an event, every handler of the snapshot that is still registered got it
C04_ExactlyOnce == [][(dpc = "iter" /\ dpc' = "loop") =>
                        \A h \in snap : h \in handlers[dcur.w] => \E i \in 1..Len(dlog) : dlog[i].h = h /\ dlog[i].ev = dcur.ev]_vars
\* C05: no callback for a pair whose removal has returned
C05_NoCallAfterReturn == \A i \in 1..Len(dlog) : ~dlog[i].bad
\* C05: when unschedule()/unschedule_all()/stop() returns, the emitters it removed have exited
C05_EmitterStoppedOnReturn ==
    [][\A t \in Threads : (cs[t].ph = "rel" /\ cs[t].c.op \in {"unschedule", "unschedule_all", "stop"} /\ cs'[t].ph # "rel")
                           => \A e \in cs[t].js : em[e].st = "exited"]_vars
\* C13: the registry is a map: one emitter per scheduled watch, nothing else
C13_RegistryIsMap ==
    /\ emitters = {emitterFor[w] : w \in {x \in Watches : emitterFor[x] # 0}}
    /\ \A w \in Watches : emitterFor[w] # 0 => em[emitterFor[w]].w = w
    /\ \A w \in Watches : emitterFor[w] # 0 => w \in watches \/ ~Quiet
\* C13 (D18): whenever no call is in flight every scheduled watch has its emitter (no start() failure is injected)
C13_ScheduledWatchHasEmitter == Quiet => \A w \in watches : emitterFor[w] # 0
\* C13 (D20): a start() that failed because one emitter could not be started can be retried, and then succeeds
C13_StartRetrySucceeds == (Family = "partialstart" /\ apc["a1"] >= 5) => obs # "new"
\* C13 (D3): a schedule() that raised leaves no handler behind
C13_NoStaleHandlers == \A p \in lastFailed : p[1] \notin handlers[p[2]]
\* C13/C07 (D10): whenever no call is in flight on a running observer, the emitter of every scheduled watch runs
C13_EveryScheduledWatchRuns ==
    (Quiet /\ Alive /\ ~stopFlag) => \A e \in emitters : em[e].st = "running"
\* C06 (D12): once stop()+join() are over, no library thread is left
C06_AllExitedAfterJoin ==
    (AllDone /\ obs = "exited" /\ Quiet) => \A e \in EmIds : em[e].st \in {"none", "created", "exited"}
\* C06 liveness: stop() is eventually followed by the end of the observer thread and of every emitter
C06_StopTerminates == (stopFlag /\ obs = "alive") ~> (obs = "exited")
=============================================================================
