SPECIFICATION Spec
CONSTANTS
  AllowD8 = FALSE
  HardOrder = FALSE
CONSTRAINT Report
POSTCONDITION PostCond
CHECK_DEADLOCK FALSE
