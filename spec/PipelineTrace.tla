---------------------------- MODULE PipelineTrace ----------------------------
(* Level-P trace specification of the native (inotify) pipeline: properties C01, C02, C03, C07, C11,  *)
(* C19 (DESIGN §3, §7 "Monitor semantics fixed in advance").                                          *)
(* Black-box lines only, recorded from the real InotifyObserver on a real directory:                  *)
(*   cfg        recursive?, full emitter?, type of the watched path, paced history?, filter            *)
(*   opb / op   begin / end of an operation of the history; opb carries the harness's own record of    *)
(*              what the operation does (entry kind, descendants that travel with it, ...), op the      *)
(*              tree after it                                                                          *)
(*   cb         on_any_event of handler h: class, src, dst, synthetic flag, path type                  *)
(*   probe      a probe file was created (C02, C07)                                                    *)
(*   quiescent  stream drained; carries the real tree                                                  *)
(*   uncaught / deadlock / final                                                                       *)
(* Everything is logged, so the trace fixes the state: monitors are evaluated, never guessed.          *)
(* Paths are sequences of names relative to the watched root (<< >> = the root itself).                *)
EXTENDS TraceUtil, SequencesExt

VARIABLES tid, l,
          cfg,        \* the cfg line
          rep,        \* C01: replica = start tree + Apply(delivered created/deleted/moved events)
          pendp,      \* C02/C07: probes not yet reported
          facts,      \* C03: what the history did so far (from opb lines)
          gone,       \* old in-tree paths of directories that were moved out (deviation D7: they keep their kernel watch):
                      \* .cur = those where no directory has been created since (C01), .ever = all of them (C03: the library's
                      \* wd -> path entry of the departed inode stays, also when a new directory takes the name)
          dfacts,     \* C03: what operations on a moved-OUT directory would be if it were still in the tree (deviation D7)
          win,        \* C03 contract: events of handler 1 since the last quiescent line
          winops,     \* C03 contract: operations begun since the last quiescent line
          pre,        \* tree at the last quiescent line
          s1, s2,     \* C11: event sequences of the unfiltered (1) and the filtered (2) handler
          rootdel,    \* C07: number of DirDeleted(root) callbacks
          viol
vars == <<tid, l, cfg, rep, pendp, facts, dfacts, gone, win, winops, pre, s1, s2, rootdel, viol>>

Tr == AllTraces[tid]
ASSUME InitRegs

NoCfg == [recursive |-> TRUE, full |-> FALSE, ty |-> "str", paced |-> TRUE, filter |-> << >>, filtered |-> FALSE, contract |-> FALSE, ty3 |-> "none"]
Init == /\ tid \in 1..NTraces /\ l = 1 /\ cfg = NoCfg /\ rep = {} /\ pendp = {} /\ facts = {} /\ dfacts = {} /\ gone = [cur |-> {}, ever |-> {}, ret |-> {}] /\ win = << >> /\ winops = << >>
        /\ pre = {} /\ s1 = << >> /\ s2 = << >> /\ rootdel = 0 /\ viol = {}

Line(k) == l <= Len(Tr) /\ Tr[l].e = k
Consume == l' = l + 1 /\ UNCHANGED tid
Parent(p) == SubSeq(p, 1, Len(p) - 1)
Pre(a, b) == Len(a) <= Len(b) /\ SubSeq(b, 1, Len(a)) = a              \* a is a prefix of b
TreeOf(t) == {[p |-> t[i].p, k |-> t[i].k] : i \in 1..Len(t)}
SetOfSeq(s) == {s[i] : i \in 1..Len(s)}

\* ---------------------------------------------------------------------------- event classes
TypeOf(c) == CASE c \in {"FileCreatedEvent", "DirCreatedEvent"} -> "created"
               [] c \in {"FileDeletedEvent", "DirDeletedEvent"} -> "deleted"
               [] c \in {"FileMovedEvent", "DirMovedEvent"} -> "moved"
               [] c \in {"FileModifiedEvent", "DirModifiedEvent"} -> "modified"
               [] c = "FileOpenedEvent" -> "opened"
               [] c = "FileClosedEvent" -> "closed"
               [] c = "FileClosedNoWriteEvent" -> "closednw"
               [] OTHER -> "other"
KindOf(c) == IF c \in {"DirCreatedEvent", "DirDeletedEvent", "DirMovedEvent", "DirModifiedEvent"} THEN "dir" ELSE "file"
Cls(type, kind) == CASE type = "created" -> IF kind = "dir" THEN "DirCreatedEvent" ELSE "FileCreatedEvent"
                     [] type = "deleted" -> IF kind = "dir" THEN "DirDeletedEvent" ELSE "FileDeletedEvent"
                     [] type = "moved" -> IF kind = "dir" THEN "DirMovedEvent" ELSE "FileMovedEvent"
                     [] type = "modified" -> IF kind = "dir" THEN "DirModifiedEvent" ELSE "FileModifiedEvent"
                     [] type = "opened" -> "FileOpenedEvent"
                     [] type = "closed" -> "FileClosedEvent"
                     [] OTHER -> "FileClosedNoWriteEvent"
\* filter classes, base classes included (C11)
Expand(c) == CASE c = "FileSystemEvent" -> {"FileCreatedEvent", "DirCreatedEvent", "FileDeletedEvent", "DirDeletedEvent", "FileMovedEvent",
                                            "DirMovedEvent", "FileModifiedEvent", "DirModifiedEvent", "FileOpenedEvent", "FileClosedEvent",
                                            "FileClosedNoWriteEvent"}
               [] c = "FileSystemMovedEvent" -> {"FileMovedEvent", "DirMovedEvent"}
               [] OTHER -> {c}
FilterSet == UNION {Expand(c) : c \in SetOfSeq(cfg.filter)}

\* an event as the monitors see it
Ev(x) == [cls |-> x.cls, src |-> x.src, hs |-> x.hs, dst |-> x.dst, hd |-> x.hd, syn |-> x.syn]
E(cls, src, syn) == [cls |-> cls, src |-> src, hs |-> TRUE, dst |-> << >>, hd |-> FALSE, syn |-> syn]
M(cls, src, dst, syn) == [cls |-> cls, src |-> src, hs |-> TRUE, dst |-> dst, hd |-> TRUE, syn |-> syn]
MIn(cls, dst) == [cls |-> cls, src |-> << >>, hs |-> FALSE, dst |-> dst, hd |-> TRUE, syn |-> FALSE]   \* full emitter: moved("", d)
MOut(cls, src) == [cls |-> cls, src |-> src, hs |-> TRUE, dst |-> << >>, hd |-> FALSE, syn |-> FALSE]  \* full emitter: moved(s, "")

\* ---------------------------------------------------------------------------- C01: replaying events
Under(r, p) == {e \in r : Pre(p, e.p)}
HasP(r, p) == \E e \in r : e.p = p
ApplyCreated(r, p, k) == {e \in r : e.p # p} \cup {[p |-> p, k |-> k]}
ApplyDeleted(r, p) == r \ Under(r, p)
ApplyMoved(r, s, d, k) ==
    IF HasP(r, s)
    THEN LET mv == Under(r, s) IN
         ((r \ mv) \ Under(r, d)) \cup {[p |-> d \o SubSeq(e.p, Len(s) + 1, Len(e.p)), k |-> e.k] : e \in mv}
    ELSE IF ~HasP(r, d) THEN r \cup {[p |-> d, k |-> k]} ELSE r
Apply(r, x) ==
    LET t == TypeOf(x.cls)  k == KindOf(x.cls) IN
    CASE t = "created" -> ApplyCreated(r, x.src, k)
      [] t = "deleted" -> ApplyDeleted(r, x.src)
      [] t = "moved" -> IF ~x.hs THEN ApplyCreated(r, x.dst, k)           \* full emitter half moves
                        ELSE IF ~x.hd THEN ApplyDeleted(r, x.src)
                        ELSE ApplyMoved(r, x.src, x.dst, k)
      [] OTHER -> r
\* entries that are not below the old path of a directory that left the tree (deviation D7)
NotGone(r) == {e \in r : ~\E g \in gone.cur : Pre(g, e.p)}
Scope(t) == IF cfg.recursive THEN t ELSE {e \in t : Len(e.p) = 1}          \* non-recursive: the root's direct children

\* ---------------------------------------------------------------------------- C03: justification by the history
F(f, p, q, k) == [f |-> f, p |-> p, q |-> q, k |-> k]
SubF(f, base, sub) == {F(f, base \o sub[i].r, << >>, sub[i].k) : i \in 1..Len(sub)}
SubF2(f, base, base2, sub) == {F(f, base \o sub[i].r, base2 \o sub[i].r, sub[i].k) : i \in 1..Len(sub)}
OpFacts(o) ==
    LET p == o.p  q == o.q  k == o.kind IN
    CASE o.k = "mkdir"  -> {F("created", p, << >>, "dir"), F("dirmod", Parent(p), << >>, "dir")}
      [] o.k = "makedirs" -> UNION {{F("created", o.made[i], << >>, "dir"), F("dirmod", Parent(o.made[i]), << >>, "dir")} : i \in 1..Len(o.made)}
      [] o.k = "creat"  -> {F("created", p, << >>, "file"), F("opened", p, << >>, "file"), F("closed", p, << >>, "file"), F("dirmod", Parent(p), << >>, "dir")}
      [] o.k = "write"  -> {F("opened", p, << >>, "file"), F("modified", p, << >>, "file"), F("closed", p, << >>, "file"), F("dirmod", Parent(p), << >>, "dir")}
      [] o.k = "read"   -> {F("opened", p, << >>, "file"), F("closednw", p, << >>, "file")}
      [] o.k = "chmod"  -> {F("modified", p, << >>, k)}
      [] o.k = "unlink" -> {F("deleted", p, << >>, "file"), F("dirmod", Parent(p), << >>, "dir")}
      [] o.k = "rmdir"  -> {F("deleted", p, << >>, "dir"), F("dirmod", Parent(p), << >>, "dir")}
      [] o.k = "rmtree" -> {F("deleted", p, << >>, "dir"), F("dirmod", Parent(p), << >>, "dir")}
                           \cup SubF("deleted", p, o.sub)
                           \cup {F("dirmod", Parent(p \o o.sub[i].r), << >>, "dir") : i \in 1..Len(o.sub)}
      [] o.k = "rename" -> {F("moved", p, q, k), F("dirmod", Parent(p), << >>, "dir"), F("dirmod", Parent(q), << >>, "dir"),
                            \* an unpaired half is reported as deleted / created (C08 decides about pairing)
                            F("deleted", p, << >>, k), F("created", q, << >>, k)}
                           \cup (IF o.victim = "dir" THEN {F("dirmod", q, << >>, "dir")} ELSE {})   \* IN_ATTRIB on the replaced directory
                           \cup SubF2("submoved", p, q, o.sub) \cup SubF("subcreated", q, o.sub)
                           \cup {F("dirmod", Parent(q \o o.sub[i].r), << >>, "dir") : i \in 1..Len(o.sub)}
      [] o.k = "moveout" -> {F("deleted", p, << >>, k), F("dirmod", Parent(p), << >>, "dir")} \cup SubF("deleted", p, o.sub)
      [] o.k = "movein" -> {F("created", q, << >>, k), F("dirmod", Parent(q), << >>, "dir")} \cup SubF("subcreated", q, o.sub)
                           \cup (IF o.victim = "dir" THEN {F("dirmod", q, << >>, "dir")} ELSE {})
                           \cup {F("dirmod", Parent(q \o o.sub[i].r), << >>, "dir") : i \in 1..Len(o.sub)}
      [] o.k = "rmroot" -> {F("deleted", << >>, << >>, "dir")} \cup SubF("deleted", << >>, o.sub)
      [] OTHER -> {}
\* Deviation D7 (known finding): a directory moved out of the tree keeps its kernel watch, so operations on it
\* out there are reported under its old in-tree name.  The harness records such an operation with `alias` = the
\* path the entry would have if the directory had not left; DevFacts are the facts of that hypothetical operation.
DevFacts(o) == IF o.k = "moveout" /\ Len(o.alias) > 0 THEN OpFacts([o EXCEPT !.k = "rename", !.q = o.alias])
               ELSE IF o.k = "movein" /\ Len(o.alias) > 0 THEN OpFacts([o EXCEPT !.k = "rename", !.p = o.alias])
               ELSE IF o.k \in {"owrite", "ocreat", "omkdir", "ounlink", "ormdir"} /\ Len(o.alias) > 0
               THEN OpFacts([o EXCEPT !.k = (CASE o.k = "owrite" -> "write" [] o.k = "ocreat" -> "creat" [] o.k = "omkdir" -> "mkdir"
                                                  [] o.k = "ounlink" -> "unlink" [] OTHER -> "rmdir"), !.p = o.alias]) ELSE {}
ProbeFacts(p) == {F("created", p, << >>, "file"), F("opened", p, << >>, "file"), F("closed", p, << >>, "file"), F("dirmod", Parent(p), << >>, "dir")}

Justified(x, fs) ==
    LET t == TypeOf(x.cls)  k == KindOf(x.cls) IN
    CASE t = "created" -> IF x.syn THEN F("subcreated", x.src, << >>, k) \in fs
                          ELSE F("created", x.src, << >>, k) \in fs \/ F("subcreated", x.src, << >>, k) \in fs
      [] t = "deleted" -> ~x.syn /\ F("deleted", x.src, << >>, k) \in fs
      [] t = "moved" -> IF ~x.hs THEN ~x.syn /\ F("created", x.dst, << >>, k) \in fs
                        ELSE IF ~x.hd THEN ~x.syn /\ F("deleted", x.src, << >>, k) \in fs
                        ELSE IF x.syn THEN F("submoved", x.src, x.dst, k) \in fs
                        ELSE F("moved", x.src, x.dst, k) \in fs
      [] t = "modified" -> ~x.syn /\ (IF k = "dir" THEN F("dirmod", x.src, << >>, "dir") \in fs \/ F("modified", x.src, << >>, "dir") \in fs
                                                    ELSE F("modified", x.src, << >>, "file") \in fs)
      [] t \in {"opened", "closed", "closednw"} -> ~x.syn /\ F(t, x.src, << >>, "file") \in fs
      [] OTHER -> FALSE

\* ---------------------------------------------------------------------------- C03: per-operation contract
\* Req: events that must be delivered; Opt: events that may be delivered in addition.  Written from the property text
\* and inotify(7), for a recursive watch; Visible() cuts it down for a non-recursive one.
DM(p) == E("DirModifiedEvent", p, FALSE)
SubMoved(p, q, sub) == {M(Cls("moved", sub[i].k), p \o sub[i].r, q \o sub[i].r, TRUE) : i \in 1..Len(sub)}
SubCreated(q, sub) == {E(Cls("created", sub[i].k), q \o sub[i].r, TRUE) : i \in 1..Len(sub)}
Contract(o) ==
    LET p == o.p  q == o.q  k == o.kind IN
    CASE o.k = "mkdir"  -> [req |-> {E("DirCreatedEvent", p, FALSE), DM(Parent(p))}, opt |-> {}]
      [] o.k = "creat"  -> [req |-> {E("FileCreatedEvent", p, FALSE), DM(Parent(p))},
                            opt |-> {E("FileOpenedEvent", p, FALSE), E("FileClosedEvent", p, FALSE)}]
      [] o.k = "write"  -> [req |-> {E("FileModifiedEvent", p, FALSE)},
                            opt |-> {E("FileOpenedEvent", p, FALSE), E("FileClosedEvent", p, FALSE), DM(Parent(p))}]
      [] o.k = "read"   -> [req |-> {}, opt |-> {E("FileOpenedEvent", p, FALSE), E("FileClosedNoWriteEvent", p, FALSE)}]
      [] o.k = "chmod"  -> [req |-> {E(Cls("modified", k), p, FALSE)}, opt |-> {}]
      [] o.k = "unlink" -> [req |-> {E("FileDeletedEvent", p, FALSE), DM(Parent(p))}, opt |-> {}]
      [] o.k = "rmdir"  -> [req |-> {E("DirDeletedEvent", p, FALSE), DM(Parent(p))}, opt |-> {}]
      [] o.k = "rename" -> [req |-> {M(Cls("moved", k), p, q, FALSE), DM(Parent(p)), DM(Parent(q))}
                                    \cup (IF k = "dir" THEN SubMoved(p, q, o.sub) ELSE {}),
                            \* a replaced (empty) directory gets IN_ATTRIB on its own watch before it disappears
                            opt |-> IF o.victim = "dir" THEN {DM(q)} ELSE {}]
      [] o.k = "moveout" -> [req |-> {IF cfg.full THEN MOut(Cls("moved", k), p) ELSE E(Cls("deleted", k), p, FALSE), DM(Parent(p))}, opt |-> {}]
      [] o.k = "movein" -> [req |-> {IF cfg.full THEN MIn(Cls("moved", k), q) ELSE E(Cls("created", k), q, FALSE), DM(Parent(q))}
                                    \cup (IF k = "dir" THEN SubCreated(q, o.sub) ELSE {}),
                            opt |-> IF o.victim = "dir" THEN {DM(q)} ELSE {}]
      [] OTHER -> [req |-> {}, opt |-> {}]
\* non-recursive watch: only what happens directly in the root is visible; a rename across the boundary is a move in / out
Visible(x, o) == /\ ~x.syn
                 /\ IF TypeOf(x.cls) = "modified" /\ KindOf(x.cls) = "dir"
                    THEN x.src = << >> \/ (Len(x.src) = 1 /\ o.k = "chmod")
                    ELSE (x.hs => Len(x.src) = 1) /\ (x.hd => Len(x.dst) = 1)
ContractNR(o) ==
    LET p == o.p  q == o.q  k == o.kind  c == Contract(o) IN
    IF o.k = "rename" /\ Len(p) = 1 /\ Len(q) > 1 THEN [req |-> {IF cfg.full THEN MOut(Cls("moved", k), p) ELSE E(Cls("deleted", k), p, FALSE), DM(<< >>)}, opt |-> {}]
    ELSE IF o.k = "rename" /\ Len(p) > 1 /\ Len(q) = 1 THEN [req |-> {IF cfg.full THEN MIn(Cls("moved", k), q) ELSE E(Cls("created", k), q, FALSE), DM(<< >>)}, opt |-> {}]
    ELSE IF o.k = "rename" /\ Len(p) > 1 /\ Len(q) > 1 THEN [req |-> {}, opt |-> {}]
    ELSE [req |-> {x \in c.req : Visible(x, o)}, opt |-> {x \in c.opt : Visible(x, o)}]
TheContract(o) == IF cfg.recursive THEN Contract(o) ELSE ContractNR(o)
Count(s, x) == Cardinality({i \in 1..Len(s) : s[i] = x})
Once(x) == TypeOf(x.cls) \in {"created", "deleted", "moved"}
ContractOf(c, w) ==
    LET d == SetOfSeq(w) IN
    (IF c.req \subseteq d THEN {} ELSE {"P_C03_ContractNothingMissing"})
    \cup (IF d \subseteq (c.req \cup c.opt) THEN {} ELSE {"P_C03_ContractNothingAdded"})
    \cup (IF \A x \in c.req : (Once(x) /\ x \in d) => Count(w, x) = 1 THEN {} ELSE {"P_C03_ContractExactlyOnce"})
\* Deviation D7 in the contract: an entry moved into (out of) a directory that had left the tree - whose kernel watch
\* survives - is reported as a rename to (from) the path it would have under the directory's old in-tree name (`alias`).
ContractClauses(o, w) ==
    LET strict == ContractOf(TheContract(o), w) IN
    IF strict = {} \/ ~(o.k \in {"moveout", "movein"} /\ Len(o.alias) > 0) THEN strict
    ELSE LET asRename == IF o.k = "moveout" THEN [o EXCEPT !.k = "rename", !.q = o.alias]
                                             ELSE [o EXCEPT !.k = "rename", !.p = o.alias] IN
         IF ContractOf(TheContract(asRename), w) = {} THEN {"P_C03_ContractDevMovedOutKeepsWatch"} ELSE strict

\* ---------------------------------------------------------------------------- C14: the synthetic events of one directory rename / arrival
\* (same window discipline as the contract: one operation, drained).  The synthetic events delivered are exactly one
\* per descendant (SubMoved / SubCreated are built from the harness's own listing of the subtree), parents first.
C14Clauses(o, w) ==
    IF ~(cfg.recursive /\ o.k \in {"rename", "movein"} /\ o.kind = "dir") THEN {}
    ELSE LET want == IF o.k = "rename" THEN SubMoved(o.p, o.q, o.sub) ELSE SubCreated(o.q, o.sub)
             syn == {w[i] : i \in {j \in 1..Len(w) : w[j].syn}}
             Path(x) == IF o.k = "rename" THEN x.dst ELSE x.src
         IN (IF want \subseteq syn THEN {} ELSE {"P_C14_PipelineEveryDescendant"})
            \cup (IF syn \subseteq want THEN {} ELSE {"P_C14_PipelineOnlyDescendantsRightPaths"})
            \cup (IF \A x \in want : Count(w, x) <= 1 THEN {} ELSE {"P_C14_PipelineOncePerDescendant"})
            \cup (IF \A i, j \in 1..Len(w) : (w[i].syn /\ w[j].syn /\ Path(w[j]) # Path(w[i]) /\ Pre(Path(w[j]), Path(w[i]))) => j < i
                  THEN {} ELSE {"P_C14_PipelineParentBeforeChild"})

\* collapse runs of identical events (C11: "up to coalescing of adjacent identical events")
RECURSIVE Collapse(_)
Collapse(s) == IF Len(s) <= 1 THEN s
               ELSE IF s[1] = s[2] THEN Collapse(Tail(s)) ELSE <<s[1]>> \o Collapse(Tail(s))
Keep(s) == SelectSeq(s, LAMBDA x : x.cls \in FilterSet)

\* ---------------------------------------------------------------------------- lines
Cfg == /\ Line("cfg") /\ Consume /\ cfg' = Tr[l]
       /\ UNCHANGED <<rep, pendp, facts, dfacts, gone, win, winops, pre, s1, s2, rootdel, viol>>

OpBegin == /\ Line("opb") /\ Consume
           /\ facts' = facts \cup OpFacts(Tr[l].op)
           /\ dfacts' = dfacts \cup DevFacts(Tr[l].op)
           \* the stale watch-table entry of a directory that left the tree (D7) follows later renames of its in-tree
           \* ancestors like every other entry: the old and the re-keyed path both stay excused
           /\ gone' = LET o == Tr[l].op
                          made == IF o.k \in {"mkdir", "makedirs"} THEN {o.p} ELSE IF o.k \in {"rename", "movein"} THEN {o.q} ELSE {}
                          Moved(S) == IF o.k = "rename" /\ o.kind = "dir"
                                      THEN {o.q \o SubSeq(g, Len(o.p) + 1, Len(g)) : g \in {h \in S : Pre(o.p, h) /\ h # o.p}} ELSE {}
                          out == IF o.k = "moveout" /\ o.kind = "dir" THEN {o.p} ELSE {} IN
                      \* .ret: old paths of departed directories that came back (movein with `back`): at the next drain point the
                      \* library has re-keyed their watch (same inode, same watch descriptor) and the old path is excused no more
                      [cur |-> ((gone.cur \ made) \cup Moved(gone.cur)) \cup out, ever |-> (gone.ever \cup Moved(gone.ever)) \cup out,
                       ret |-> (gone.ret \cup Moved(gone.ret)) \cup (IF o.k = "movein" /\ Len(o.back) > 0 THEN {o.back} ELSE {})]
           /\ winops' = Append(winops, Tr[l].op)
           /\ UNCHANGED <<cfg, rep, pendp, win, pre, s1, s2, rootdel, viol>>
OpEnd == /\ Line("op") /\ Consume /\ UNCHANGED <<cfg, rep, pendp, facts, dfacts, gone, win, winops, pre, s1, s2, rootdel, viol>>

Probe == /\ Line("probe") /\ Consume
         /\ pendp' = pendp \cup {Tr[l].path}
         /\ facts' = facts \cup ProbeFacts(Tr[l].path) /\ UNCHANGED <<dfacts, gone>>
         /\ winops' = Append(winops, [k |-> "probe"])
         /\ UNCHANGED <<cfg, rep, win, pre, s1, s2, rootdel, viol>>

Cb == /\ Line("cb") /\ Consume
      /\ LET x == Ev(Tr[l])  h == Tr[l].h IN
         /\ rep' = IF h = 1 THEN Apply(rep, x) ELSE rep
         /\ pendp' = IF x.cls = "FileCreatedEvent" THEN pendp \ {x.src} ELSE pendp
         /\ win' = IF h = 1 THEN Append(win, x) ELSE win
         /\ s1' = IF h = 1 THEN Append(s1, x) ELSE s1
         /\ s2' = IF h = 2 THEN Append(s2, x) ELSE s2
         /\ rootdel' = IF h = 1 /\ x.cls = "DirDeletedEvent" /\ x.src = << >> THEN rootdel + 1 ELSE rootdel
         /\ viol' = viol
              \* C03 soundness: explained by an operation that had begun before the callback
              \cup (IF Justified(x, facts) THEN {}
                    \* deviation D7: the event is what an operation on a moved-out directory would be under its old name,
                    \* or it names something below the old in-tree path of a directory that left the tree (its kernel
                    \* watch survives, also when the same directory comes back under another name)
                    ELSE IF Justified(x, facts \cup dfacts) \/ (x.hs /\ \E g \in gone.ever : Pre(g, x.src))
                         THEN {"P_C03_SoundDevMovedOutKeepsWatch"} ELSE {"P_C03_Sound"})
              \* C02: a non-recursive watch never reports anything below the root's direct children
              \cup (IF ~cfg.recursive /\ ((x.hs /\ Len(x.src) > 1) \/ (x.hd /\ Len(x.dst) > 1)) THEN {"P_C02_NonRecursiveSilentBelow"} ELSE {})
              \* C19: path type preserved, every component is an exact name of the tree
              \cup (LET want == IF h = 3 THEN cfg.ty3 ELSE cfg.ty IN       \* handler 3: the watch scheduled with the other string type
                    IF (x.hs /\ Tr[l].ty # want) \/ (x.hd /\ Tr[l].ty2 # want) THEN {"P_C19_TypePreserved"} ELSE {})
              \cup (IF "?" \in SetOfSeq(x.src) \/ "?" \in SetOfSeq(x.dst) THEN {"P_C19_ExactName"} ELSE {})
      /\ UNCHANGED <<cfg, facts, dfacts, gone, winops, pre>>

Quiescent ==
    /\ Line("quiescent") /\ Consume
    /\ LET t == TreeOf(Tr[l].tree) IN
       /\ rep' = IF Tr[l].phase = "start" THEN t ELSE rep
       /\ pre' = t
       /\ viol' = viol
            \* C01: the replica equals the real tree whenever the stream has drained (paced histories)
            \cup (IF Tr[l].phase # "start" /\ cfg.paced /\ rootdel = 0 /\ Scope(rep) # Scope(t)
                  THEN (IF Scope(NotGone(rep)) = Scope(NotGone(t)) THEN {"P_C01_ReplicaMatchesDevMovedOutKeepsWatch"}
                                                                  ELSE {"P_C01_ReplicaMatches"})
                  ELSE {})
            \* C02 / C07: every probe made since the last drain point was reported (recursive: everywhere; else depth 1)
            \cup (IF \E p \in pendp : (cfg.recursive \/ Len(p) = 1) THEN
                     {IF cfg.paced THEN "P_C02_ProbeReported" ELSE "P_C07_StillReporting"} ELSE {})
            \* C03: one operation at a time produces its full contract, nothing missing, nothing added
            \cup (IF cfg.contract /\ Len(winops) = 1
                     /\ winops[1].k \in {"mkdir", "creat", "write", "read", "chmod", "unlink", "rmdir", "rename", "moveout", "movein"}
                  THEN ContractClauses(winops[1], win) \cup C14Clauses(winops[1], win) ELSE {})
    /\ pendp' = {} /\ win' = << >> /\ winops' = << >>
    /\ gone' = [gone EXCEPT !.ever = {g \in @ : ~\E r \in gone.ret : Pre(r, g)}, !.ret = {}]
    /\ UNCHANGED <<cfg, facts, dfacts, s1, s2, rootdel>>

Final == /\ Line("final") /\ Consume
         /\ viol' = viol
              \* C11: the filtered handler got exactly the unfiltered stream restricted to the filter's classes
              \cup (IF cfg.filtered /\ Collapse(s2) # Collapse(Keep(s1)) THEN {"P_C11_FilterOnlyRemoves"} ELSE {})   \* (an EMPTY filter keeps nothing)
              \* C07: root deleted => exactly one DirDeleted(root) and the emitter stopped; otherwise the emitter is alive
              \cup (IF ~Tr[l].root_alive /\ rootdel # 1 THEN {"P_C07_RootDeletedOnce"} ELSE {})
              \cup (IF Tr[l].root_alive /\ rootdel # 0 THEN {"P_C07_RootDeletedOnce"} ELSE {})
              \cup (IF ~Tr[l].root_alive /\ TRUE \in SetOfSeq(Tr[l].emitters_alive) THEN {"P_C07_EmitterStopsWhenRootGone"} ELSE {})
              \cup (IF Tr[l].root_alive /\ FALSE \in SetOfSeq(Tr[l].emitters_alive) THEN {"P_C07_EmitterAlive"} ELSE {})
              \cup (IF Len(Tr[l].live) > 0 THEN {"P_C06_AllExited"} ELSE {})
         /\ UNCHANGED <<cfg, rep, pendp, facts, dfacts, gone, win, winops, pre, s1, s2, rootdel>>
Uncaught == /\ Line("uncaught") /\ Consume /\ viol' = viol \cup {"P_C07_NoUncaught"}
            /\ UNCHANGED <<cfg, rep, pendp, facts, dfacts, gone, win, winops, pre, s1, s2, rootdel>>
Deadlock == /\ Line("deadlock") /\ Consume /\ viol' = viol \cup {"P_C06_NoDeadlock"}
            /\ UNCHANGED <<cfg, rep, pendp, facts, dfacts, gone, win, winops, pre, s1, s2, rootdel>>

Next == TLCGet(BIG + tid) = 0 /\ (Cfg \/ OpBegin \/ OpEnd \/ Probe \/ Cb \/ Quiescent \/ Final \/ Uncaught \/ Deadlock)
Spec == Init /\ [][Next]_vars
Report == Progress(tid, l, Len(Tr), viol)
PostCond == Post
=============================================================================
