SPECIFICATION Spec
CONSTANT AllowD8 = FALSE
CONSTRAINT Report
POSTCONDITION PostCond
CHECK_DEADLOCK FALSE
