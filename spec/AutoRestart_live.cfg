SPECIFICATION FairSpec
CONSTANTS
  MaxP = 4
  MaxEv = 2
  MaxExit = 1
  ROE = {TRUE, FALSE}
  DEB = {TRUE, FALSE}
  DOS = {TRUE, FALSE}
  FixLock = TRUE
PROPERTY C18_StopReturns
CHECK_DEADLOCK FALSE
