SPECIFICATION FairSpec
CONSTANTS
  MaxP = 3
  MaxEv = 1
  MaxExit = 1
  ROE = {TRUE, FALSE}
  DEB = {TRUE, FALSE}
  DOS = {TRUE, FALSE}
  FixLock = TRUE
PROPERTY C18_StopReturns
CHECK_DEADLOCK FALSE
