----------------------------- MODULE PairingTrace -----------------------------
(* Level-P trace specification for C08.  Lines recorded around the real InotifyBuffer fed with scripted native  *)
(* batches through the os.read seam, on the virtual clock:                                                    *)
(*   fed    a batch was handed to the reader: evs = sequence of [k \in {"MF","MT","X","IG"}, c = cookie]         *)
(*   tick   virtual time (unit = delay / 2)                                                                    *)
(*   got    read_event() returned: a = index of the native event (0 = end marker), b = index of the second      *)
(*          half of a pair or 0                                                                                *)
(*   end    the driver found the pipeline drained                                                              *)
(* Deterministic.  Clauses (from Pairing.tla): every native event except IN_IGNORED exactly once, in kernel     *)
(* order with a pair in the slot of one of its halves, pairs are cookie mates, a lone first half never before   *)
(* the delay, a lone second half only if its first half had already been handed out when it arrived.            *)
EXTENDS TraceUtil

CONSTANT Delay
VARIABLES tid, l, native, fedAt, out, now, viol
vars == <<tid, l, native, fedAt, out, now, viol>>
Tr == AllTraces[tid]
ASSUME InitRegs

Init == tid \in 1..NTraces /\ l = 1 /\ native = << >> /\ fedAt = << >> /\ out = << >> /\ now = 0 /\ viol = {}
Line(k) == l <= Len(Tr) /\ Tr[l].e = k
Consume == l' = l + 1 /\ UNCHANGED tid
K(i) == native[i].k
C(i) == native[i].c

Fed == /\ Line("fed") /\ Consume
       /\ native' = native \o Tr[l].evs
       /\ fedAt' = fedAt \o [i \in 1..Len(Tr[l].evs) |-> now]
       /\ UNCHANGED <<out, now, viol>>
Tick == /\ Line("tick") /\ Consume /\ now' = Tr[l].now /\ UNCHANGED <<native, fedAt, out, viol>>

Used == UNION {{out[i].a, out[i].b} : i \in 1..Len(out)} \ {0}
LastSlot == IF out = << >> THEN 0 ELSE out[Len(out)].slot
Got == /\ Line("got") /\ Consume /\ Tr[l].a # 0
       /\ LET a == Tr[l].a  b == Tr[l].b
              known == a \in 1..Len(native) /\ (b = 0 \/ b \in 1..Len(native))
              opts == {s \in {a, b} \ {0} : s > LastSlot}
              slot == IF opts = {} THEN LastSlot ELSE CHOOSE s \in opts : \A z \in opts : s <= z IN
          /\ out' = Append(out, [a |-> a, b |-> b, at |-> now, slot |-> slot])
          /\ viol' = viol
               \cup (IF ~known THEN {"P_C08_KnownEvent"} ELSE {})
               \cup (IF known /\ ({a, b} \ {0}) \cap Used # {} THEN {"P_C08_AtMostOnce"} ELSE {})
               \cup (IF known /\ (K(a) = "IG" \/ (b # 0 /\ K(b) = "IG")) THEN {"P_C08_IgnoredDropped"} ELSE {})
               \cup (IF known /\ opts = {} THEN {"P_C08_InKernelOrder"} ELSE {})
               \cup (IF known /\ b # 0 /\ ~(K(a) = "MF" /\ K(b) = "MT" /\ C(a) = C(b)) THEN {"P_C08_PairsAreCookieMates"} ELSE {})
               \cup (IF known /\ b = 0 /\ K(a) = "MF" /\ now < fedAt[a] + Delay THEN {"P_C08_LoneFromNotEarly"} ELSE {})
               \cup (IF known /\ b = 0 /\ K(a) = "MT"
                        /\ \E m \in 1..(a - 1) : K(m) = "MF" /\ C(m) = C(a)
                              /\ ~(\E j \in 1..Len(out) : out[j].a = m /\ out[j].b = 0 /\ out[j].at <= fedAt[a])
                     THEN {"P_C08_PairIfInTime"} ELSE {})
       /\ UNCHANGED <<native, fedAt, now>>
GotEnd == /\ Line("got") /\ Consume /\ Tr[l].a = 0 /\ UNCHANGED <<native, fedAt, out, now, viol>>
End == /\ Line("end") /\ Consume
       /\ viol' = viol \cup (IF Used # {i \in 1..Len(native) : K(i) # "IG"} THEN {"P_C08_ExactlyOnceWhenDrained"} ELSE {})
       /\ UNCHANGED <<native, fedAt, out, now>>
Bad == /\ l <= Len(Tr) /\ Tr[l].e \in {"uncaught", "deadlock"} /\ Consume
       /\ viol' = viol \cup {IF Tr[l].e = "uncaught" THEN "P_C08_NoUncaught" ELSE "P_C08_NoDeadlock"}
       /\ UNCHANGED <<native, fedAt, out, now>>

Next == TLCGet(BIG + tid) = 0 /\ (Fed \/ Tick \/ Got \/ GotEnd \/ End \/ Bad)
Spec == Init /\ [][Next]_vars
Report == Progress(tid, l, Len(Tr), viol)
PostCond == Post
=============================================================================
