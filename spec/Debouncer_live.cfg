SPECIFICATION FairSpec
CONSTANTS
  Intervals = {0, 2}
  MaxEv = 3
  MaxTime = 7
  Gaps = {1, 2, 3}
  FixD8 = TRUE
PROPERTY C18_ThreadExits
CHECK_DEADLOCK FALSE
