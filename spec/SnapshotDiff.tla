---------------------------- MODULE SnapshotDiff ----------------------------
(* C09  Snapshot diff laws (watchdog.utils.dirsnapshot.DirectorySnapshotDiff).            *)
(*                                                                                        *)
(* A snapshot is a function  path -> [ino, dev, isdir, mtime, size]  (DirectorySnapshot's *)
(* _stat_info; _inode_to_path is its inverse on (ino, dev) because every inode has one    *)
(* path).  A path is a sequence of names, <<>> is the watched root.                       *)
(*                                                                                        *)
(* Part 1: Diff(R, S, ig) transcribes DirectorySnapshotDiff.__init__ step by step.        *)
(* Part 2: the laws of C09 as pure operators over (R, S, ig, D) with D a record of eight  *)
(*         SETS (fc fd fm fv dc dd dm dv).  They are written from the property text, not  *)
(*         from the code, and are reused by SnapshotDiffTrace (monitors on the lists the  *)
(*         REAL code returned) and by Polling / PollingTrace (C10).                       *)
(* Part 3: a bounded universe of snapshots and a two-step behaviour: Init picks ref and   *)
(*         ignore_device, Compute picks snap and evaluates Diff in both directions; the   *)
(*         invariants C09_* are the laws, checked by TLC over ALL ordered pairs.          *)
(*                                                                                        *)
(* Readings chosen where the property text leaves room (all on the permissive side):      *)
(*  - identity is (ino, dev).  With ignore_device a same-path entry whose ino is equal    *)
(*    counts as kept; an ino-only match under a DIFFERENT path and device may be reported *)
(*    either as a move or as deleted + created (the code does the latter).                *)
(*  - "modified iff it kept its identity but changed mtime or size": a kept entry that    *)
(*    moved may be listed under its old or its new path (the code lists the old path).    *)
(*  - kind of a moved / modified entry whose inode changed kind (inode reuse): either.    *)
(*  - "created or deleted only if its inode is absent from the other snapshot" is read    *)
(*    together with "exactly account for the change" as an equivalence: an entry whose    *)
(*    identity is absent from the other snapshot MUST be reported created / deleted       *)
(*    (otherwise replacing a file by a new one under the same name would go unreported).  *)
EXTENDS Naturals, Sequences, FiniteSets, TLC

(***************************************************************************************)
(* Part 1: transcription of DirectorySnapshotDiff.__init__                             *)
(***************************************************************************************)
Id(e) == <<e.ino, e.dev>>                                   \* DirectorySnapshot.inode(path)
GetInode(F, p, ig) == IF ig THEN F[p].ino ELSE Id(F[p])     \* the local get_inode()

Diff(R, S, ig) ==
  LET created0  == DOMAIN S \ DOMAIN R                                       \* l.77
      deleted0  == DOMAIN R \ DOMAIN S                                       \* l.78
      \* l.91-94: unchanged paths whose inode differs are both created and deleted
      reinoded  == {p \in DOMAIN R \cap DOMAIN S : GetInode(R, p, ig) # GetInode(S, p, ig)}
      created1  == created0 \cup reinoded
      deleted1  == deleted0 \cup reinoded
      \* l.98-104: a deleted path whose (ino, dev) is found in the new snapshot is a move
      movedA    == {m \in deleted1 \X (DOMAIN S) : Id(R[m[1]]) = Id(S[m[2]])}
      deleted2  == deleted1 \ {m[1] : m \in movedA}
      \* l.106-111: a created path whose (ino, dev) is found in the old snapshot is a move
      movedB    == {m \in (DOMAIN R) \X created1 : Id(R[m[1]]) = Id(S[m[2]])}
      created2  == created1 \ {m[2] : m \in movedB}
      moved     == movedA \cup movedB
      \* l.115-120: modified among the paths that did not move
      modified1 == {p \in DOMAIN R \cap DOMAIN S :
                       /\ GetInode(R, p, ig) = GetInode(S, p, ig)
                       /\ (R[p].mtime # S[p].mtime \/ R[p].size # S[p].size)}
      \* l.122-124: a moved entry that changed is listed under its OLD path
      modified2 == modified1 \cup {m[1] : m \in {x \in moved : R[x[1]].mtime # S[x[2]].mtime
                                                               \/ R[x[1]].size # S[x[2]].size}}
      \* l.126-134: classification
      dc == {p \in created2 : S[p].isdir}
      dd == {p \in deleted2 : R[p].isdir}
      dm == {p \in modified2 : R[p].isdir}
      dv == {m \in moved : R[m[1]].isdir}
  IN [fc |-> created2 \ dc, fd |-> deleted2 \ dd, fm |-> modified2 \ dm, fv |-> moved \ dv,
      dc |-> dc, dd |-> dd, dm |-> dm, dv |-> dv]

\* Seeded deviations (negative configs / documentation of what each law catches).
DiffNoSecondLoop(R, S, ig) ==       \* the `for path in set(created)` loop dropped
  LET reinoded == {p \in DOMAIN R \cap DOMAIN S : GetInode(R, p, ig) # GetInode(S, p, ig)}
      created1 == (DOMAIN S \ DOMAIN R) \cup reinoded
      deleted1 == (DOMAIN R \ DOMAIN S) \cup reinoded
      moved    == {m \in deleted1 \X (DOMAIN S) : Id(R[m[1]]) = Id(S[m[2]])}
      deleted2 == deleted1 \ {m[1] : m \in moved}
  IN [fc |-> {p \in created1 : ~S[p].isdir}, fd |-> {p \in deleted2 : ~R[p].isdir}, fm |-> {},
      fv |-> {m \in moved : ~R[m[1]].isdir}, dc |-> {p \in created1 : S[p].isdir},
      dd |-> {p \in deleted2 : R[p].isdir}, dm |-> {}, dv |-> {m \in moved : R[m[1]].isdir}]

(***************************************************************************************)
(* Part 2: the laws                                                                    *)
(***************************************************************************************)
EmptyDiff == [fc |-> {}, fd |-> {}, fm |-> {}, fv |-> {}, dc |-> {}, dd |-> {}, dm |-> {}, dv |-> {}]

Created(D)  == D.fc \cup D.dc
Deleted(D)  == D.fd \cup D.dd
Modified(D) == D.fm \cup D.dm
Moved(D)    == D.fv \cup D.dv
Srcs(D)     == {m[1] : m \in Moved(D)}
Dsts(D)     == {m[2] : m \in Moved(D)}

IdM(e, ig) == IF ig THEN e.ino ELSE Id(e)

\* "a tree in which every inode has one path" (the hypothesis of C09).  With ignore_device the caller promises
\* that the device is irrelevant, so an inode NUMBER must have one path.
OnePath(F, ig) == \A p, q \in DOMAIN F : p # q => IdM(F[p], ig) # IdM(F[q], ig)
Pre(R, S, ig)  == OnePath(R, ig) /\ OnePath(S, ig)

\* Correspondence of entries: Strict = certainly the same entry, Loose = possibly the same entry.
\* They coincide unless ig is TRUE and the device changed together with the path.
Strict(R, S, ig) == {m \in (DOMAIN R) \X (DOMAIN S) :
                        \/ Id(R[m[1]]) = Id(S[m[2]])
                        \/ (ig /\ m[1] = m[2] /\ R[m[1]].ino = S[m[2]].ino)}
Loose(R, S, ig)  == {m \in (DOMAIN R) \X (DOMAIN S) : IdM(R[m[1]], ig) = IdM(S[m[2]], ig)}
ChangedMS(R, S, m) == R[m[1]].mtime # S[m[2]].mtime \/ R[m[1]].size # S[m[2]].size

\* lists are well-formed and pairwise consistent
LawConsistent(R, S, ig, D) ==
    /\ Created(D) \subseteq DOMAIN S /\ Deleted(D) \subseteq DOMAIN R
    /\ Modified(D) \subseteq DOMAIN R \cup DOMAIN S
    /\ \A m \in Moved(D) : m[1] \in DOMAIN R /\ m[2] \in DOMAIN S /\ m[1] # m[2]
    /\ \A m, n \in Moved(D) : (m[1] = n[1] \/ m[2] = n[2]) => m = n          \* one destination per source
    /\ Deleted(D) \cap Srcs(D) = {} /\ Created(D) \cap Dsts(D) = {}

\* removing deleted paths and move sources, then adding created paths and move destinations = new path set
LawPartition(R, S, ig, D) ==
    ((DOMAIN R \ (Deleted(D) \cup Srcs(D))) \cup Created(D) \cup Dsts(D)) = DOMAIN S

\* The four identity laws, given the two correspondences st = Strict(R, S, ig) and lo = Loose(R, S, ig)
\* moved iff the same inode is found under a different path
MovedX(st, lo, D) ==
    /\ {m \in st : m[1] # m[2]} \subseteq Moved(D)
    /\ Moved(D) \subseteq {m \in lo : m[1] # m[2]}
\* created / deleted (only) if the inode is absent from the other snapshot
CreatedX(S, st, lo, D) ==
    /\ (DOMAIN S \ {m[2] : m \in lo}) \subseteq Created(D)
    /\ Created(D) \subseteq (DOMAIN S \ {m[2] : m \in st})
DeletedX(R, st, lo, D) ==
    /\ (DOMAIN R \ {m[1] : m \in lo}) \subseteq Deleted(D)
    /\ Deleted(D) \subseteq (DOMAIN R \ {m[1] : m \in st})
\* modified iff it kept its identity but changed mtime or size
ModifiedX(R, S, st, lo, D) ==
    /\ \A m \in st : ChangedMS(R, S, m) => (m[1] \in Modified(D) \/ m[2] \in Modified(D))
    /\ \A x \in Modified(D) : \E m \in lo : ChangedMS(R, S, m) /\ (x = m[1] \/ x = m[2])

LawMoved(R, S, ig, D)    == MovedX(Strict(R, S, ig), Loose(R, S, ig), D)
LawCreated(R, S, ig, D)  == CreatedX(S, Strict(R, S, ig), Loose(R, S, ig), D)
LawDeleted(R, S, ig, D)  == DeletedX(R, Strict(R, S, ig), Loose(R, S, ig), D)
LawModified(R, S, ig, D) == ModifiedX(R, S, Strict(R, S, ig), Loose(R, S, ig), D)

\* every entry appears in exactly one of the file / directory lists, according to its kind
LawKinds(R, S, ig, D) ==
    /\ D.fc \cap D.dc = {} /\ D.fd \cap D.dd = {} /\ D.fm \cap D.dm = {} /\ D.fv \cap D.dv = {}
    /\ \A p \in D.dc : p \in DOMAIN S /\ S[p].isdir
    /\ \A p \in D.fc : p \in DOMAIN S /\ ~S[p].isdir
    /\ \A p \in D.dd : p \in DOMAIN R /\ R[p].isdir
    /\ \A p \in D.fd : p \in DOMAIN R /\ ~R[p].isdir
    /\ \A m \in D.dv : (m[1] \in DOMAIN R /\ R[m[1]].isdir) \/ (m[2] \in DOMAIN S /\ S[m[2]].isdir)
    /\ \A m \in D.fv : (m[1] \in DOMAIN R /\ ~R[m[1]].isdir) \/ (m[2] \in DOMAIN S /\ ~S[m[2]].isdir)
    /\ \A p \in D.dm : (p \in DOMAIN R /\ R[p].isdir) \/ (p \in DOMAIN S /\ S[p].isdir)
    /\ \A p \in D.fm : (p \in DOMAIN R /\ ~R[p].isdir) \/ (p \in DOMAIN S /\ ~S[p].isdir)

\* diffing a snapshot against itself is empty
LawSelfEmpty(R, S, ig, D) == (R = S) => D = EmptyDiff

\* swapping the arguments swaps created with deleted and reverses moves  (Rv = the diff of (S, R))
LawSwap(D, Rv) ==
    /\ Created(D) = Deleted(Rv) /\ Deleted(D) = Created(Rv)
    /\ Moved(Rv) = {<<m[2], m[1]>> : m \in Moved(D)}

\* with ignore_device a pure change of device id is no change
PureDevChange(R, S) ==
    /\ DOMAIN R = DOMAIN S
    /\ \A p \in DOMAIN R : [R[p] EXCEPT !.dev = 0] = [S[p] EXCEPT !.dev = 0]
LawIgnoreDevice(R, S, ig, D) == (ig /\ PureDevChange(R, S)) => D = EmptyDiff

\* names of the laws violated by (R, S, ig, D, Rv); the laws only speak about one-path-per-inode inputs
Violated(R, S, ig, D, Rv) ==
    IF ~Pre(R, S, ig) THEN {}
    ELSE LET st == Strict(R, S, ig)
             lo == IF ig THEN Loose(R, S, ig) ELSE st
         IN (IF LawConsistent(R, S, ig, D) THEN {} ELSE {"Consistent"})
       \cup (IF LawPartition(R, S, ig, D) THEN {} ELSE {"Partition"})
       \cup (IF MovedX(st, lo, D) THEN {} ELSE {"Moved"})
       \cup (IF CreatedX(S, st, lo, D) THEN {} ELSE {"Created"})
       \cup (IF DeletedX(R, st, lo, D) THEN {} ELSE {"Deleted"})
       \cup (IF ModifiedX(R, S, st, lo, D) THEN {} ELSE {"Modified"})
       \cup (IF LawKinds(R, S, ig, D) THEN {} ELSE {"Kinds"})
       \cup (IF LawSelfEmpty(R, S, ig, D) THEN {} ELSE {"SelfEmpty"})
       \cup (IF LawSwap(D, Rv) THEN {} ELSE {"Swap"})
       \cup (IF LawIgnoreDevice(R, S, ig, D) THEN {} ELSE {"IgnoreDevice"})

(***************************************************************************************)
(* Part 3: bounded universe, behaviour, invariants                                     *)
(***************************************************************************************)
CONSTANTS NonRootPaths,   \* set of non-empty name sequences, closed under parent
          Inodes, Devs, Mtimes, Sizes,
          MaxEntries,     \* non-root entries per snapshot
          RootRecs,       \* possible stat records of the root
          Deviation       \* "none" | "noloop2" (negative config)

Root == <<>>
Parent(p) == SubSeq(p, 1, Len(p) - 1)

\* path universes selected by the configs
PathsFlat  == {<<1>>, <<2>>}
PathsSmall == {<<1>>, <<2>>, <<1, 1>>}
PathsFull  == {<<1>>, <<2>>, <<1, 1>>, <<1, 2>>, <<2, 1>>, <<2, 2>>}
RootFixed  == {[ino |-> 0, dev |-> 1, isdir |-> TRUE, mtime |-> 1, size |-> 1]}
RootMtimes == {[ino |-> 0, dev |-> 1, isdir |-> TRUE, mtime |-> m, size |-> 1] : m \in Mtimes}
RootInoDev == {[ino |-> i, dev |-> dv, isdir |-> TRUE, mtime |-> 1, size |-> 1] : i \in {0} \cup Inodes, dv \in Devs}

PathSets == {P \in SUBSET NonRootPaths :
                /\ Cardinality(P) <= MaxEntries
                /\ \A p \in P : Len(p) > 1 => Parent(p) \in P}
EntryRecs == [ino : Inodes, dev : Devs, isdir : BOOLEAN, mtime : Mtimes, size : Sizes]

\* one path per (ino, dev); a child's parent is a directory of the same snapshot
SnapsOn(P) == {s \in {f @@ (Root :> r) : f \in [P -> EntryRecs], r \in RootRecs} :
                  /\ \A p, q \in P \cup {Root} : p # q => Id(s[p]) # Id(s[q])
                  /\ \A p \in P : Len(p) > 1 => s[Parent(p)].isdir}
Snapshots == UNION {SnapsOn(P) : P \in PathSets}

VARIABLES ref, snap, ign, phase, d, rv,
          bad        \* names of the laws violated by the pair just computed (each law is evaluated once per pair)
vars == <<ref, snap, ign, phase, d, rv, bad>>

TheDiff(R, S, ig) == IF Deviation = "noloop2" THEN DiffNoSecondLoop(R, S, ig) ELSE Diff(R, S, ig)

Init == /\ ref \in Snapshots /\ ign \in BOOLEAN
        /\ snap = ref /\ phase = "pick" /\ d = EmptyDiff /\ rv = EmptyDiff /\ bad = {}

\* one evaluation of DirectorySnapshotDiff(ref, snap) and of DirectorySnapshotDiff(snap, ref)
Compute == /\ phase = "pick"
           /\ snap' \in Snapshots
           /\ d' = TheDiff(ref, snap', ign)
           /\ rv' = TheDiff(snap', ref, ign)
           /\ bad' = Violated(ref, snap', ign, d', rv')
           /\ phase' = "done"
           /\ UNCHANGED <<ref, ign>>

Next == Compute
Spec == Init /\ [][Next]_vars

C09_Consistent   == "Consistent" \notin bad
C09_Partition    == "Partition" \notin bad
C09_Moved        == "Moved" \notin bad
C09_Created      == "Created" \notin bad
C09_Deleted      == "Deleted" \notin bad
C09_Modified     == "Modified" \notin bad
C09_Kinds        == "Kinds" \notin bad
C09_SelfEmpty    == "SelfEmpty" \notin bad
C09_Swap         == "Swap" \notin bad
C09_IgnoreDevice == "IgnoreDevice" \notin bad

\* vacuity guards (negated in a _cover config: TLC must find each of them reachable)
\* a pair to which the laws apply and that exercises: a move, an in-place inode replacement, a pure device change
CoverMove    == ~(phase = "done" /\ Pre(ref, snap, ign) /\ Moved(d) # {})
CoverReplace == ~(phase = "done" /\ Pre(ref, snap, ign) /\ Created(d) \cap Deleted(d) # {})
CoverDevOnly == ~(phase = "done" /\ ign /\ Pre(ref, snap, ign) /\ ref # snap /\ PureDevChange(ref, snap))

\* not a law: the number of snapshots, printed once so that the Python enumeration can be compared with it
ASSUME PrintT(<<"C09UNIVERSE", Cardinality(Snapshots)>>)
=============================================================================
