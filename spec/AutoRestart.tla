----------------------------- MODULE AutoRestart -----------------------------
(* Implementation-shaped model of watchdog.tricks.AutoRestartTrick + ProcessWatcher (C18). *)
(*                                                                                         *)
(* Shared state: self.process, self.process_watcher, _is_process_stopping,                 *)
(* _is_trick_stopping (the RLock _stopping_lock surrounds ONLY the two test-and-set blocks; *)
(* every other access is unprotected and is a separate step here), the process table       *)
(* (spawned = 1..nspawn, alive; a child may exit by itself at any time: Exit), and the      *)
(* per-watcher stopped_event.                                                              *)
(* Threads: D = the observer's dispatcher thread calling on_any_event (-> debouncer, or     *)
(* _restart_process directly), B = the debouncer thread (callback = _restart_process, run   *)
(* with the debouncer's condition lock held; its timing is abstracted, Debouncer.tla has    *)
(* it), watcher i = ProcessWatcher thread of child i (poll loop; calls _restart_process      *)
(* when the child is gone and the watcher was not stopped), A = application thread calling  *)
(* stop().  start() has completed in Init (watchmedo starts the trick before the observer). *)
(*                                                                                         *)
(*   _restart_process: if trick_stopping: return; _stop_process(); _start_process(); count  *)
(*   _stop_process:    with lock: if process_stopping: return; process_stopping = True      *)
(*                     try: if pw is not None: pw.stop(); pw = None                         *)
(*                          if process is not None: kill (OSError: gone) else wait loop,     *)
(*                             kill 9;  process = None                                       *)
(*                     finally: process_stopping = False                                    *)
(*   _start_process:   if trick_stopping: return; process = Popen(); if restart_on_exit:    *)
(*                     pw = ProcessWatcher(process, _restart_process); pw.start()           *)
(*   stop():           with lock: if trick_stopping: return; trick_stopping = True          *)
(*                     pw = self.process_watcher; debouncer.stop(); _stop_process();        *)
(*                     debouncer.join(); pw.join()                                          *)
(*                                                                                         *)
(* FixLock = FALSE is the code as it is.  FixLock = TRUE is the proposed repair             *)
(* (proposed_fixes/C18_autorestart_restart_lock.diff): a lock held by _restart_process for  *)
(* its whole body and by stop() around "read process_watcher; _stop_process()".             *)
EXTENDS Naturals, Integers, Sequences, FiniteSets, TLC

CONSTANTS MaxP,      \* processes spawned at most (model bound)
          MaxEv,     \* events the dispatcher hands in
          MaxExit,   \* self-exits of children
          ROE,       \* values of restart_on_command_exit tried (subset of BOOLEAN)
          DEB,       \* with / without debouncer
          DOS,       \* children die on the stop signal / only on SIGKILL after the wait loop
          FixLock

D == 100
A == 101
B == 102
W == 1..MaxP                  \* watcher i watches child i
Thr == W \cup {D, A, B}

VARIABLES roe, deb, dos,
          alive, nspawn,
          process, pwatch,       \* self.process / self.process_watcher (0 = None)
          procStopping, trickStopping,
          wstopped, wstarted,    \* watcher stopped_event set / thread started
          pc, np, ctx,           \* per thread: program counter, local new pid / watcher, caller of _stop_process
          rlock,                 \* owner of the proposed restart lock (0 = free)
          dbPending, dbStopped,  \* debouncer: a batch is pending / stop() was called on it
          nEv, nExit, nTrig, count,
          stopRet, crashed
vars == <<roe, deb, dos, alive, nspawn, process, pwatch, procStopping, trickStopping, wstopped, wstarted, pc, np, ctx,
          rlock, dbPending, dbStopped, nEv, nExit, nTrig, count, stopRet, crashed>>

Home(t) == IF t = D THEN "idle" ELSE IF t = B THEN "bidle" ELSE IF t = A THEN "a_ret" ELSE "exit"

Init == /\ roe \in ROE /\ deb \in DEB /\ dos \in DOS
        /\ alive = {1} /\ nspawn = 1 /\ process = 1
        /\ pwatch = (IF roe THEN 1 ELSE 0)
        /\ procStopping = FALSE /\ trickStopping = FALSE
        /\ wstopped = {} /\ wstarted = (IF roe THEN {1} ELSE {})
        /\ pc = [t \in Thr |-> IF t = D THEN "idle" ELSE IF t = A THEN "a_idle" ELSE IF t = B THEN (IF deb THEN "bidle" ELSE "exit")
                               ELSE IF t = 1 /\ roe THEN "poll" ELSE "new"]
        /\ np = [t \in Thr |-> 0] /\ ctx = [t \in Thr |-> "restart"]
        /\ rlock = 0 /\ dbPending = FALSE /\ dbStopped = FALSE
        /\ nEv = 0 /\ nExit = 0 /\ nTrig = 0 /\ count = 0 /\ stopRet = FALSE /\ crashed = {}

Goto(t, l) == pc' = [pc EXCEPT ![t] = l]
\* the debouncer's condition lock is held by B while it runs the callback
CondFree == pc[B] \in {"bidle", "exit"}
CallRestart(t) == Goto(t, IF FixLock THEN "r_lk" ELSE "r0")

\* ---- environment: a child exits by itself
Exit(i) == /\ i \in alive /\ nExit < MaxExit
           /\ alive' = alive \ {i} /\ nExit' = nExit + 1
           /\ UNCHANGED <<roe, deb, dos, nspawn, process, pwatch, procStopping, trickStopping, wstopped, wstarted, pc, np, ctx, rlock, dbPending, dbStopped, nEv, nTrig, count, stopRet, crashed>>

\* ---- dispatcher: on_any_event
D_Event == /\ pc[D] = "idle" /\ nEv < MaxEv
           /\ nEv' = nEv + 1
           /\ IF deb THEN /\ CondFree /\ dbPending' = TRUE /\ UNCHANGED <<pc, nTrig>>     \* handle_event
                     ELSE /\ CallRestart(D) /\ nTrig' = nTrig + 1 /\ UNCHANGED dbPending
           /\ UNCHANGED <<roe, deb, dos, alive, nspawn, process, pwatch, procStopping, trickStopping, wstopped, wstarted, np, ctx, rlock, dbStopped, nExit, count, stopRet, crashed>>

\* ---- debouncer thread (timing abstracted): deliver a batch / exit after stop
B_Step == /\ pc[B] = "bidle"
          /\ IF dbStopped THEN Goto(B, "exit") /\ UNCHANGED <<dbPending, nTrig>>
             ELSE /\ dbPending /\ dbPending' = FALSE /\ nTrig' = nTrig + 1 /\ CallRestart(B)
          /\ UNCHANGED <<roe, deb, dos, alive, nspawn, process, pwatch, procStopping, trickStopping, wstopped, wstarted, np, ctx, rlock, dbStopped, nEv, nExit, count, stopRet, crashed>>

\* ---- ProcessWatcher.run
W_Poll(i) == /\ pc[i] = "poll"
             /\ Goto(i, IF i \in alive THEN "wait" ELSE "fin")
             /\ UNCHANGED <<roe, deb, dos, alive, nspawn, process, pwatch, procStopping, trickStopping, wstopped, wstarted, np, ctx, rlock, dbPending, dbStopped, nEv, nExit, nTrig, count, stopRet, crashed>>
W_Wait(i) == /\ pc[i] = "wait"                    \* stopped_event.wait(0.1): set -> return, else poll again
             /\ Goto(i, IF i \in wstopped THEN "exit" ELSE "poll")
             /\ UNCHANGED <<roe, deb, dos, alive, nspawn, process, pwatch, procStopping, trickStopping, wstopped, wstarted, np, ctx, rlock, dbPending, dbStopped, nEv, nExit, nTrig, count, stopRet, crashed>>
W_Fin(i) == /\ pc[i] = "fin"                      \* `if not stopped_event.is_set(): callback()`
            /\ IF i \in wstopped THEN Goto(i, "exit") /\ UNCHANGED nTrig
               ELSE CallRestart(i) /\ nTrig' = nTrig + 1
            /\ UNCHANGED <<roe, deb, dos, alive, nspawn, process, pwatch, procStopping, trickStopping, wstopped, wstarted, np, ctx, rlock, dbPending, dbStopped, nEv, nExit, count, stopRet, crashed>>

\* ---- an exception (AttributeError on None, RuntimeError on a second start()) unwinds the thread's call:
\* `finally` of _stop_process, `with` of the proposed lock; ProcessWatcher.run catches it, the others die with it
Unwind(t, inStop) ==
    /\ crashed' = crashed \cup {t}
    /\ procStopping' = (IF inStop THEN FALSE ELSE procStopping)
    /\ rlock' = (IF rlock = t THEN 0 ELSE rlock)
    /\ Goto(t, IF t \in W THEN "exit" ELSE IF t = A THEN "a_ret" ELSE "dead")

\* ---- _restart_process / _stop_process / _start_process, run by thread t
R_Lock(t) == /\ pc[t] = "r_lk" /\ rlock = 0 /\ rlock' = t /\ Goto(t, "r0")
             /\ UNCHANGED <<roe, deb, dos, alive, nspawn, process, pwatch, procStopping, trickStopping, wstopped, wstarted, np, ctx, dbPending, dbStopped, nEv, nExit, nTrig, count, stopRet, crashed>>
R_Test(t) == /\ pc[t] = "r0"
             /\ IF trickStopping THEN Goto(t, "r_out") /\ UNCHANGED ctx
                ELSE Goto(t, "sp0") /\ ctx' = [ctx EXCEPT ![t] = "restart"]
             /\ UNCHANGED <<roe, deb, dos, alive, nspawn, process, pwatch, procStopping, trickStopping, wstopped, wstarted, np, rlock, dbPending, dbStopped, nEv, nExit, nTrig, count, stopRet, crashed>>
SpRet(t) == IF ctx[t] = "restart" THEN "st0" ELSE IF FixLock THEN "a_unlk" ELSE "a4"
\* with _stopping_lock: if _is_process_stopping: return; _is_process_stopping = True
SP_Flag(t) == /\ pc[t] = "sp0"
              /\ IF procStopping THEN Goto(t, SpRet(t)) /\ UNCHANGED procStopping
                 ELSE procStopping' = TRUE /\ Goto(t, "sp1")
              /\ UNCHANGED <<roe, deb, dos, alive, nspawn, process, pwatch, trickStopping, wstopped, wstarted, np, ctx, rlock, dbPending, dbStopped, nEv, nExit, nTrig, count, stopRet, crashed>>
SP_PwTest(t) == /\ pc[t] = "sp1"                   \* if self.process_watcher is not None:
                /\ Goto(t, IF pwatch = 0 THEN "sp3" ELSE "sp1b")
                /\ UNCHANGED <<roe, deb, dos, alive, nspawn, process, pwatch, procStopping, trickStopping, wstopped, wstarted, np, ctx, rlock, dbPending, dbStopped, nEv, nExit, nTrig, count, stopRet, crashed>>
SP_PwStop(t) == /\ pc[t] = "sp1b"                  \* self.process_watcher.stop()   (read again)
                /\ IF pwatch = 0 THEN Unwind(t, TRUE) /\ UNCHANGED wstopped
                   ELSE wstopped' = wstopped \cup {pwatch} /\ Goto(t, "sp2") /\ UNCHANGED <<crashed, procStopping, rlock>>
                /\ UNCHANGED <<roe, deb, dos, alive, nspawn, process, pwatch, trickStopping, wstarted, np, ctx, dbPending, dbStopped, nEv, nExit, nTrig, count, stopRet>>
SP_PwNone(t) == /\ pc[t] = "sp2" /\ pwatch' = 0 /\ Goto(t, "sp3")
                /\ UNCHANGED <<roe, deb, dos, alive, nspawn, process, procStopping, trickStopping, wstopped, wstarted, np, ctx, rlock, dbPending, dbStopped, nEv, nExit, nTrig, count, stopRet, crashed>>
SP_ProcTest(t) == /\ pc[t] = "sp3"                 \* if self.process is not None:
                  /\ Goto(t, IF process = 0 THEN "sp_fin" ELSE "sp4")
                  /\ UNCHANGED <<roe, deb, dos, alive, nspawn, process, pwatch, procStopping, trickStopping, wstopped, wstarted, np, ctx, rlock, dbPending, dbStopped, nEv, nExit, nTrig, count, stopRet, crashed>>
SP_Kill(t) == /\ pc[t] = "sp4"                     \* kill_process(self.process.pid, stop_signal)
              /\ IF process = 0 THEN Unwind(t, TRUE) /\ UNCHANGED alive
                 ELSE /\ UNCHANGED <<crashed, procStopping, rlock>>
                      /\ IF process \notin alive THEN Goto(t, "sp5") /\ UNCHANGED alive          \* OSError: already gone
                         ELSE /\ alive' = (IF dos THEN alive \ {process} ELSE alive)
                              /\ Goto(t, "sp4w")
              /\ UNCHANGED <<roe, deb, dos, nspawn, process, pwatch, trickStopping, wstopped, wstarted, np, ctx, dbPending, dbStopped, nEv, nExit, nTrig, count, stopRet>>
\* one iteration of `while time.time() < kill_time: if self.process.poll() is not None: break; sleep(0.25)`, or its else
SP_WaitLoop(t) == /\ pc[t] = "sp4w"
                  /\ IF process = 0 THEN Unwind(t, TRUE)
                     ELSE /\ UNCHANGED <<crashed, procStopping, rlock>>
                          /\ IF process \notin alive THEN Goto(t, "sp5")
                             ELSE Goto(t, "sp4w") \/ Goto(t, "sp4k")            \* sleep again / time is up
                  /\ UNCHANGED <<roe, deb, dos, alive, nspawn, process, pwatch, trickStopping, wstopped, wstarted, np, ctx, dbPending, dbStopped, nEv, nExit, nTrig, count, stopRet>>
SP_Kill9(t) == /\ pc[t] = "sp4k"                   \* kill_process(self.process.pid, 9)  (OSError suppressed)
               /\ IF process = 0 THEN Unwind(t, TRUE) /\ UNCHANGED alive
                  ELSE alive' = alive \ {process} /\ Goto(t, "sp5") /\ UNCHANGED <<crashed, procStopping, rlock>>
               /\ UNCHANGED <<roe, deb, dos, nspawn, process, pwatch, trickStopping, wstopped, wstarted, np, ctx, dbPending, dbStopped, nEv, nExit, nTrig, count, stopRet>>
SP_ProcNone(t) == /\ pc[t] = "sp5" /\ process' = 0 /\ Goto(t, "sp_fin")
                  /\ UNCHANGED <<roe, deb, dos, alive, nspawn, pwatch, procStopping, trickStopping, wstopped, wstarted, np, ctx, rlock, dbPending, dbStopped, nEv, nExit, nTrig, count, stopRet, crashed>>
SP_Finally(t) == /\ pc[t] = "sp_fin" /\ procStopping' = FALSE /\ Goto(t, SpRet(t))
                 /\ UNCHANGED <<roe, deb, dos, alive, nspawn, process, pwatch, trickStopping, wstopped, wstarted, np, ctx, rlock, dbPending, dbStopped, nEv, nExit, nTrig, count, stopRet, crashed>>

ST_Test(t) == /\ pc[t] = "st0"                     \* if self._is_trick_stopping: return
              /\ Goto(t, IF trickStopping THEN "rc" ELSE "st1")
              /\ UNCHANGED <<roe, deb, dos, alive, nspawn, process, pwatch, procStopping, trickStopping, wstopped, wstarted, np, ctx, rlock, dbPending, dbStopped, nEv, nExit, nTrig, count, stopRet, crashed>>
ST_Spawn(t) == /\ pc[t] = "st1" /\ nspawn < MaxP   \* subprocess.Popen(...)
               /\ nspawn' = nspawn + 1 /\ alive' = alive \cup {nspawn + 1}
               /\ np' = [np EXCEPT ![t] = nspawn + 1] /\ Goto(t, "st2")
               /\ UNCHANGED <<roe, deb, dos, process, pwatch, procStopping, trickStopping, wstopped, wstarted, ctx, rlock, dbPending, dbStopped, nEv, nExit, nTrig, count, stopRet, crashed>>
ST_Assign(t) == /\ pc[t] = "st2" /\ process' = np[t]    \* self.process = <the new Popen>
                /\ Goto(t, IF roe THEN "st3" ELSE "rc")
                /\ UNCHANGED <<roe, deb, dos, alive, nspawn, pwatch, procStopping, trickStopping, wstopped, wstarted, np, ctx, rlock, dbPending, dbStopped, nEv, nExit, nTrig, count, stopRet, crashed>>
ST_PwAssign(t) == /\ pc[t] = "st3" /\ pwatch' = np[t] /\ Goto(t, "st4")   \* self.process_watcher = ProcessWatcher(...)
                  /\ UNCHANGED <<roe, deb, dos, alive, nspawn, process, procStopping, trickStopping, wstopped, wstarted, np, ctx, rlock, dbPending, dbStopped, nEv, nExit, nTrig, count, stopRet, crashed>>
ST_PwStart(t) == /\ pc[t] = "st4"                  \* self.process_watcher.start()   (read again)
                 /\ IF pwatch = 0 \/ pwatch \in wstarted
                    THEN Unwind(t, FALSE) /\ UNCHANGED wstarted
                    ELSE /\ wstarted' = wstarted \cup {pwatch}
                         /\ pc' = [pc EXCEPT ![t] = "rc", ![pwatch] = "poll"]
                         /\ UNCHANGED <<crashed, procStopping, rlock>>
                 /\ UNCHANGED <<roe, deb, dos, alive, nspawn, process, pwatch, trickStopping, wstopped, np, ctx, dbPending, dbStopped, nEv, nExit, nTrig, count, stopRet>>
R_Count(t) == /\ pc[t] = "rc" /\ count' = count + 1 /\ Goto(t, "r_out")
              /\ UNCHANGED <<roe, deb, dos, alive, nspawn, process, pwatch, procStopping, trickStopping, wstopped, wstarted, np, ctx, rlock, dbPending, dbStopped, nEv, nExit, nTrig, stopRet, crashed>>
R_Out(t) == /\ pc[t] = "r_out" /\ Goto(t, Home(t))
            /\ rlock' = (IF rlock = t THEN 0 ELSE rlock)
            /\ UNCHANGED <<roe, deb, dos, alive, nspawn, process, pwatch, procStopping, trickStopping, wstopped, wstarted, np, ctx, dbPending, dbStopped, nEv, nExit, nTrig, count, stopRet, crashed>>

Proc(t) == R_Lock(t) \/ R_Test(t) \/ SP_Flag(t) \/ SP_PwTest(t) \/ SP_PwStop(t) \/ SP_PwNone(t) \/ SP_ProcTest(t) \/ SP_Kill(t)
           \/ SP_WaitLoop(t) \/ SP_Kill9(t) \/ SP_ProcNone(t) \/ SP_Finally(t) \/ ST_Test(t) \/ ST_Spawn(t) \/ ST_Assign(t)
           \/ ST_PwAssign(t) \/ ST_PwStart(t) \/ R_Count(t) \/ R_Out(t)

\* ---- stop(), run by A.   Local `process_watcher` is kept in np[A].
A_Flag == /\ pc[A] = "a_idle"                      \* with lock: if trick_stopping: return; trick_stopping = True
          /\ trickStopping' = TRUE
          /\ Goto(A, IF FixLock THEN "a2" ELSE "a1")
          /\ UNCHANGED <<roe, deb, dos, alive, nspawn, process, pwatch, procStopping, wstopped, wstarted, np, ctx, rlock, dbPending, dbStopped, nEv, nExit, nTrig, count, stopRet, crashed>>
A_ReadPw == /\ pc[A] = "a1"                        \* process_watcher = self.process_watcher
            /\ np' = [np EXCEPT ![A] = pwatch]
            /\ IF FixLock THEN Goto(A, "sp0") /\ ctx' = [ctx EXCEPT ![A] = "stop"] ELSE Goto(A, "a2") /\ UNCHANGED ctx
            /\ UNCHANGED <<roe, deb, dos, alive, nspawn, process, pwatch, procStopping, trickStopping, wstopped, wstarted, rlock, dbPending, dbStopped, nEv, nExit, nTrig, count, stopRet, crashed>>
A_DebStop == /\ pc[A] = "a2"                       \* if self.event_debouncer is not None: self.event_debouncer.stop()
             /\ (deb => CondFree)
             /\ dbStopped' = (IF deb THEN TRUE ELSE dbStopped)
             /\ IF FixLock THEN Goto(A, "a_lk") /\ UNCHANGED ctx ELSE Goto(A, "sp0") /\ ctx' = [ctx EXCEPT ![A] = "stop"]
             /\ UNCHANGED <<roe, deb, dos, alive, nspawn, process, pwatch, procStopping, trickStopping, wstopped, wstarted, np, rlock, dbPending, nEv, nExit, nTrig, count, stopRet, crashed>>
A_Lock == /\ pc[A] = "a_lk" /\ rlock = 0 /\ rlock' = A /\ Goto(A, "a1")
          /\ UNCHANGED <<roe, deb, dos, alive, nspawn, process, pwatch, procStopping, trickStopping, wstopped, wstarted, np, ctx, dbPending, dbStopped, nEv, nExit, nTrig, count, stopRet, crashed>>
A_Unlock == /\ pc[A] = "a_unlk" /\ rlock' = 0 /\ Goto(A, "a4")
            /\ UNCHANGED <<roe, deb, dos, alive, nspawn, process, pwatch, procStopping, trickStopping, wstopped, wstarted, np, ctx, dbPending, dbStopped, nEv, nExit, nTrig, count, stopRet, crashed>>
A_JoinDeb == /\ pc[A] = "a4" /\ (deb => pc[B] \in {"exit", "dead"}) /\ Goto(A, "a5")
             /\ UNCHANGED <<roe, deb, dos, alive, nspawn, process, pwatch, procStopping, trickStopping, wstopped, wstarted, np, ctx, rlock, dbPending, dbStopped, nEv, nExit, nTrig, count, stopRet, crashed>>
\* process_watcher.join(): RuntimeError if that thread was never started (seen between `pw = ProcessWatcher()` and `pw.start()`)
A_JoinPw == /\ pc[A] = "a5"
            /\ IF np[A] # 0 /\ np[A] \notin wstarted
               THEN Unwind(A, FALSE) /\ UNCHANGED stopRet
               ELSE /\ (np[A] # 0 => pc[np[A]] = "exit") /\ Goto(A, "a_ret") /\ stopRet' = TRUE
                    /\ UNCHANGED <<crashed, procStopping, rlock>>
            /\ UNCHANGED <<roe, deb, dos, alive, nspawn, process, pwatch, trickStopping, wstopped, wstarted, np, ctx, dbPending, dbStopped, nEv, nExit, nTrig, count>>

Next == \/ \E i \in 1..MaxP : Exit(i) \/ W_Poll(i) \/ W_Wait(i) \/ W_Fin(i)
        \/ D_Event \/ B_Step
        \/ \E t \in Thr : Proc(t)
        \/ A_Flag \/ A_ReadPw \/ A_DebStop \/ A_Lock \/ A_Unlock \/ A_JoinDeb \/ A_JoinPw
Spec == Init /\ [][Next]_vars
AStep == A_Flag \/ A_ReadPw \/ A_DebStop \/ A_Lock \/ A_Unlock \/ A_JoinDeb \/ A_JoinPw
FairSpec == /\ Spec /\ WF_vars(AStep) /\ WF_vars(B_Step)
            /\ \A t \in Thr : WF_vars(Proc(t))
            /\ \A i \in W : WF_vars(W_Poll(i) \/ W_Wait(i) \/ W_Fin(i))

\* ---- properties (C18, auto-restart part)
\* a watcher has nothing left to do: not created / exited, or polling a live child without having been stopped
WatcherIdle(i) == pc[i] \in {"new", "exit"} \/ (pc[i] \in {"poll", "wait"} /\ i \in alive /\ i \notin wstopped)
Settled == /\ pc[D] \in {"idle", "dead"} /\ pc[A] \in {"a_idle", "a_ret"}
           /\ pc[B] \in {"exit", "dead"} \/ (pc[B] = "bidle" /\ ~dbStopped /\ ~dbPending)
           /\ \A i \in W : WatcherIdle(i)

C18_AtMostOneChild == Cardinality(alive) <= 1
\* one restart (exactly one new child) per trigger: event / batch / self-exit seen by an unstopped watcher
C18_RestartPerTrigger ==
    /\ nspawn - 1 <= nTrig
    /\ (Settled /\ ~trickStopping /\ crashed = {}) =>
          /\ nspawn - 1 = nTrig /\ count = nTrig
          /\ (~deb => nTrig >= nEv)
          /\ (roe => alive # {})
\* after stop() has returned no child is alive ...
C18_NothingAfterStop == stopRet => alive = {}
\* ... and none is started later
C18_NoSpawnAfterStop == [][stopRet => nspawn' = nspawn]_vars
\* ... with all helper threads gone (once everybody has come to rest)
C18_HelpersGone == (stopRet /\ Settled) => /\ \A i \in wstarted : pc[i] = "exit"
                                           /\ pc[B] \in {"exit", "dead"}
C18_NoCrash == crashed = {}
\* stop() returns (no deadlock between stop(), the debouncer callback and the watchers)
C18_StopReturns == (pc[A] # "a_idle") ~> (pc[A] = "a_ret")

Bound == nspawn <= MaxP
=============================================================================
