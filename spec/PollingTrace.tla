---------------------------- MODULE PollingTrace ----------------------------
(* Level-P trace specification for C10 (DESIGN §3, §6.3).                                *)
(* Black-box lines recorded while the REAL PollingEmitter runs on the harness VFS:       *)
(*   start : rec (watch.is_recursive), tree, fault, res ("ok" | "raised")                *)
(*           the emitter was started (on_thread_start = baseline snapshot)               *)
(*   poll  : tree, fault, ev, alive, exc                                                 *)
(*           the tree served to this poll, the fault injected into its walk, the events  *)
(*           the emitter put on the REAL EventQueue during this poll, in order, whether  *)
(*           the emitter is still running afterwards, and the exception that escaped     *)
(*   snap  : rec, tree, fault, got, raised                                               *)
(*           one REAL DirectorySnapshot taken directly (its paths and stat data)         *)
(*   end   : alive, uncaught   (threaded runs) after stop()+join(): is a thread left,    *)
(*           how many threads died of an uncaught exception                              *)
(* tree  = list of <<path, ino, isdir, mtime, size>>, path = sequence of small ints,     *)
(*         <<>> = the watched root; an empty list = the root does not exist              *)
(* fault = [op |-> "none" | "stat" | "listdir", p |-> path, err |-> errno name]          *)
(*         (+ n: the call index the harness used, ignored here)                          *)
(* ev    = list of <<class, src path, dest path or <<0>> >>                              *)
(*                                                                                       *)
(* The monitors recompute, inside TLA+, the snapshot each poll must have taken           *)
(* (Polling!Expected: reachable entries minus what the fault hides) and judge the events *)
(* by the C09 laws between successive expected snapshots (Polling!EventsAreDiff): the    *)
(* code is never compared with the transcription Polling!EmitDiff / SnapshotDiff!Diff.   *)
(* Permissive points: an unreadable root (EACCES on listdir(root)) may be handled as     *)
(* "root gone" or as "root is empty"; start() on a missing root may raise or not.        *)
(* viol holds numbers  line * 16 + clause  (TLC wraps long tuples when printing):        *)
(*   1 P_C10_EventsEqualDiff   2 P_C10_DeletionsBeforeCreations  3 P_C10_NothingWhenUnchanged *)
(*   4 P_C10_SnapshotIsReachableSet  5 P_C10_FaultMeansAbsent  6 P_C10_RootGone          *)
(*   7 P_C10_StoppedIsFinal    8 P_C10_BaselineAtStart                                   *)
EXTENDS TraceUtil

VARIABLES tid, l, viol,
          tprev,      \* the snapshot the emitter must be holding (as the property defines it)
          trec,       \* watch.is_recursive
          tstopped,   \* the emitter has stopped (root gone) or died
          drift       \* Level I: polls whose events differ from Polling!EventsOf(SnapshotDiff!Diff(...)); never a verdict
vars == <<tid, l, viol, tprev, trec, tstopped, drift>>

P == INSTANCE Polling WITH Names <- {}, InoPool <- {}, MaxEntries <- 0, MaxOps <- 0, MaxOpsPerPoll <- 0, MaxPolls <- 0,
                           MaxFaults <- 0, Errs <- {}, RecModes <- {}, FaultBaseline <- FALSE, Deviation <- "none",
                           fs <- 0, rec <- FALSE, epc <- "", mode <- "", prev <- 0, cur <- 0, stack <- <<>>, out <- <<>>,
                           nops <- 0, opsSince <- 0, polls <- 0, nfaults <- 0, flt <- 0, before <- 0, after <- 0

Tr == AllTraces[tid]
ASSUME InitRegs

Root == <<>>
TreeOf(es) == [p \in {es[i][1] : i \in 1..Len(es)} |->
                  LET e == es[CHOOSE i \in 1..Len(es) : es[i][1] = p]
                  IN [ino |-> e[2], dev |-> 1, isdir |-> e[3], mtime |-> e[4], size |-> e[5]]]
SnapOf(es) == [p \in {es[i][1] : i \in 1..Len(es)} |->
                  LET e == es[CHOOSE i \in 1..Len(es) : es[i][1] = p]
                  IN [ino |-> e[2], dev |-> e[3], isdir |-> e[4], mtime |-> e[5], size |-> e[6]]]
FaultOf(f) == [op |-> f.op, path |-> f.p, err |-> f.err]
EvsOf(ev) == [i \in 1..Len(ev) |-> [cls |-> ev[i][1], src |-> ev[i][2], dst |-> ev[i][3]]]
OnlyRootDeleted(evs) == evs = <<[cls |-> "DirDeleted", src |-> Root, dst |-> <<0>>]>>
\* an unreadable root: "treated as absent" may mean the root is gone or the root has no (visible) children
UnreadableRoot(f) == f.op = "listdir" /\ f.path = Root /\ f.err = "EACCES"

Code(cond, k) == IF cond THEN {} ELSE {l * 16 + k}
\* the drift count travels as one negative number added with the last line
Add(S) == viol' = (IF Cardinality(viol) >= 4 THEN viol ELSE viol \cup S)
                  \cup (IF l = Len(Tr) /\ drift' > 0 THEN {0 - drift'} ELSE {})

Init == tid \in 1..NTraces /\ l = 1 /\ viol = {} /\ tprev = <<>> /\ trec = FALSE /\ tstopped = FALSE /\ drift = 0

Consume(k) == l <= Len(Tr) /\ Tr[l].e = k /\ l' = l + 1 /\ UNCHANGED tid

StartLine ==
    /\ Consume("start")
    /\ LET ln == Tr[l]  F == TreeOf(ln.tree)  f == FaultOf(ln.fault)
           gone == P!RootGoneBy(F, f)
       IN /\ trec' = ln.rec /\ drift' = drift
          /\ IF ln.res = "raised"
             THEN \* P_C10_BaselineAtStart: start() may only fail when the root cannot be read
                  /\ Add(Code(gone, 8)) /\ tstopped' = TRUE /\ UNCHANGED tprev
             ELSE \* the baseline is the tree at start(), as the walk of start() saw it; the property does not say what a
                  \* successful start() on a missing root holds: nothing
                  /\ Add({}) /\ tstopped' = FALSE
                  /\ tprev' = IF gone /\ UnreadableRoot(f) THEN P!Expected(F, ln.rec, [f EXCEPT !.err = "ENOENT"])
                              ELSE IF gone THEN <<>>
                              ELSE P!Expected(F, ln.rec, f)

PollLine ==
    /\ Consume("poll")
    /\ LET ln == Tr[l]  F == TreeOf(ln.tree)  f == FaultOf(ln.fault)  evs == EvsOf(ln.ev)
           gone == P!RootGoneBy(F, f)
           exp == P!Expected(F, trec, f)
           expEmptyRoot == P!Expected(F, trec, [f EXCEPT !.err = "ENOENT"])
           faulted == f.op # "none"
           \* the clauses of one normal poll against the expected new snapshot E
           Normal(E) == Code(P!EventsAreDiff(evs, tprev, E), IF faulted THEN 5 ELSE 1)
                        \cup Code(P!DelBeforeCre(evs), 2)
                        \cup Code(tprev = E => evs = <<>>, 3)
                        \cup Code(ln.alive, 5)
           GoneOK == OnlyRootDeleted(evs) /\ ~ln.alive
           model == IF gone THEN <<[cls |-> "DirDeleted", src |-> Root, dst |-> <<0>>]>>
                    ELSE P!EventsOf(P!SD!Diff(tprev, exp, FALSE))
       IN /\ drift' = drift + (IF ~tstopped /\ (Len(model) # Len(evs) \/ SeqToSet(model) # SeqToSet(evs)) THEN 1 ELSE 0)
          /\ (IF tstopped
               THEN \* P_C10_StoppedIsFinal: a stopped emitter delivers nothing any more
                    /\ Add(Code(evs = <<>> /\ ~ln.alive, 7)) /\ UNCHANGED <<tprev, tstopped>>
               ELSE IF ln.exc # ""
               THEN \* an exception escaped queue_events: the emitter thread would die
                    /\ Add({l * 16 + (IF gone THEN 6 ELSE 5)}) /\ tstopped' = TRUE /\ UNCHANGED tprev
               ELSE IF gone /\ UnreadableRoot(f) /\ ~GoneOK
               THEN /\ Add(Normal(expEmptyRoot)) /\ tprev' = expEmptyRoot /\ UNCHANGED tstopped
               ELSE IF gone
               THEN \* P_C10_RootGone: exactly one DirDeleted(root), and the emitter stops
                    /\ Add(Code(GoneOK, 6)) /\ tstopped' = TRUE /\ UNCHANGED tprev
               ELSE /\ Add(Normal(exp)) /\ tprev' = exp /\ UNCHANGED tstopped)
    /\ UNCHANGED trec

SnapLine ==
    /\ Consume("snap") /\ drift' = drift
    /\ LET ln == Tr[l]  F == TreeOf(ln.tree)  f == FaultOf(ln.fault)
           gone == P!RootGoneBy(F, f)
           exp == P!Expected(F, ln.rec, f)
           expEmptyRoot == P!Expected(F, ln.rec, [f EXCEPT !.err = "ENOENT"])
           got == SnapOf(ln.got)
       IN Add(IF ln.raised
              THEN Code(gone, 5)                                  \* raising is only allowed when the root is gone
              ELSE IF gone THEN Code(UnreadableRoot(f) /\ got = expEmptyRoot, 5)
              ELSE Code(got = exp, IF f.op = "none" THEN 4 ELSE 5))
    /\ UNCHANGED <<tprev, trec, tstopped>>

\* threaded runs: after stop() + join() no emitter thread is left, and no thread died of an exception
EndLine ==
    /\ Consume("end")
    /\ drift' = drift
    /\ Add(Code(~Tr[l].alive, 7) \cup Code(Tr[l].uncaught = 0, 5))
    /\ UNCHANGED <<tprev, trec, tstopped>>

Next == TLCGet(BIG + tid) = 0 /\ (StartLine \/ PollLine \/ SnapLine \/ EndLine)
Spec == Init /\ [][Next]_vars

Report == Progress(tid, l, Len(Tr), viol)
PostCond == Post
=============================================================================
