SPECIFICATION Spec
CONSTANTS
  MaxPat = 2
  FixEmptyDest = FALSE
CHECK_DEADLOCK FALSE
INVARIANT C15_RegexDecision
