-------------------------------- MODULE FsGen --------------------------------
(* History generator: the reachable graph of FsKernel's operations under the pacing condition, from a  *)
(* given start tree, with no library attached.  `tlc -dump dot,actionlabels` of this module is walked  *)
(* by checks/pipeline_engine.py: every path of <= K operations is one paced history of C01 (the edge    *)
(* labels carry the operation and its inode arguments; paths are resolved from the source state).       *)
EXTENDS FsKernel

CONSTANTS StartTree,     \* "empty" | "small" | "deep"
          MaxOps         \* history length
VARIABLE nops

Dir(p, n) == [k |-> "dir", par |-> p, nm |-> n]
File(p, n) == [k |-> "file", par |-> p, nm |-> n]
Start ==
  CASE StartTree = "empty" -> [i \in Ino |-> IF i = RR THEN Dir(0, "R") ELSE IF i = RO THEN Dir(0, "O") ELSE Free]
    [] StartTree = "small" -> [i \in Ino |-> CASE i = RR -> Dir(0, "R") [] i = RO -> Dir(0, "O")
                                               [] i = 3 -> Dir(RR, "a") [] i = 4 -> File(3, "a") [] i = 5 -> Dir(RO, "a") [] i = 6 -> File(5, "b")
                                               [] OTHER -> Free]
    [] OTHER -> [i \in Ino |-> CASE i = RR -> Dir(0, "R") [] i = RO -> Dir(0, "O")
                                 [] i = 3 -> Dir(RR, "a") [] i = 4 -> Dir(3, "b") [] i = 5 -> File(4, "a") [] i = 6 -> File(RR, "b")
                                 [] OTHER -> Free]

Init == node = Start /\ kw = << >> /\ kq = << >> /\ ck = 1 /\ hotD = {} /\ hotN = {} /\ nops = 0

DirsR == {i \in Ino : InR(i) /\ IsDir(i)}
Bump == nops < MaxOps /\ nops' = nops + 1
GMkdir(p, n) == Bump /\ Mkdir(p, n)
GCreat(p, n) == Bump /\ Creat(p, n)
GMakedirs(p, n1, n2) == Bump /\ Makedirs(p, n1, n2)
GWrite(i) == Bump /\ Write(i)
GChmod(i) == Bump /\ Chmod(i)
GUnlink(i) == Bump /\ Unlink(i)
GRmdir(i) == Bump /\ Rmdir(i)
GRmtree(i) == Bump /\ Rmtree(i)
GRename(i, p2, n2) == Bump /\ Rename(i, p2, n2)
GDrain == Bump /\ (hotD # {} \/ hotN # {}) /\ Drain
Next == \/ \E p \in Ino, n \in Names : GMkdir(p, n) \/ GCreat(p, n)
        \/ \E p \in Ino, n1 \in Names, n2 \in Names : GMakedirs(p, n1, n2)
        \/ \E i \in Ino : GWrite(i) \/ GChmod(i) \/ GUnlink(i) \/ GRmdir(i) \/ GRmtree(i)
        \/ \E i \in Ino, p2 \in Ino, n2 \in Names : GRename(i, p2, n2)
        \/ GDrain
\* the event queue is irrelevant for the generator
View == <<node, hotD, hotN, nops>>
Spec == Init /\ [][Next]_<<fsvars, nops>>
=============================================================================
