SPECIFICATION Spec
CONSTANTS
  Names = {"r", "x", "y"}
  NameSeq <- NS3
  MaxDepth = 4
  MaxNodes = 4
  Pairs <- PairsQuick
  Roots <- RootsAll
CHECK_DEADLOCK FALSE
INVARIANT C14_OnePerDescendant
INVARIANT C14_DestIsRealPath
INVARIANT C14_SourceIsOldPrefixPlusSameRelativePath
INVARIANT C14_Flavour
INVARIANT C14_ParentBeforeChild
INVARIANT C14_AllSynthetic
INVARIANT C14_TextualDeviatesIffReoccurrence
INVARIANT C14_ForeignRootNeverDeviates
