SPECIFICATION Spec
CONSTANTS
  Intervals = {0, 2}
  MaxEv = 3
  MaxTime = 7
  Gaps = {1, 2, 3}
  FixD8 = FALSE
INVARIANT C18_DeliveredWhenQuiet
CHECK_DEADLOCK FALSE
