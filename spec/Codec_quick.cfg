SPECIFICATION Spec
CONSTANTS
  MaxRecs = 2
  MaxName = 4
  MaxPad = 3
INVARIANT Codec_RoundTrip
INVARIANT Codec_NoOverread
INVARIANT Codec_Bounded
PROPERTY Codec_Terminates
CHECK_DEADLOCK FALSE
