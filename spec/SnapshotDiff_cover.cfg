SPECIFICATION Spec
CONSTANTS
  NonRootPaths <- PathsFlat
  Inodes = {1, 2}
  Devs = {1, 2}
  Mtimes = {1}
  Sizes = {1}
  MaxEntries = 1
  RootRecs <- RootFixed
  Deviation = "none"
INVARIANT CoverMove
INVARIANT CoverReplace
INVARIANT CoverDevOnly
CHECK_DEADLOCK FALSE
