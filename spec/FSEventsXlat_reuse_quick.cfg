SPECIFICATION Spec
CONSTANTS
  MaxOps = 3
  SplitPairs = FALSE
  RenameTwice = FALSE
  NonRecDirs = FALSE
  NonRecCross = FALSE
  B2B = FALSE
  WithRoot = FALSE
  InodeReuse = TRUE
  StickyCreated = TRUE
  ViewSkipInCreatedRemoved = FALSE
  RecModes = {TRUE}
INVARIANT Xlat_ReplicaMatches
INVARIANT Xlat_RenameIsOneMovedEvent
INVARIANT Xlat_MoveInOutIsCreatedDeleted
INVARIANT FSEvents_NonRecursiveNothingBelowChildren
CHECK_DEADLOCK FALSE
