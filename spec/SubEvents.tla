----------------------------- MODULE SubEvents -----------------------------
(* C14  Synthetic events for the contents of a moved / newly arrived directory.          *)
(*                                                                                      *)
(* Code: watchdog.events.generate_sub_moved_events(src_dir_path, dest_dir_path) and     *)
(* generate_sub_created_events(src_dir_path): os.walk (top-down) over the REAL tree at  *)
(* the destination; per visited directory first its sub-directories, then its files.    *)
(*                                                                                      *)
(* Paths are SEQUENCES OF NAMES (<<"r","y","r","y">>).  The intended function rewrites  *)
(* the PREFIX: source = src \o (dest minus the prefix dst).  The code computes the      *)
(* source on the '/'-joined STRING form with str.replace, which rewrites EVERY          *)
(* non-overlapping occurrence of the destination string: Dev_TextualReplace below, kept *)
(* as a separate operator so that TLC shows exactly where the two differ (DESIGN §8 D4).*)
(*                                                                                      *)
(* TLC builds every tree below dst over Names (depth <= MaxDepth, <= MaxNodes nodes) by *)
(* AddNode steps for every (src, dst) pair; the laws C14_* are invariants of every      *)
(* reachable state, for both listing orders of os.scandir that the model distinguishes. *)
EXTENDS Naturals, Sequences, FiniteSets, TLC

CONSTANTS Names,        \* set of name strings, e.g. {"r","x","y"}
          NameSeq,      \* the same names as a sequence (a listing order)
          MaxDepth,     \* depth of the tree below dst
          MaxNodes,     \* number of nodes below dst
          Pairs,        \* set of <<src, dst>> (name sequences); src = <<>> means "source unknown"
          Roots         \* root spellings for the string form: <<>> = relative, <<"t">> = absolute "/t/..."

ASSUME /\ {NameSeq[i] : i \in 1..Len(NameSeq)} = Names /\ Len(NameSeq) = Cardinality(Names)

VARIABLES nodes,        \* set of [p |-> relative name sequence below dst, k |-> "d" | "f"]
          src, dst
vars == <<nodes, src, dst>>

\* ------------------------------------------------------------------ universes for the cfg files
NS3 == <<"r", "x", "y">>
NS4 == <<"r", "x", "y", "yy">>
Seqs12(N) == {<<a>> : a \in N} \cup {<<a, b>> : a \in N, b \in N}
IsPrefix(a, b) == Len(a) <= Len(b) /\ SubSeq(b, 1, Len(a)) = a
\* every pair of distinct paths of length 1..2 neither of which lies inside the other, + unknown source
PairsAll == {pr \in Seqs12({"r", "x", "y"}) \X Seqs12({"r", "x", "y"}) : ~IsPrefix(pr[1], pr[2]) /\ ~IsPrefix(pr[2], pr[1])}
            \cup {<< <<>>, <<"r", "y">> >>}
\* the shapes that matter: sibling rename, rename at top level, self-similar destination, move between parents
PairsQuick == { << <<"r", "x">>, <<"r", "y">> >>, << <<"x">>, <<"y">> >>, << <<"y", "x">>, <<"y", "y">> >>,
                << <<"x", "y">>, <<"r", "y">> >>, << <<"r", "y">>, <<"y">> >>, << <<"y">>, <<"r", "y">> >>,
                << <<"r", "r">>, <<"r", "y">> >>, << <<"x", "x">>, <<"y", "r">> >>, << <<>>, <<"r", "y">> >> }
RootsAll == {<<>>, <<"t">>, <<"r">>}

\* ------------------------------------------------------------------ trees
Paths(T) == {m.p : m \in T}
Parent(p) == SubSeq(p, 1, Len(p) - 1)
Tree == {[p |-> dst \o m.p, k |-> m.k] : m \in nodes}          \* the descendants of dst, full paths
Rel(p, d) == SubSeq(p, Len(d) + 1, Len(p))                     \* p minus the prefix d

Init == /\ nodes = {}
        /\ \E pr \in Pairs : src = pr[1] /\ dst = pr[2]

AddNode(par, n, k) ==
    /\ Cardinality(nodes) < MaxNodes
    /\ Len(par) < MaxDepth
    /\ par = <<>> \/ [p |-> par, k |-> "d"] \in nodes
    /\ Append(par, n) \notin Paths(nodes)
    /\ nodes' = nodes \cup {[p |-> Append(par, n), k |-> k]}
    /\ UNCHANGED <<src, dst>>

Next == \E par \in {<<>>} \cup Paths(nodes), n \in Names, k \in {"d", "f"} : AddNode(par, n, k)
Spec == Init /\ [][Next]_vars

\* ------------------------------------------------------------------ os.walk, top-down
Orders == {"asc", "desc"}
Children(T, d, k) == {m \in T : Len(m.p) = Len(d) + 1 /\ Parent(m.p) = d /\ m.k = k}
\* one listing of a set of siblings (scandir order is arbitrary; the model has two)
ListSeq(S, o) ==
    LET idx(i) == IF o = "asc" THEN i ELSE Len(NameSeq) + 1 - i
        RECURSIVE L(_)
        L(i) == IF i > Len(NameSeq) THEN <<>>
                ELSE LET c == {m \in S : m.p[Len(m.p)] = NameSeq[idx(i)]}
                     IN  (IF c = {} THEN <<>> ELSE <<CHOOSE m \in c : TRUE>>) \o L(i + 1)
    IN L(1)

\* the nodes in the order the generators yield them: for each visited directory its sub-directories, then its
\* files, then the sub-directories are visited in turn
RECURSIVE Walk(_, _, _)
Walk(T, d, o) ==
    LET ds == ListSeq(Children(T, d, "d"), o)
        fs == ListSeq(Children(T, d, "f"), o)
        RECURSIVE Sub(_)
        Sub(i) == IF i > Len(ds) THEN <<>> ELSE Walk(T, ds[i].p, o) \o Sub(i + 1)
    IN ds \o fs \o Sub(1)

\* ------------------------------------------------------------------ the intended functions (prefix rewrite)
SubMoved(T, s, d, o) ==
    LET W == Walk(T, d, o) IN
    [i \in 1..Len(W) |-> [cls  |-> IF W[i].k = "d" THEN "DirMoved" ELSE "FileMoved",
                          src  |-> IF s = <<>> THEN <<>> ELSE s \o Rel(W[i].p, d),
                          dest |-> W[i].p,
                          syn  |-> TRUE]]
SubCreated(T, d, o) ==
    LET W == Walk(T, d, o) IN
    [i \in 1..Len(W) |-> [cls  |-> IF W[i].k = "d" THEN "DirCreated" ELSE "FileCreated",
                          src  |-> <<>>,
                          dest |-> W[i].p,        \* the path the event names
                          syn  |-> TRUE]]

\* ------------------------------------------------------------------ string form and the code's textual rewrite
CharsOf(n) == CASE n = "r" -> <<"r">> [] n = "x" -> <<"x">> [] n = "y" -> <<"y">> [] n = "t" -> <<"t">>
                [] n = "yy" -> <<"y", "y">> [] n = "xy" -> <<"x", "y">>
RECURSIVE Join(_)
Join(p) == IF p = <<>> THEN <<>>
           ELSE IF Len(p) = 1 THEN CharsOf(p[1]) ELSE CharsOf(p[1]) \o <<"/">> \o Join(Tail(p))
\* spelling of the path p under the root spelling: relative "r/y", absolute "/t/r/y"
Str(root, p) == IF root = <<>> THEN Join(p) ELSE <<"/">> \o Join(root \o p)

\* Python's str.replace(old, new): leftmost, non-overlapping, every occurrence  (old non-empty)
RECURSIVE Replace(_, _, _)
Replace(s, old, new) ==
    IF Len(s) < Len(old) THEN s
    ELSE IF SubSeq(s, 1, Len(old)) = old THEN new \o Replace(SubSeq(s, Len(old) + 1, Len(s)), old, new)
    ELSE <<s[1]>> \o Replace(Tail(s), old, new)
Occurs(old, s) == \E i \in 1..(Len(s) + 1 - Len(old)) : SubSeq(s, i, i + Len(old) - 1) = old

\* what the code computes as the source string of the event for node path p
Dev_TextualReplace(root, p, s, d) == Replace(Str(root, p), Str(root, d), Str(root, s))
\* what it should be
PrefixRewriteStr(root, p, s, d) == Str(root, s \o Rel(p, d))

\* ------------------------------------------------------------------ the laws (C14), stated on a result `ev`
OnePerDescendant(T, ev) == /\ Len(ev) = Cardinality(T)
                           /\ \A m \in T : Cardinality({i \in 1..Len(ev) : ev[i].dest = m.p}) = 1
DestIsRealPath(T, ev) == \A i \in 1..Len(ev) : ev[i].dest \in Paths(T)
SourceIsOldPrefixPlusSameRelativePath(s, d, ev) ==
    s # <<>> => \A i \in 1..Len(ev) : IsPrefix(d, ev[i].dest) => ev[i].src = s \o Rel(ev[i].dest, d)
Flavour(T, ev, dircls, filecls) ==
    \A i \in 1..Len(ev) : \A m \in T : m.p = ev[i].dest => ev[i].cls = (IF m.k = "d" THEN dircls ELSE filecls)
ParentBeforeChild(d, ev) ==
    \A i, j \in 1..Len(ev) : (Len(ev[j].dest) > Len(d) + 1 /\ ev[i].dest = Parent(ev[j].dest)) => i < j
AllSynthetic(ev) == \A i \in 1..Len(ev) : ev[i].syn

Results == {SubMoved(Tree, src, dst, o) : o \in Orders}
CResults == {SubCreated(Tree, dst, o) : o \in Orders}

C14_OnePerDescendant == (\A ev \in Results : OnePerDescendant(Tree, ev)) /\ (\A ev \in CResults : OnePerDescendant(Tree, ev))
C14_DestIsRealPath == (\A ev \in Results : DestIsRealPath(Tree, ev)) /\ (\A ev \in CResults : DestIsRealPath(Tree, ev))
C14_SourceIsOldPrefixPlusSameRelativePath == \A ev \in Results : SourceIsOldPrefixPlusSameRelativePath(src, dst, ev)
C14_Flavour == (\A ev \in Results : Flavour(Tree, ev, "DirMoved", "FileMoved"))
               /\ (\A ev \in CResults : Flavour(Tree, ev, "DirCreated", "FileCreated"))
C14_ParentBeforeChild == (\A ev \in Results : ParentBeforeChild(dst, ev)) /\ (\A ev \in CResults : ParentBeforeChild(dst, ev))
C14_AllSynthetic == (\A ev \in Results : AllSynthetic(ev)) /\ (\A ev \in CResults : AllSynthetic(ev))

\* ------------------------------------------------------------------ where the textual rewrite deviates
\* Theorem checked by TLC: str.replace yields the prefix rewrite EXACTLY when the destination string does not
\* occur again after the prefix (anywhere: across separators, inside a longer name, ...).
Reoccurs(root, p, d) == Occurs(Str(root, d), SubSeq(Str(root, p), Len(Str(root, d)) + 1, Len(Str(root, p))))
C14_TextualDeviatesIffReoccurrence ==
    src # <<>> => \A root \in Roots : \A m \in Tree :
        (Dev_TextualReplace(root, m.p, src, dst) = PrefixRewriteStr(root, m.p, src, dst)) <=> ~Reoccurs(root, m.p, dst)
\* with a root spelling that shares no name with the tree the destination string cannot re-occur
C14_ForeignRootNeverDeviates ==
    src # <<>> => \A m \in Tree : Dev_TextualReplace(<<"t">>, m.p, src, dst) = PrefixRewriteStr(<<"t">>, m.p, src, dst)

\* NEGATIVE (SubEvents_neg_D4.cfg): claims the textual rewrite is the prefix rewrite; TLC must refute it and the
\* witness is replayed on the real code by checks/c14.py
Neg_TextualIsPrefixRewrite ==
    src # <<>> => \A root \in Roots : \A m \in Tree :
        \/ Dev_TextualReplace(root, m.p, src, dst) = PrefixRewriteStr(root, m.p, src, dst)
        \/ ~PrintT(<<"DEVCASE", root, src, dst, Tree, m.p>>)
=============================================================================
