SPECIFICATION Spec
CONSTANTS
  Family = "startrace"
  MaxEm = 3
  EvPerEm = 2
  FixD3 = TRUE
  FixD10 = FALSE
  FixD12 = TRUE
  FixD17 = TRUE
  FixD18 = TRUE
  FixD20 = TRUE
INVARIANT C13_EveryScheduledWatchRuns
