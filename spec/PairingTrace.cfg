SPECIFICATION Spec
CONSTANT Delay = 2
CONSTRAINT Report
POSTCONDITION PostCond
CHECK_DEADLOCK FALSE
