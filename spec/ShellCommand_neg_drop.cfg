SPECIFICATION Spec
CONSTANTS
  MaxEv = 3
  WAIT = {FALSE}
  DROP = {TRUE}
  HonourDrop = FALSE
INVARIANT C18_NoOverlapWhenWaitOrDrop
CHECK_DEADLOCK FALSE
