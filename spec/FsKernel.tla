------------------------------ MODULE FsKernel ------------------------------
(* Linux VFS + inotify as the library sees them (DESIGN §4.1).                                        *)
(* Inode-centric like the real VFS: node[i] = [k, par, nm]; a rename is a re-parenting, the whole     *)
(* subtree follows for free, kernel watches name *inodes*, paths are derived.  Two tops: RR = the     *)
(* watched root, RO = an area outside the watched tree.                                               *)
(* Operations are the vocabulary of the properties (C01): mkdir, creat, write, chmod, unlink, rmdir,  *)
(* rename / replace at any depth, move out, move in.  Each operator XEvents(...) gives the raw         *)
(* inotify events the system call queues, in kernel order, for the watches that exist *now*           *)
(* (orderings observed on this kernel and re-validated by checks/kernel_validation.py against         *)
(* FsKernelTrace.tla).                                                                                *)
(* The pacing condition of C01 is the predicate PacingOK on the driver's operations.                  *)
EXTENDS Naturals, Sequences, FiniteSets, TLC

CONSTANTS Names,       \* entry names, e.g. {"a", "b"}
          MaxIno,      \* inode pool 1..MaxIno (1 = RR, 2 = RO)
          MaxDepth     \* maximal depth of an entry below RR

Ino == 1..MaxIno
RR == 1
RO == 2
Free == [k |-> "free", par |-> 0, nm |-> ""]

VARIABLES node,        \* inode -> [k \in {"free","file","dir"}, par, nm]
          kw,          \* kernel watches: sequence indexed by wd of inode (0 = removed)
          kq,          \* kernel event queue of the inotify instance
          ck,          \* next rename cookie
          hotD, hotN   \* pacing: directories shaped since the last drain / <<parent, name, owner>>: names made hot by directory
                       \* `owner` (0: by a removal) -- only the owner itself may be moved (back) onto such a name
fsvars == <<node, kw, kq, ck, hotD, hotN>>

\* ---------------------------------------------------------------------------- derived structure
Children(p) == {i \in Ino : node[i].k # "free" /\ node[i].par = p}
ChildNamed(p, n) == {i \in Children(p) : node[i].nm = n}
RECURSIVE Anc(_, _), Depth(_), PathOf(_)
Anc(a, i) == IF i = a THEN TRUE ELSE IF node[i].par = 0 THEN FALSE ELSE Anc(a, node[i].par)   \* a is i or an ancestor of i
Depth(i) == IF node[i].par = 0 THEN 0 ELSE 1 + Depth(node[i].par)
PathOf(i) == IF node[i].par = 0 THEN << >> ELSE Append(PathOf(node[i].par), node[i].nm)        \* relative to its top
InR(i) == node[i].k # "free" /\ Anc(RR, i)
InO(i) == node[i].k # "free" /\ Anc(RO, i)
Subtree(i) == {j \in Ino : node[j].k # "free" /\ Anc(i, j)}
TreeR == {[p |-> PathOf(i), k |-> node[i].k] : i \in {j \in Ino : InR(j) /\ j # RR}}
FreeIno == {i \in Ino : node[i].k = "free"}
NewIno == CHOOSE i \in FreeIno : \A j \in FreeIno : i <= j
IsDir(i) == node[i].k = "dir"

\* ---------------------------------------------------------------------------- inotify
WdOf(i) == {w \in 1..Len(kw) : kw[w] = i}
Watched(i) == WdOf(i) # {}
EvOn(i, t, d, c, n) == IF Watched(i) THEN <<[wd |-> CHOOSE w \in WdOf(i) : TRUE, t |-> t, dir |-> d, ck |-> c, nm |-> n]>> ELSE << >>
\* identical to the unread tail => coalesced by the kernel
Enq(q, evs) == IF evs = << >> THEN q
               ELSE LET RECURSIVE go(_, _)
                        go(acc, rest) == IF rest = << >> THEN acc
                                         ELSE IF acc # << >> /\ acc[Len(acc)] = Head(rest) THEN go(acc, Tail(rest))
                                         ELSE go(Append(acc, Head(rest)), Tail(rest))
                    IN go(q, evs)

MkdirEvents(p, n) == EvOn(p, "CREATE", TRUE, 0, n)
CreatEvents(p, n) == EvOn(p, "CREATE", FALSE, 0, n) \o EvOn(p, "OPEN", FALSE, 0, n) \o EvOn(p, "CLOSE_WRITE", FALSE, 0, n)
WriteEvents(i) == LET p == node[i].par  n == node[i].nm IN
                  EvOn(p, "OPEN", FALSE, 0, n) \o EvOn(p, "MODIFY", FALSE, 0, n) \o EvOn(p, "CLOSE_WRITE", FALSE, 0, n)
ChmodEvents(i) == LET p == node[i].par  n == node[i].nm IN
                  IF IsDir(i) THEN EvOn(p, "ATTRIB", TRUE, 0, n) \o EvOn(i, "ATTRIB", TRUE, 0, "") ELSE EvOn(p, "ATTRIB", FALSE, 0, n)
UnlinkEvents(i) == EvOn(node[i].par, "DELETE", FALSE, 0, node[i].nm)
RmdirEvents(i) == EvOn(i, "DELETE_SELF", FALSE, 0, "") \o EvOn(i, "IGNORED", FALSE, 0, "")
                  \o EvOn(node[i].par, "DELETE", TRUE, 0, node[i].nm)
\* rename(i -> p2/n2); v = replaced victim inode or 0
RenameEvents(i, p2, n2, v) ==
    LET d == IsDir(i) IN
    EvOn(node[i].par, "MOVED_FROM", d, ck, node[i].nm) \o EvOn(p2, "MOVED_TO", d, ck, n2)
    \o (IF v # 0 /\ IsDir(v) THEN EvOn(v, "ATTRIB", TRUE, 0, "") \o EvOn(v, "DELETE_SELF", FALSE, 0, "") \o EvOn(v, "IGNORED", FALSE, 0, "") ELSE << >>)
\* watches die with their inode
DropWatches(S) == [w \in 1..Len(kw) |-> IF kw[w] \in S THEN 0 ELSE kw[w]]

\* ---------------------------------------------------------------------------- pacing (C01)
\* i itself or the directory it lives in is below a hot directory
BelowHot(p) == \E h \in hotD : node[h].k # "free" /\ Anc(h, p)
HotName(p, n) == {h \in hotN : h[1] = p /\ h[2] = n}
PacingOK_Create(p, n) == ~BelowHot(p) /\ HotName(p, n) = {}
PacingOK_Touch(i) == ~BelowHot(node[i].par)                     \* operate on entry i (not on a hot directory's contents)
ShapeDir(i, names) == hotD' = hotD \cup {i} /\ hotN' = hotN \cup {<<x[1], x[2], i>> : x \in names}
NoShape == UNCHANGED <<hotD, hotN>>

\* ---------------------------------------------------------------------------- system calls (tree + queue)
CanCreate(p, n) == node[p].k = "dir" /\ ChildNamed(p, n) = {} /\ FreeIno # {} /\ (InR(p) => Depth(p) < MaxDepth)

Mkdir(p, n) == /\ CanCreate(p, n) /\ InR(p) /\ PacingOK_Create(p, n)
               /\ node' = [node EXCEPT ![NewIno] = [k |-> "dir", par |-> p, nm |-> n]]
               /\ kq' = Enq(kq, MkdirEvents(p, n))
               /\ ShapeDir(NewIno, {<<p, n>>})
               /\ UNCHANGED <<kw, ck>>
Creat(p, n) == /\ CanCreate(p, n) /\ InR(p) /\ PacingOK_Create(p, n)
               /\ node' = [node EXCEPT ![NewIno] = [k |-> "file", par |-> p, nm |-> n]]
               /\ kq' = Enq(kq, CreatEvents(p, n))
               /\ NoShape /\ UNCHANGED <<kw, ck>>
Write(i) == /\ node[i].k = "file" /\ InR(i) /\ PacingOK_Touch(i)
            /\ kq' = Enq(kq, WriteEvents(i)) /\ NoShape /\ UNCHANGED <<node, kw, ck>>
Chmod(i) == /\ InR(i) /\ i # RR /\ PacingOK_Touch(i)
            /\ kq' = Enq(kq, ChmodEvents(i)) /\ NoShape /\ UNCHANGED <<node, kw, ck>>
Unlink(i) == /\ node[i].k = "file" /\ InR(i) /\ PacingOK_Touch(i)
             /\ node' = [node EXCEPT ![i] = Free]
             /\ kq' = Enq(kq, UnlinkEvents(i)) /\ NoShape /\ UNCHANGED <<kw, ck>>
Rmdir(i) == /\ IsDir(i) /\ InR(i) /\ i # RR /\ Children(i) = {} /\ PacingOK_Touch(i)
            /\ node' = [node EXCEPT ![i] = Free]
            /\ kq' = Enq(kq, RmdirEvents(i)) /\ kw' = DropWatches({i})
            /\ hotD' = hotD /\ hotN' = hotN \cup {<<node[i].par, node[i].nm, 0>>}
            /\ UNCHANGED ck
\* rename / replace / move out / move in: one re-parenting
Rename(i, p2, n2) ==
    /\ node[i].k # "free" /\ i \notin {RR, RO} /\ node[p2].k = "dir" /\ ~Anc(i, p2)
    /\ (InR(i) \/ InR(p2))                                        \* at least one end in the watched tree
    /\ <<node[i].par, node[i].nm>> # <<p2, n2>>
    /\ (InR(p2) => Depth(p2) + 1 + (IF IsDir(i) THEN 1 ELSE 0) <= MaxDepth + 1)
    /\ LET vs == ChildNamed(p2, n2)
           v == IF vs = {} THEN 0 ELSE CHOOSE x \in vs : TRUE IN
       /\ (v # 0 => (node[v].k = node[i].k /\ (IsDir(v) => Children(v) = {})))      \* replace: same kind, empty dir
       /\ PacingOK_Touch(i) /\ ~BelowHot(p2)
       /\ \A h \in HotName(p2, n2) : h[3] = i       \* no entry is moved onto a hot name, except the directory that made it hot
       /\ (v # 0 => PacingOK_Touch(v))
       /\ node' = [j \in Ino |-> IF j = i THEN [node[i] EXCEPT !.par = p2, !.nm = n2]
                                 ELSE IF j = v THEN Free ELSE node[j]]
       /\ kq' = Enq(kq, RenameEvents(i, p2, n2, v))
       /\ kw' = IF v # 0 THEN DropWatches({v}) ELSE kw
       /\ ck' = ck + 1
       /\ IF IsDir(i) THEN ShapeDir(i, {<<node[i].par, node[i].nm>>, <<p2, n2>>}) ELSE NoShape

\* compound operations of the vocabulary: their system calls are issued back to back, they count as ONE operation
\* makedirs p/n1/n2
Makedirs(p, n1, n2) ==
    /\ CanCreate(p, n1) /\ InR(p) /\ PacingOK_Create(p, n1) /\ Cardinality(FreeIno) >= 2 /\ Depth(p) + 2 <= MaxDepth
    /\ LET a == NewIno
           b == CHOOSE i \in FreeIno \ {a} : \A j \in FreeIno \ {a} : i <= j IN
       /\ node' = [node EXCEPT ![a] = [k |-> "dir", par |-> p, nm |-> n1], ![b] = [k |-> "dir", par |-> a, nm |-> n2]]
       /\ kq' = Enq(kq, MkdirEvents(p, n1))        \* the inner mkdir is seen only if the new directory is watched by then
       /\ hotD' = hotD \cup {a, b} /\ hotN' = hotN \cup {<<p, n1, a>>, <<a, n2, b>>}
    /\ UNCHANGED <<kw, ck>>
\* rm -r i : bottom-up, back to back
RECURSIVE RmOrder(_), RmEvents(_)
RmOrder(S) == IF S = {} THEN << >>
              ELSE LET deepest == {x \in S : \A z \in S : Depth(x) >= Depth(z)}
                       leaf == CHOOSE x \in deepest : \A z \in deepest : x <= z
                   IN <<leaf>> \o RmOrder(S \ {leaf})
RmEvents(order) == IF order = << >> THEN << >>
                   ELSE (IF IsDir(Head(order)) THEN RmdirEvents(Head(order)) ELSE UnlinkEvents(Head(order))) \o RmEvents(Tail(order))
Rmtree(i) ==
    /\ IsDir(i) /\ InR(i) /\ i # RR /\ Children(i) # {} /\ PacingOK_Touch(i)
    /\ \A j \in Subtree(i) \ {i} : ~BelowHot(node[j].par)          \* its contents must not be hot either
    /\ node' = [j \in Ino |-> IF j \in Subtree(i) THEN Free ELSE node[j]]
    /\ kq' = Enq(kq, RmEvents(RmOrder(Subtree(i))))
    /\ kw' = DropWatches(Subtree(i))
    /\ hotD' = hotD /\ hotN' = hotN \cup {<<node[i].par, node[i].nm, 0>>}
    /\ UNCHANGED ck

\* the driver lets the stream drain: pacing state is reset
Drain == hotD' = {} /\ hotN' = {} /\ UNCHANGED <<node, kw, kq, ck>>

\* inotify_add_watch(path) resolved *now*: same inode => same wd
AddWatch(i) == IF Watched(i) THEN kw ELSE Append(kw, i)
=============================================================================
