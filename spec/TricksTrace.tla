----------------------------- MODULE TricksTrace -----------------------------
(* Level-P trace specification for C18 (DESIGN §3, §6.3): EventDebouncer, AutoRestartTrick  *)
(* and ShellCommandTrick, judged on black-box lines recorded from the real classes under    *)
(* the deterministic scheduler with the simulated process table.                            *)
(*                                                                                          *)
(* Line 1 is `hdr`: kind = "deb" | "ar" | "sh" and the options (iv = debounce interval,     *)
(* timed = the time clauses apply, roe = restart_on_command_exit, debounced, wait, drop).   *)
(* Then: call/ret/exc of ev(k, trig) / start / stop / join per thread; cbatch(ks)/cbret =   *)
(* the debouncer's callback; proc(k = spawn|kill|kill_gone|exit, alive, why); tick(now);    *)
(* quiescent; final(live helper threads, restart_count); deadlock; uncaught;                *)
(* ready / dbstop = white-box hints (the debouncer thread reached its first wait / the      *)
(* debouncer's stop flag was set) that are NEVER judged: they are only read when            *)
(* AllowD8 = TRUE, to recognise traces explained by the recorded finding D8.                *)
(*                                                                                          *)
(* The only unobserved step is the arrival point of an event handed to the debouncer        *)
(* (between call and ret of `ev`): LinEv, placed by TLC.  A trace is accepted iff SOME      *)
(* placement consumes every line with every clause TRUE.  Clauses, as the property states:  *)
(*  P_C18_ExactlyOnceInOrderBatched  each batch is the next so-many arrived events, in order *)
(*  P_C18_NoDeliveryAfterStop        no batch once stop() has returned                      *)
(*  P_C18_DeliveredWhenQuiet         (until stop() is called) an event is not still pending *)
(*                                   when a later one arrives more than `iv` after it, nor  *)
(*                                   when everything has come to rest                       *)
(*  P_C18_NotEarly                   a batch holds an event that is `iv` old and none that  *)
(*                                   arrived strictly inside the last `iv` (one arriving at *)
(*                                   the very instant of the time-out may ride along)       *)
(*  P_C18_ThreadExits                stop(); join() ends the debouncer thread               *)
(*  P_C18_AtMostOneChild             never two children alive                               *)
(*  P_C18_RestartPerTrigger          every new child (after start()'s) is paid for by its   *)
(*                                   own trigger (triggering event / non-empty batch /      *)
(*                                   self-exit if enabled); a trigger's call does not return *)
(*                                   without a new child unless stop() was called; a child  *)
(*                                   that exited by itself has a successor at rest          *)
(*  P_C18_RestartCount               spawns - 1 <= restart_count <= triggers, at rest       *)
(*  P_C18_NothingAfterStop           no child alive when stop() returns, none spawned later *)
(*  P_C18_HelpersGone                at rest after stop() returned no helper thread is left *)
(*  P_C18_StopReturns                no deadlock: stop() returns                            *)
(*  P_C18_NoException                nothing escapes from on_any_event/stop/a helper thread *)
(*  P_C18_ComesToRest                the program comes to rest (no run-away restart loop)   *)
(*  P_C18_NoOverlapWhenWaitOrDrop    shell command: never two commands alive when asked to  *)
(*                                   wait or to drop                                        *)
EXTENDS TraceUtil

CONSTANTS AllowD8,    \* read the hints and excuse what D8 explains
          HardOrder   \* TRUE: a batch that is not the next arrived events ends the explanation (used first, so that a wrong
                      \* guess of the arrival order is never reported as P_C18_ExactlyOnceInOrderBatched)

VARIABLES tid, l, now,
          arrived,     \* events that have arrived at the debouncer, in arrival order: [k, at, pre]
          ndeliv,      \* how many of them have been delivered
          pend,        \* per thread: the call in flight
          stopCalled, stopRet, stopPre, ready,
          alive, nspawn, started,
          trigAvail, trigTotal, cbMark,
          viol
vars == <<tid, l, now, arrived, ndeliv, pend, stopCalled, stopRet, stopPre, ready, alive, nspawn, started, trigAvail,
          trigTotal, cbMark, viol>>

Tr == AllTraces[tid]
H == Tr[1]
AllThreads == UNION {{AllTraces[i][j].t : j \in 1..Len(AllTraces[i])} : i \in 1..NTraces}
Idle == [op |-> "idle"]

ASSUME InitRegs

Init == /\ tid \in 1..NTraces /\ l = 2 /\ now = 0 /\ arrived = <<>> /\ ndeliv = 0
        /\ pend = [t \in AllThreads |-> Idle]
        /\ stopCalled = FALSE /\ stopRet = FALSE /\ stopPre = FALSE /\ ready = FALSE
        /\ alive = {} /\ nspawn = 0 /\ started = FALSE /\ trigAvail = 0 /\ trigTotal = 0 /\ cbMark = 0 /\ viol = {}

IsDeb == H.kind = "deb"
IsAr == H.kind = "ar"
IsSh == H.kind = "sh"
HasDeb == IsDeb \/ (IsAr /\ H.debounced)
Line == Tr[l]
At(k) == l <= Len(Tr) /\ Line.e = k
Step == l' = l + 1 /\ UNCHANGED tid
If(c, name) == IF c THEN {name} ELSE {}
Und == SubSeq(arrived, ndeliv + 1, Len(arrived))       \* arrived, not yet delivered
D8Excuse == AllowD8 /\ Und # <<>> /\ Last(Und).pre       \* every pending event arrived before the first wait

\* ---- events handed in
NeedsLin(r) == HasDeb /\ (IsDeb \/ r.trig)
CallEv == /\ At("call") /\ Line.op = "ev" /\ pend[Line.t] = Idle /\ Step
          /\ pend' = [pend EXCEPT ![Line.t] = [op |-> "ev", k |-> Line.k, trig |-> Line.trig, n0 |-> nspawn,
                                               done |-> ~NeedsLin(Line)]]
          /\ LET direct == IsAr /\ ~H.debounced /\ Line.trig IN
             /\ trigAvail' = trigAvail + (IF direct THEN 1 ELSE 0)
             /\ trigTotal' = trigTotal + (IF direct THEN 1 ELSE 0)
          /\ UNCHANGED <<now, arrived, ndeliv, stopCalled, stopRet, stopPre, ready, alive, nspawn, started, cbMark, viol>>
\* canonical placement of an arrival point: right before a return that needs its own arrival point (another thread's
\* event may have arrived before that one), a clock tick (arrival times only change there), a hint, a rest point,
\* or a batch in which the event is the next one expected
LinOK(t) == l <= Len(Tr) /\ \/ (Line.e \in {"ret", "exc"} /\ pend[Line.t].op = "ev" /\ ~pend[Line.t].done)
                            \/ Line.e \in {"tick", "ready", "quiescent"}
                            \/ (Line.e = "cbatch" /\ Len(Und) < Len(Line.ks) /\ Line.ks[Len(Und) + 1] = pend[t].k)
LinEv(t) == /\ pend[t].op = "ev" /\ ~pend[t].done /\ LinOK(t)
            /\ pend' = [pend EXCEPT ![t].done = TRUE]
            /\ arrived' = Append(arrived, [k |-> pend[t].k, at |-> now, pre |-> ~ready])
            /\ viol' = viol \cup If(/\ H.timed /\ ~stopCalled /\ Und # <<>> /\ now > Last(Und).at + H.iv /\ ~D8Excuse,
                                    "P_C18_DeliveredWhenQuiet")
            /\ UNCHANGED <<tid, l, now, ndeliv, stopCalled, stopRet, stopPre, ready, alive, nspawn, started, trigAvail,
                           trigTotal, cbMark>>
RetEv == /\ At("ret") /\ Line.op = "ev" /\ pend[Line.t].op = "ev" /\ pend[Line.t].done /\ Step
         /\ viol' = viol \cup If(/\ IsAr /\ ~H.debounced /\ pend[Line.t].trig /\ ~stopCalled /\ nspawn = pend[Line.t].n0,
                                 "P_C18_RestartPerTrigger")
         /\ pend' = [pend EXCEPT ![Line.t] = Idle]
         /\ UNCHANGED <<now, arrived, ndeliv, stopCalled, stopRet, stopPre, ready, alive, nspawn, started, trigAvail,
                        trigTotal, cbMark>>

\* ---- the debouncer's callback
Batch == /\ At("cbatch") /\ Step
         /\ LET ks == Line.ks
                n == Len(ks)
                ok == n <= Len(Und) /\ \A i \in 1..n : Und[i].k = ks[i]
                notEarly == \/ ~H.timed \/ H.iv = 0 \/ n = 0 \/ ~ok
                            \/ /\ \E i \in 1..n : Und[i].at + H.iv <= now
                               /\ \A i \in 1..Len(Und) : Und[i].at + H.iv <= now \/ Und[i].at = now
            IN /\ (HardOrder => ok)
               /\ ndeliv' = IF ok THEN ndeliv + n ELSE Len(arrived)
               /\ viol' = viol \cup If(~ok, "P_C18_ExactlyOnceInOrderBatched") \cup If(stopRet, "P_C18_NoDeliveryAfterStop")
                               \cup If(~notEarly, "P_C18_NotEarly")
               /\ trigAvail' = trigAvail + (IF IsAr /\ n > 0 THEN 1 ELSE 0)
               /\ trigTotal' = trigTotal + (IF IsAr /\ n > 0 THEN 1 ELSE 0)
         /\ cbMark' = nspawn
         /\ UNCHANGED <<now, arrived, pend, stopCalled, stopRet, stopPre, ready, alive, nspawn, started>>
BatchRet == /\ At("cbret") /\ Step
            /\ viol' = viol \cup If(IsAr /\ ~stopCalled /\ nspawn = cbMark, "P_C18_RestartPerTrigger")
            /\ UNCHANGED <<now, arrived, ndeliv, pend, stopCalled, stopRet, stopPre, ready, alive, nspawn, started, trigAvail,
                           trigTotal, cbMark>>

\* ---- the process table
ProcLine == /\ At("proc") /\ Step
            /\ LET spawn == Line.k = "spawn"
                   first == spawn /\ IsAr /\ ~started /\ nspawn = 0          \* start()'s own child
                   paid == ~IsAr \/ ~spawn \/ first \/ trigAvail > 0
                   selfexit == IsAr /\ H.roe /\ Line.k = "exit" /\ Line.why = "self"
                   two == Len(Line.alive) > 1
               IN /\ nspawn' = nspawn + (IF spawn THEN 1 ELSE 0)
                  /\ trigAvail' = IF spawn /\ IsAr /\ ~first /\ trigAvail > 0 THEN trigAvail - 1
                                  ELSE IF selfexit THEN trigAvail + 1 ELSE trigAvail
                  /\ trigTotal' = trigTotal + (IF selfexit THEN 1 ELSE 0)
                  /\ alive' = SeqToSet(Line.alive)
                  /\ viol' = viol \cup If(IsAr /\ two, "P_C18_AtMostOneChild")
                                  \cup If(IsSh /\ two /\ (H.wait \/ H.drop), "P_C18_NoOverlapWhenWaitOrDrop")
                                  \cup If(~paid, "P_C18_RestartPerTrigger")
                                  \cup If(spawn /\ stopRet, "P_C18_NothingAfterStop")
            /\ UNCHANGED <<now, arrived, ndeliv, pend, stopCalled, stopRet, stopPre, ready, started, cbMark>>

\* ---- start / stop / join
CallOther == /\ At("call") /\ Line.op \in {"start", "stop", "join"} /\ pend[Line.t] = Idle /\ Step
             /\ pend' = [pend EXCEPT ![Line.t] = [op |-> Line.op]]
             /\ stopCalled' = (stopCalled \/ Line.op = "stop")
             /\ UNCHANGED <<now, arrived, ndeliv, stopRet, stopPre, ready, alive, nspawn, started, trigAvail, trigTotal, cbMark, viol>>
RetOther == /\ At("ret") /\ Line.op \in {"start", "stop", "join"} /\ pend[Line.t].op = Line.op /\ Step
            /\ pend' = [pend EXCEPT ![Line.t] = Idle]
            /\ started' = (started \/ Line.op = "start")
            /\ stopRet' = (stopRet \/ Line.op = "stop")
            /\ viol' = viol \cup If(Line.op = "stop" /\ alive # {}, "P_C18_NothingAfterStop")
            /\ UNCHANGED <<now, arrived, ndeliv, stopCalled, stopPre, ready, alive, nspawn, trigAvail, trigTotal, cbMark>>
ExcLine == /\ At("exc") /\ pend[Line.t].op = Line.op /\ (Line.op = "ev" => pend[Line.t].done) /\ Step
           /\ pend' = [pend EXCEPT ![Line.t] = Idle]
           /\ viol' = viol \cup {"P_C18_NoException"}
           /\ UNCHANGED <<now, arrived, ndeliv, stopCalled, stopRet, stopPre, ready, alive, nspawn, started, trigAvail,
                          trigTotal, cbMark>>
Uncaught == /\ At("uncaught") /\ Step
            /\ viol' = viol \cup {"P_C18_NoException"}
            /\ UNCHANGED <<now, arrived, ndeliv, pend, stopCalled, stopRet, stopPre, ready, alive, nspawn, started, trigAvail,
                           trigTotal, cbMark>>

\* ---- clock, hints, rest points
Tick == /\ At("tick") /\ Step /\ now' = Line.now
        /\ UNCHANGED <<arrived, ndeliv, pend, stopCalled, stopRet, stopPre, ready, alive, nspawn, started, trigAvail, trigTotal,
                       cbMark, viol>>
Ready == /\ At("ready") /\ Step /\ ready' = TRUE
         /\ UNCHANGED <<now, arrived, ndeliv, pend, stopCalled, stopRet, stopPre, alive, nspawn, started, trigAvail, trigTotal,
                        cbMark, viol>>
DbStop == /\ At("dbstop") /\ Step /\ stopPre' = ~ready       \* the stop flag was set before the thread first waited
          /\ UNCHANGED <<now, arrived, ndeliv, pend, stopCalled, stopRet, ready, alive, nspawn, started, trigAvail, trigTotal,
                         cbMark, viol>>
Quiescent == /\ At("quiescent") /\ Step
             /\ viol' = viol \cup If(/\ HasDeb /\ ~stopCalled /\ Und # <<>> /\ ~D8Excuse
                                     /\ (H.timed => now >= Last(Und).at + H.iv), "P_C18_DeliveredWhenQuiet")
                             \cup If(IsAr /\ H.roe /\ ~stopCalled /\ started /\ alive = {}, "P_C18_RestartPerTrigger")
             /\ UNCHANGED <<now, arrived, ndeliv, pend, stopCalled, stopRet, stopPre, ready, alive, nspawn, started, trigAvail,
                            trigTotal, cbMark>>
Final == /\ At("final") /\ Step
         /\ LET left == Len(Line.live) > 0 IN
            viol' = viol \cup If(IsDeb /\ stopRet /\ left /\ ~(AllowD8 /\ stopPre), "P_C18_ThreadExits")
                         \cup If(IsAr /\ stopRet /\ left, "P_C18_HelpersGone")
                         \cup If(IsAr /\ ~(nspawn - 1 <= Line.count /\ Line.count <= trigTotal), "P_C18_RestartCount")
         /\ UNCHANGED <<now, arrived, ndeliv, pend, stopCalled, stopRet, stopPre, ready, alive, nspawn, started, trigAvail,
                        trigTotal, cbMark>>
DeadlockLine == /\ At("deadlock") /\ Step
                /\ viol' = viol \cup If(IsDeb /\ stopCalled /\ ~(AllowD8 /\ stopPre), "P_C18_ThreadExits")
                                \cup If(~(IsDeb /\ stopCalled) /\ ~(IsAr /\ H.debounced /\ stopCalled /\ AllowD8 /\ stopPre),
                                        "P_C18_StopReturns")
                /\ UNCHANGED <<now, arrived, ndeliv, pend, stopCalled, stopRet, stopPre, ready, alive, nspawn, started, trigAvail,
                               trigTotal, cbMark>>

\* the scheduler cut the execution: it did not come to rest (a run-away restart loop)
StepLimitLine == /\ At("steplimit") /\ Step
                 /\ viol' = viol \cup {"P_C18_ComesToRest"}
                 /\ UNCHANGED <<now, arrived, ndeliv, pend, stopCalled, stopRet, stopPre, ready, alive, nspawn, started, trigAvail,
                                trigTotal, cbMark>>

Next == TLCGet(BIG + tid) = 0 /\
        (CallEv \/ RetEv \/ Batch \/ BatchRet \/ ProcLine \/ CallOther \/ RetOther \/ ExcLine \/ Uncaught \/ Tick \/ Ready
         \/ DbStop \/ Quiescent \/ Final \/ DeadlockLine \/ StepLimitLine \/ \E t \in AllThreads : LinEv(t))
Spec == Init /\ [][Next]_vars

Report == Progress(tid, l, Len(Tr), viol)
PostCond == Post
=============================================================================
