SPECIFICATION Spec
CONSTANTS
  MaxOps = 2
  SplitPairs = TRUE
  RenameTwice = FALSE
  NonRecDirs = FALSE
  NonRecCross = FALSE
  B2B = TRUE
  WithRoot = TRUE
  InodeReuse = FALSE
  StickyCreated = FALSE
  ViewSkipInCreatedRemoved = FALSE
  RecModes = {TRUE}
INVARIANT Xlat_RenameIsOneMovedEvent
CHECK_DEADLOCK FALSE
