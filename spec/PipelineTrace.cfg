SPECIFICATION Spec
CONSTRAINT Report
POSTCONDITION PostCond
CHECK_DEADLOCK FALSE
