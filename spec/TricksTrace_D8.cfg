SPECIFICATION Spec
CONSTANTS
  AllowD8 = TRUE
  HardOrder = TRUE
CONSTRAINT Report
POSTCONDITION PostCond
CHECK_DEADLOCK FALSE
