SPECIFICATION Spec
CONSTANT AllowD8 = TRUE
CONSTRAINT Report
POSTCONDITION PostCond
CHECK_DEADLOCK FALSE
