"""Parallel exploration of scenarios on the real code under detsched (DESIGN §5.2).

A *scenario* is `module:function`; function(params) returns program(sched) -> result dict, where the
black-box trace is in sched.trace (or result["trace"] if given).  Every execution yields a record
    {"trace": [...], "outcome": str, "choices": [...], "uncaught": [...], "extra": {...}}
Workers de-duplicate by trace hash and return unique records with multiplicities.
"""

from __future__ import annotations

import hashlib
import importlib
import json
import multiprocessing as mp
import os

from . import detsched

_CTX = mp.get_context("fork")


def _resolve(spec):
    mod, fn = spec.split(":")
    return getattr(importlib.import_module(mod), fn)


def _key(rec):
    h = hashlib.sha1()
    for ev in rec["trace"]:
        h.update(json.dumps({k: v for k, v in ev.items() if k != "i"}, sort_keys=True, default=str).encode())
    h.update(rec["outcome"].encode())
    return h.hexdigest()


def execute(scenario, params, strategy, *, sched_kw=None):
    """One execution.  Returns the record."""
    make = _resolve(scenario)
    program = make(params)
    kw = dict(sched_kw or {})
    kw.update(getattr(program, "sched_kw", {}))
    s = detsched.run(program, strategy, **kw)
    res = s.result if isinstance(getattr(s, "result", None), dict) else {}
    trace = res.get("trace", s.trace)
    if s.outcome == "deadlock" and (not trace or trace[-1].get("e") != "deadlock"):
        trace = list(trace) + [{"t": "sched", "e": "deadlock", "info": s.deadlock_info}]
    rec = {
        "trace": trace,
        "outcome": s.outcome,
        "error": s.error,
        "uncaught": s.uncaught,
        "steps": s.steps,
        "extra": {k: v for k, v in res.items() if k != "trace"},
    }
    return rec, s


def _dfs_job(args):
    scenario, params, bound, prefix0, max_execs = args
    uniq = {}
    count = [0]
    bad = []

    def run_one(prefix):
        st = detsched.PrefixStrategy(prefix)
        rec, s = execute(scenario, params, st)
        rec["choices"] = [r[2] for r in st.record]
        return st.record, rec

    def on_result(prefix, record, rec):
        count[0] += 1
        if rec["outcome"] in ("error", "divergence"):
            bad.append(rec)
            return
        k = _key(rec)
        if k in uniq:
            uniq[k]["n"] += 1
        else:
            rec["n"] = 1
            uniq[k] = rec

    detsched.dfs_explore(run_one, bound, prefix0=prefix0, on_result=on_result, max_execs=max_execs)
    return count[0], list(uniq.values()), bad[:3]


def _rand_job(args):
    scenario, params, kind, seeds, extra = args
    uniq = {}
    n = 0
    bad = []
    for seed in seeds:
        if kind == "pct":
            tail = detsched.PCTStrategy(seed, depth=extra.get("depth", 3), est_steps=extra.get("est_steps", 300))
        else:
            tail = detsched.RandomStrategy(seed, stickiness=extra.get("stickiness", 0.0))
        st = detsched.PrefixStrategy((), tail=tail)
        p = dict(params)
        if extra.get("seed_param"):
            p[extra["seed_param"]] = seed
        rec, s = execute(scenario, p, st)
        rec["choices"] = [r[2] for r in st.record]
        rec["seed"] = seed
        n += 1
        if rec["outcome"] in ("error", "divergence"):
            bad.append(rec)
            continue
        k = _key(rec)
        if k in uniq:
            uniq[k]["n"] += 1
        else:
            rec["n"] = 1
            uniq[k] = rec
    return n, list(uniq.values()), bad[:3]


class ExploreError(Exception):
    pass


def _merge(results):
    total = 0
    uniq = {}
    for n, recs, bad in results:
        total += n
        if bad:
            b = bad[0]
            raise ExploreError(f"scenario failed in the harness: outcome={b['outcome']} error={b['error']}")
        for r in recs:
            k = _key(r)
            if k in uniq:
                uniq[k]["n"] += r["n"]
            else:
                uniq[k] = r
    return total, list(uniq.values())


def dfs(scenario, params, bound, *, jobs=16, split_depth=3, max_execs_per_job=None):
    """Exhaustive bounded-preemption enumeration, split over processes.  Returns (executions, unique records)."""

    def run_one(prefix):
        st = detsched.PrefixStrategy(prefix)
        rec, s = execute(scenario, params, st)
        if rec["outcome"] in ("error", "divergence"):
            raise ExploreError(f"scenario failed in the harness: outcome={rec['outcome']} error={rec['error']}")
        return st.record, rec

    prefixes = detsched.frontier_prefixes(run_one, bound, split_depth) if jobs > 1 else [[]]
    args = [(scenario, params, bound, p, max_execs_per_job) for p in prefixes]
    if jobs > 1 and len(args) > 1:
        with _CTX.Pool(min(jobs, len(args))) as pool:
            results = pool.map(_dfs_job, args, chunksize=1)
    else:
        results = [_dfs_job(a) for a in args]
    return _merge(results)


def sample(scenario, params, seeds, *, kind="random", jobs=16, extra=None):
    seeds = list(seeds)
    extra = extra or {}
    k = max(1, min(jobs, len(seeds)))
    chunks = [seeds[i::k] for i in range(k)]
    args = [(scenario, params, kind, c, extra) for c in chunks if c]
    if k > 1:
        with _CTX.Pool(k) as pool:
            results = pool.map(_rand_job, args, chunksize=1)
    else:
        results = [_rand_job(a) for a in args]
    return _merge(results)


def replay(scenario, params, choices):
    st = detsched.PrefixStrategy(choices)
    rec, s = execute(scenario, params, st)
    rec["choices"] = [r[2] for r in st.record]
    return rec
