"""Parallel exploration of scenarios on the real code under detsched (DESIGN §5.2).

A *scenario* is `module:function`; function(params) returns program(sched) -> result dict, where the
black-box trace is in sched.trace (or result["trace"] if given).  Every execution yields a record
    {"trace": [...], "outcome": str, "choices": [...], "uncaught": [...], "extra": {...}}
Workers de-duplicate by trace hash and return unique records with multiplicities.
"""

from __future__ import annotations

import hashlib
import importlib
import json
import multiprocessing as mp
import os

from . import detsched

_CTX = mp.get_context("fork")


def _resolve(spec):
    mod, fn = spec.split(":")
    return getattr(importlib.import_module(mod), fn)


def _key(rec):
    h = hashlib.sha1()
    for ev in rec["trace"]:
        h.update(json.dumps({k: v for k, v in ev.items() if k != "i"}, sort_keys=True, default=str).encode())
    h.update(rec["outcome"].encode())
    return h.hexdigest()


def execute(scenario, params, strategy, *, sched_kw=None):
    """One execution.  Returns the record."""
    make = _resolve(scenario)
    program = make(params)
    kw = dict(sched_kw or {})
    kw.update(getattr(program, "sched_kw", {}))
    s = detsched.run(program, strategy, **kw)
    res = s.result if isinstance(getattr(s, "result", None), dict) else {}
    trace = res.get("trace", s.trace)
    if s.outcome == "deadlock" and (not trace or trace[-1].get("e") != "deadlock"):
        trace = list(trace) + [{"t": "sched", "e": "deadlock", "info": s.deadlock_info}]
    rec = {
        "trace": trace,
        "outcome": s.outcome,
        "error": s.error,
        "uncaught": s.uncaught,
        "steps": s.steps,
        "extra": {k: v for k, v in res.items() if k != "trace"},
    }
    return rec, s


def _dfs_job(args):
    scenario, params, bound, stack0, max_execs = args
    uniq = {}
    count = [0]
    bad = []
    leftover = []

    def run_one(prefix):
        st = detsched.PrefixStrategy(prefix)
        rec, s = execute(scenario, params, st)
        rec["choices"] = [r[2] for r in st.record]
        return st.record, rec

    def on_result(prefix, record, rec):
        count[0] += 1
        if rec["outcome"] in ("error", "divergence"):
            bad.append(rec)
            return
        k = _key(rec)
        if k in uniq:
            uniq[k]["n"] += 1
        else:
            rec["n"] = 1
            uniq[k] = rec

    detsched.dfs_explore(run_one, bound, stack0=stack0, on_result=on_result, max_execs=max_execs, leftover=leftover)
    return count[0], list(uniq.values()), bad[:3], leftover


def _rand_job(args):
    scenario, params, kind, seeds, extra = args
    uniq = {}
    n = 0
    bad = []
    for seed in seeds:
        if kind == "pct":
            tail = detsched.PCTStrategy(seed, depth=extra.get("depth", 3), est_steps=extra.get("est_steps", 300))
        else:
            tail = detsched.RandomStrategy(seed, stickiness=extra.get("stickiness", 0.0))
        st = detsched.PrefixStrategy((), tail=tail)
        p = dict(params)
        if extra.get("seed_param"):
            p[extra["seed_param"]] = seed
        rec, s = execute(scenario, p, st)
        rec["choices"] = [r[2] for r in st.record]
        rec["seed"] = seed
        n += 1
        if rec["outcome"] in ("error", "divergence"):
            bad.append(rec)
            continue
        k = _key(rec)
        if k in uniq:
            uniq[k]["n"] += 1
        else:
            rec["n"] = 1
            uniq[k] = rec
    return n, list(uniq.values()), bad[:3]


class ExploreError(Exception):
    pass


def _merge(results):
    total = 0
    uniq = {}
    for n, recs, bad in [r[:3] for r in results]:
        total += n
        if bad:
            b = bad[0]
            raise ExploreError(f"scenario failed in the harness: outcome={b['outcome']} error={b['error']}")
        for r in recs:
            k = _key(r)
            if k in uniq:
                uniq[k]["n"] += r["n"]
            else:
                uniq[k] = r
    return total, list(uniq.values())


def dfs(scenario, params, bound, *, jobs=16, split_depth=3, max_execs_per_job=None, chunk=250, pool=None, cap=None, info=None):
    """Exhaustive bounded-preemption enumeration with dynamic work splitting over processes: a job explores at
    most `chunk` executions of its subtrees and hands the unexplored stack entries back as new jobs.
    Returns (executions, unique records)."""
    if jobs <= 1:
        n, recs, bad, _ = _dfs_job((scenario, params, bound, [[]], None))
        return _merge([(n, recs, bad)])
    own = pool is None
    if own:
        pool = _CTX.Pool(jobs)
    try:
        queue = [[[]]]  # list of stacks
        pending = []
        results = []
        done_n = 0
        while queue or pending:
            if cap is not None and done_n >= cap:
                if info is not None:
                    info["capped"] = True    # not exhaustive: the remaining subtrees are dropped
                break
            while queue and len(pending) < 2 * jobs:
                st = queue.pop()
                pending.append(pool.apply_async(_dfs_job, ((scenario, params, bound, st, chunk),)))
            # wait for any
            done = [p for p in pending if p.ready()]
            if not done:
                pending[0].wait(0.05)
                continue
            for p in done:
                pending.remove(p)
                n, recs, bad, left = p.get()
                done_n += n
                results.append((n, recs, bad))
                if bad:
                    break
                # split leftovers into several jobs to keep all workers busy
                if left:
                    k = max(1, min(len(left), jobs))
                    for i in range(k):
                        part = left[i::k]
                        if part:
                            queue.append(part)
    finally:
        if own:
            pool.terminate()
            pool.join()
    return _merge(results)


def sample(scenario, params, seeds, *, kind="random", jobs=16, extra=None):
    seeds = list(seeds)
    extra = extra or {}
    k = max(1, min(jobs, len(seeds)))
    chunks = [seeds[i::k] for i in range(k)]
    args = [(scenario, params, kind, c, extra) for c in chunks if c]
    if k > 1:
        with _CTX.Pool(k) as pool:
            results = pool.map(_rand_job, args, chunksize=1)
    else:
        results = [_rand_job(a) for a in args]
    return _merge(results)


def replay(scenario, params, choices):
    st = detsched.PrefixStrategy(choices)
    rec, s = execute(scenario, params, st)
    rec["choices"] = [r[2] for r in st.record]
    return rec
