"""The OS seam (DESIGN §5.3): the real kernel, under control.

Installed on the shimmed watchdog.observers.inotify_c module: its `os` global is replaced by a proxy that
intercepts pipe/read/write/close, the three inotify CFUNCTYPE objects are wrapped, and the select shim's poll()
consults the seam.  Every intercepted call is a scheduler yield point and a trace line (`sys`), accepts fault
directives, and is checked against a *descriptor shadow table*: any use of a descriptor after it was closed is
logged as use_after_close / double_close and answered with EBADF without touching the real number.
"""

from __future__ import annotations

import ctypes
import errno
import os as _os
import select as _select
import struct

from . import detsched


class Seam:
    def __init__(self, world, *, split_reads=False, log=True):
        self.world = world
        self.mod = world.mod("observers.inotify_c")
        self.sel = world.shims["select"]
        self.split_reads = split_reads
        self.log_on = log
        self.fds = {}  # real fd -> [logical name, state]
        self.counts = {}
        self.faults = {}  # (call, n) -> errno ; n counts calls of that kind from 1
        self.ncalls = {}
        self.rbuf = {}  # inotify fd -> bytes drained from the kernel, not yet handed to the library
        self.violations = []  # ("use_after_close"|"double_close", call, fd name)
        self.raw_events = []  # every raw inotify event handed to the library (wd, mask, cookie, name)
        self._orig = {}
        self.drop_dir_noise = False  # drop OPEN|ISDIR / CLOSE_NOWRITE|ISDIR (the library's own directory listings)
        self.script = []  # scripted native batches (bytes) handed out instead of kernel data (C08)
        self.script_fd = None
        self.on_script_read = None
        self.root = None  # bytes: paths are logged relative to it (scratch directory names are random)

    def rel(self, path):
        b = _os.fsencode(path)
        if self.root and (b == self.root or b.startswith(self.root + b"/")):
            return "R" + _os.fsdecode(b[len(self.root):])
        return _os.fsdecode(b)

    # ---- install / remove
    def install(self):
        m = self.mod
        self._orig = {"os": m.os, "init": m.inotify_init, "add": m.inotify_add_watch, "rm": m.inotify_rm_watch,
                      "seam": self.sel.__dict__.get("_seam")}
        m.os = _OsProxy(self)
        m.inotify_init = self._inotify_init
        m.inotify_add_watch = self._inotify_add_watch
        m.inotify_rm_watch = self._inotify_rm_watch
        self.sel.__dict__["_seam"] = self
        return self

    def remove(self):
        m = self.mod
        m.os = self._orig["os"]
        m.inotify_init = self._orig["init"]
        m.inotify_add_watch = self._orig["add"]
        m.inotify_rm_watch = self._orig["rm"]
        self.sel.__dict__["_seam"] = self._orig["seam"]

    def cleanup(self):
        """Close descriptors the library leaked (counted by the caller first)."""
        leaked = self.open_fds()
        for fd in list(self.fds):
            if self.fds[fd][1] == "open":
                try:
                    _os.close(fd)
                except OSError:
                    pass
                self.fds[fd][1] = "reaped"
        return leaked

    def open_fds(self):
        return sorted(v[0] for v in self.fds.values() if v[1] == "open")

    # ---- helpers
    def _name(self, kind):
        n = self.counts.get(kind, 0) + 1
        self.counts[kind] = n
        return f"{kind}{n}"

    def _track(self, fd, kind):
        self.fds[fd] = [self._name(kind), "open"]
        return self.fds[fd][0]

    def _count(self, call):
        n = self.ncalls.get(call, 0) + 1
        self.ncalls[call] = n
        return n

    def _fault(self, call):
        n = self._count(call)
        return self.faults.get((call, n))

    def _sched(self):
        return detsched._CUR

    def _log(self, call, **kw):
        s = self._sched()
        if s is not None and self.log_on:
            s.log("sys", call=call, **kw)

    def _yield(self, call):
        s = self._sched()
        if s is not None and not s.aborting:
            s.yield_("sys:" + call)

    def fdname(self, fd):
        v = self.fds.get(fd)
        return v[0] if v else f"fd{fd}"

    def on_fd_use(self, call, fd):
        """Returns True if the descriptor may be used; logs a violation and returns False if it was closed."""
        v = self.fds.get(fd)
        if v is None:
            return True  # not ours
        if v[1] != "open":
            kind = "double_close" if call == "close" else "use_after_close"
            self.violations.append((kind, call, v[0]))
            sc = self._sched()
            if sc is not None and self.log_on:
                sc.log(kind, fd=v[0], by=call)
            return False
        return True

    # ---- inotify functions
    def _inotify_init(self):
        self._yield("inotify_init")
        f = self._fault("inotify_init")
        if f:
            ctypes.set_errno(f)
            self._log("inotify_init", res=-1, errno=errno.errorcode.get(f))
            return -1
        fd = self._orig["init"]()
        if fd >= 0:
            nm = self._track(fd, "ino")
            self._log("inotify_init", res=nm)
        return fd

    def _inotify_add_watch(self, fd, path, mask):
        self._yield("inotify_add_watch")
        f = self._fault("inotify_add_watch")
        if not self.on_fd_use("inotify_add_watch", fd):
            ctypes.set_errno(errno.EBADF)
            return -1
        if f:
            ctypes.set_errno(f)
            self._log("inotify_add_watch", fd=self.fdname(fd), path=self.rel(path), res=-1, errno=errno.errorcode.get(f))
            return -1
        wd = self._orig["add"](fd, path, mask)
        en = ctypes.get_errno() if wd == -1 else 0
        self._log("inotify_add_watch", fd=self.fdname(fd), path=self.rel(path), res=wd,
                  errno=errno.errorcode.get(en) if en else None)
        if wd == -1:
            ctypes.set_errno(en)
        return wd

    def _inotify_rm_watch(self, fd, wd):
        self._yield("inotify_rm_watch")
        if not self.on_fd_use("inotify_rm_watch", fd):
            ctypes.set_errno(errno.EBADF)
            return -1
        r = self._orig["rm"](fd, wd)
        self._log("inotify_rm_watch", fd=self.fdname(fd), wd=wd, res=r)
        return r

    # ---- poll (called by the select shim)
    def poll(self, pobj, timeout):
        s = self._sched()
        for fd in pobj._fds:
            if not self.on_fd_use("poll", fd):
                raise OSError(errno.EBADF, "Bad file descriptor (shadow table)")
        res = []

        def ready():
            nonlocal res
            res = pobj._p.poll(0)
            # data already drained into the shim buffer counts as readable
            for fd, b in self.rbuf.items():
                if b and fd in pobj._fds and not any(f == fd for f, _ in res):
                    res = res + [(fd, _select.POLLIN)]
            if self.script and self.script_fd in pobj._fds and not any(f == self.script_fd for f, _ in res):
                res = res + [(self.script_fd, _select.POLLIN)]
            return bool(res)

        wake = None if timeout is None or timeout < 0 else s.now + timeout / 1000.0
        s.yield_("poll", pobj, enabled=ready, wake=wake)
        for fd in pobj._fds:
            if not self.on_fd_use("poll", fd):
                raise OSError(errno.EBADF, "Bad file descriptor (shadow table)")
        ready()
        self._log("poll", res=sorted(self.fdname(fd) for fd, _ in res))
        return res

    # ---- os functions
    def os_pipe(self):
        self._yield("pipe")
        f = self._fault("pipe")
        if f:
            self._log("pipe", res=-1, errno=errno.errorcode.get(f))
            raise OSError(f, _os.strerror(f))
        r, w = _os.pipe()
        a = self._track(r, "kr")
        b = self._track(w, "kw")
        self._log("pipe", res=[a, b])
        return r, w

    def os_close(self, fd):
        self._yield("close")
        if fd in self.fds:
            if not self.on_fd_use("close", fd):
                raise OSError(errno.EBADF, "Bad file descriptor (shadow table)")
            self.fds[fd][1] = "closed"
            self._log("close", fd=self.fds[fd][0])
            self.rbuf.pop(fd, None)
        return _os.close(fd)

    def os_write(self, fd, data):
        self._yield("write")
        if fd in self.fds:
            if not self.on_fd_use("write", fd):
                raise OSError(errno.EBADF, "Bad file descriptor (shadow table)")
            self._log("write", fd=self.fds[fd][0])
        return _os.write(fd, data)

    def os_read(self, fd, n):
        if fd not in self.fds or not self.fds[fd][0].startswith("ino"):
            if fd in self.fds and not self.on_fd_use("read", fd):
                raise OSError(errno.EBADF, "Bad file descriptor (shadow table)")
            return _os.read(fd, n)
        self._yield("read")
        if not self.on_fd_use("read", fd):
            raise OSError(errno.EBADF, "Bad file descriptor (shadow table)")
        if self.script and fd == self.script_fd:
            data = self.script.pop(0)
            if self.on_script_read:
                self.on_script_read(data)
            return data
        buf = self.rbuf.get(fd, b"")
        # drain the kernel (non-blocking: only if readable)
        p = _select.poll()
        p.register(fd, _select.POLLIN)
        while p.poll(0):
            chunk = _os.read(fd, 1 << 16)
            if not chunk:
                break
            buf += chunk
        # split into whole events
        evs = []
        i = 0
        while i + 16 <= len(buf):
            wd, mask, cookie, ln = struct.unpack_from("iIII", buf, i)
            if not (self.drop_dir_noise and (mask & 0x40000000) and (mask & 0x30) and not (mask & ~0x40000030)):
                evs.append(buf[i : i + 16 + ln])
            i += 16 + ln
        k = len(evs)
        if self.split_reads and k > 1:
            s = self._sched()
            k = 1 + s.choose(k, "read_split")
        out = b"".join(evs[:k])
        self.rbuf[fd] = b"".join(evs[k:])
        for e in evs[:k]:
            wd, mask, cookie, ln = struct.unpack_from("iIII", e, 0)
            self.raw_events.append((wd, mask, cookie, e[16:].rstrip(b"\0")))
        self._log("read", fd=self.fds[fd][0], n=k, left=len(evs) - k)
        return out


class _OsProxy:
    """Stands in for the `os` module inside watchdog.observers.inotify_c."""

    def __init__(self, seam):
        object.__setattr__(self, "_seam", seam)

    def __getattr__(self, k):
        s = object.__getattribute__(self, "_seam")
        if k == "pipe":
            return s.os_pipe
        if k == "close":
            return s.os_close
        if k == "write":
            return s.os_write
        if k == "read":
            return s.os_read
        return getattr(_os, k)
