"""Behaviour extraction from TLC (DESIGN §6.2): parse `-dump dot,actionlabels` graphs and compute a
transition cover (a set of walks from an initial state that together take every edge)."""

from __future__ import annotations

import collections
import re

from .tlc import parse_value

_NODE = re.compile(r'^(-?\d+) \[label="((?:[^"\\]|\\.)*)"(.*)\]\s*;?\s*$')
_EDGE = re.compile(r'^(-?\d+) -> (-?\d+) \[label="((?:[^"\\]|\\.)*)"')


def _unescape(s):
    return s.replace("\\n", "\n").replace('\\"', '"').replace("\\\\", "\\")


def parse_state(text):
    """'/\\ x = 1\n/\\ y = <<>>' -> {'x': 1, 'y': ()}"""
    d = {}
    parts = re.split(r"(?:^|\n)/\\ ", text)
    for part in parts:
        part = part.strip()
        if not part:
            continue
        k, _, v = part.partition(" = ")
        d[k.strip()] = parse_value(v)
    return d


def parse_label(lab):
    """'PutRead1(p1,1)' -> ('PutRead1', ('p1', 1))"""
    m = re.match(r"^(\w+)(?:\((.*)\))?$", lab.strip(), re.S)
    if not m:
        return lab, ()
    name, args = m.group(1), m.group(2)
    if args is None or args.strip() == "":
        return name, ()
    v = parse_value("<<" + args + ">>")
    return name, v


class Graph:
    def __init__(self):
        self.nodes = {}  # id -> state text
        self.init = []
        self.edges = []  # (src, dst, label)
        self.out = collections.defaultdict(list)
        self._parsed = {}

    def state(self, nid):
        if nid not in self._parsed:
            self._parsed[nid] = parse_state(self.nodes[nid])
        return self._parsed[nid]


def load_dot(path):
    g = Graph()
    with open(path) as f:
        for line in f:
            m = _EDGE.match(line)
            if m:
                a, b, lab = int(m.group(1)), int(m.group(2)), _unescape(m.group(3))
                g.edges.append((a, b, lab))
                g.out[a].append((b, lab))
                continue
            m = _NODE.match(line)
            if m:
                nid = int(m.group(1))
                g.nodes[nid] = _unescape(m.group(2))
                if "style = filled" in m.group(3):
                    g.init.append(nid)
    return g


def transition_cover(g, max_len=60, skip_labels=("Done",), rng=None):
    """Greedy transition cover.  Returns list of walks; a walk = (init_node, [(label, dst_node), ...])."""
    # BFS parents from the initial states
    parent = {}
    dq = collections.deque()
    for i in g.init:
        parent[i] = None
        dq.append(i)
    while dq:
        u = dq.popleft()
        for v, lab in g.out[u]:
            if v not in parent:
                parent[v] = (u, lab)
                dq.append(v)

    def path_to(u):
        p = []
        while parent[u] is not None:
            pu, lab = parent[u]
            p.append((lab, u))
            u = pu
        p.reverse()
        return u, p

    todo = [(a, b, lab) for (a, b, lab) in g.edges if lab.split("(")[0] not in skip_labels and a in parent]
    covered = set()
    walks = []
    for a, b, lab in todo:
        if (a, b, lab) in covered:
            continue
        root, p = path_to(a)
        walk = list(p)
        for (l2, n2), prev in zip(p, [root] + [x[1] for x in p]):
            covered.add((prev, n2, l2))
        walk.append((lab, b))
        covered.add((a, b, lab))
        cur = b
        while len(walk) < max_len:
            nxt = None
            for v, l2 in g.out[cur]:
                if (cur, v, l2) not in covered and l2.split("(")[0] not in skip_labels:
                    nxt = (v, l2)
                    break
            if nxt is None:
                break
            covered.add((cur, nxt[0], nxt[1]))
            walk.append((nxt[1], nxt[0]))
            cur = nxt[0]
        walks.append((root, walk))
    return walks, len(todo)
