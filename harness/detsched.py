"""Deterministic scheduler and threading/time/queue/select shims (DESIGN §5.2).

Real OS threads, one baton: exactly one *task* runs at a time.  Every shim primitive is a
yield point: the running task publishes (label, object, enabledness predicate, optional
wake-up time) and the scheduler's strategy decides who runs next.  Time is virtual.

Nothing in here imports watchdog.  Standard library only.
"""

from __future__ import annotations

import _thread
import itertools
import random as _random
import sys
import threading as _rt
import time as _rtime
import traceback

T0 = 1000.0  # virtual epoch (non-zero so that truthiness tests on timestamps behave)


class SchedAbort(BaseException):
    """Raised inside tasks to tear an execution down."""


class Deadlock(Exception):
    def __init__(self, info):
        super().__init__("deadlock: " + repr(info))
        self.info = info


class StepLimit(Exception):
    pass


class Divergence(Exception):
    """A replayed schedule asked for a task that is not enabled."""


_CUR: "Scheduler | None" = None


def SCHED() -> "Scheduler":
    s = _CUR
    if s is None:
        raise RuntimeError("detsched: shim primitive used outside a scheduled execution")
    return s


class Task:
    __slots__ = ("id", "name", "sem", "state", "label", "obj", "enabled", "wake", "thread", "real",
                 "manual", "fired", "quiesce", "exc", "kind")

    def __init__(self, tid, name, kind="lib"):
        self.id = tid
        self.name = name
        self.kind = kind
        self.sem = _rt.Semaphore(0)
        self.state = "new"  # new | parked | running | done
        self.label = "start"
        self.obj = None
        self.enabled = None
        self.wake = None
        self.thread = None
        self.real = None
        self.manual = False
        self.fired = False
        self.quiesce = False
        self.exc = None

    def is_enabled(self, now):
        if self.state == "done":
            return False
        if self.quiesce:
            return self.fired
        if self.enabled is None:
            if self.wake is None:
                return True
            return (self.fired if self.manual else now >= self.wake)
        if self.enabled():
            return True
        if self.wake is not None:
            return self.fired if self.manual else now >= self.wake
        return False

    def __repr__(self):
        return f"<Task {self.id}:{self.name} {self.state} at {self.label}>"


# --------------------------------------------------------------------------- strategies


class Strategy:
    """pick(sched, enabled_tasks) -> task ; choose(sched, n, label) -> int"""

    def pick(self, sched, enabled):
        raise NotImplementedError

    def choose(self, sched, n, label):
        return 0


class RandomStrategy(Strategy):
    def __init__(self, seed, stickiness=0.0):
        self.rng = _random.Random(seed)
        self.stickiness = stickiness

    def pick(self, sched, enabled):
        if len(enabled) == 1:
            return enabled[0]
        cur = sched.cur
        if self.stickiness and cur in enabled and self.rng.random() < self.stickiness:
            return cur
        return self.rng.choice(enabled)

    def choose(self, sched, n, label):
        return self.rng.randrange(n)


class PCTStrategy(Strategy):
    """Priority-based with d-1 random priority change points (Burckhardt et al.)."""

    def __init__(self, seed, depth=3, est_steps=400):
        self.rng = _random.Random(seed)
        self.prio = {}
        self.change = sorted(self.rng.randrange(1, est_steps) for _ in range(max(0, depth - 1)))
        self.low = 0

    def _p(self, t):
        if t.id not in self.prio:
            self.prio[t.id] = self.rng.random() + 1.0
        return self.prio[t.id]

    def pick(self, sched, enabled):
        while self.change and sched.steps >= self.change[0]:
            self.change.pop(0)
            if sched.cur is not None:
                self.low -= 1
                self.prio[sched.cur.id] = self.low
        return max(enabled, key=self._p)

    def choose(self, sched, n, label):
        return self.rng.randrange(n)


class PrefixStrategy(Strategy):
    """Follow a forced list of choice indices, then a default non-preemptive policy.

    Records every choice point (scheduling points with >1 enabled task and data choices)
    so that a DFS driver can enumerate alternatives.
    record entries: (kind, n_options, chosen_index, cur_index_or_None)
      kind 's' = scheduling choice among enabled tasks sorted by id, cur_index = index of the
      currently running task if it is enabled (choosing another one is a preemption);
      kind 'd' = data choice.
    """

    def __init__(self, prefix=(), tail=None):
        self.prefix = list(prefix)
        self.record = []
        self.tail = tail  # optional Strategy used after the prefix instead of the default policy

    def pick(self, sched, enabled):
        if len(enabled) == 1:
            return enabled[0]
        cur = sched.cur
        cur_idx = enabled.index(cur) if (cur in enabled and cur.state != "done") else None
        i = len(self.record)
        if i < len(self.prefix):
            c = self.prefix[i]
            if c >= len(enabled):
                raise Divergence(f"choice {i}: index {c} of {len(enabled)}")
        elif self.tail is not None:
            c = enabled.index(self.tail.pick(sched, enabled))
        else:
            c = cur_idx if cur_idx is not None else 0
        self.record.append(("s", len(enabled), c, cur_idx))
        return enabled[c]

    def choose(self, sched, n, label):
        if n <= 1:
            return 0
        i = len(self.record)
        if i < len(self.prefix):
            c = self.prefix[i]
            if c >= n:
                raise Divergence(f"data choice {i}: index {c} of {n}")
        elif self.tail is not None:
            c = self.tail.choose(sched, n, label)
        else:
            c = 0
        self.record.append(("d", n, c, None))
        return c


class NameReplayStrategy(Strategy):
    """Replay a schedule given as a list of task names (one per scheduling step) and data choices."""

    def __init__(self, names, data=()):
        self.names = list(names)
        self.data = list(data)
        self.i = 0
        self.j = 0

    def pick(self, sched, enabled):
        if self.i < len(self.names):
            n = self.names[self.i]
            self.i += 1
            for t in enabled:
                if t.name == n:
                    return t
            raise Divergence(f"step {self.i - 1}: task {n} not enabled; enabled={[t.name for t in enabled]}")
        cur = sched.cur
        return cur if cur in enabled else enabled[0]

    def choose(self, sched, n, label):
        if self.j < len(self.data):
            c = self.data[self.j]
            self.j += 1
            return c
        return 0


# --------------------------------------------------------------------------- scheduler


class Scheduler:
    def __init__(self, strategy, *, manual_timer=None, max_steps=100000, log_sched=False, white=False):
        self.strategy = strategy
        self.now = T0
        self.tasks: list[Task] = []
        self.cur: Task | None = None
        self.trace: list[dict] = []
        self.steps = 0
        self.max_steps = max_steps
        self.aborting = False
        self.deadlock_info = None
        self.manual_timer = manual_timer or (lambda task, label: False)
        self.log_sched = log_sched
        self.white = white  # log white-box primitive events
        self.schedule_names: list[str] = []
        self._names = {}
        self._objnames = {}
        self.uncaught: list[dict] = []
        self.main = self._new_task("main", kind="main")
        self.main.state = "running"
        self.main.real = _rt.current_thread()
        self.cur = self.main
        self.step_limit_hit = False
        self.divergence = None

    # -- naming
    def unique(self, base):
        n = self._names.get(base, 0) + 1
        self._names[base] = n
        return f"{base}#{n}"

    def name_obj(self, obj, base):
        n = self.unique(base)
        return n

    def _new_task(self, name, kind="lib"):
        t = Task(len(self.tasks), name, kind)
        self.tasks.append(t)
        return t

    # -- trace
    def log(self, e, **kw):
        rec = {"i": len(self.trace) + 1, "t": self.cur.name if self.cur else "?", "e": e, "now": self.now}
        rec.update(kw)
        self.trace.append(rec)
        return rec

    # -- core
    def yield_(self, label, obj=None, enabled=None, wake=None, quiesce=False):
        t = self.cur
        if self.aborting:
            raise SchedAbort
        if _rt.current_thread() is not t.real:
            raise RuntimeError(f"detsched: yield from a thread that does not hold the baton ({label})")
        t.label = label
        t.obj = obj
        t.enabled = enabled
        t.wake = wake
        t.quiesce = quiesce
        t.fired = False
        t.manual = bool(wake is not None and self.manual_timer(t, label))
        t.state = "parked"
        nxt = self._pick()
        if nxt is not t:
            self.cur = nxt
            nxt.state = "running"
            nxt.sem.release()
            t.sem.acquire()
        else:
            t.state = "running"
        # resumed
        timed_out = False
        if t.wake is not None and (t.enabled is None or not t.enabled()):
            timed_out = True
        t.enabled = None
        t.wake = None
        t.quiesce = False
        t.manual = False
        if self.aborting:
            if t is self.main and self.deadlock_info is not None:
                raise Deadlock(self.deadlock_info)
            if t is self.main and self.step_limit_hit:
                raise StepLimit(self.steps)
            if t is self.main and self.divergence is not None:
                raise Divergence(self.divergence)
            raise SchedAbort
        return timed_out

    def _pick(self) -> Task:
        self.steps += 1
        if self.steps > self.max_steps:
            self.step_limit_hit = True
            self.aborting = True
            return self.main
        while True:
            en = [x for x in self.tasks if x.is_enabled(self.now)]
            if en:
                try:
                    nxt = self.strategy.pick(self, en)
                except Divergence as d:
                    self.divergence = str(d)
                    self.aborting = True
                    return self.main
                if self.log_sched:
                    self.schedule_names.append(nxt.name)
                return nxt
            idle = getattr(self.strategy, "on_idle", None)
            if idle is not None:
                try:
                    if idle(self):
                        continue
                except Divergence as d:
                    self.divergence = str(d)
                    self.aborting = True
                    return self.main
            timers = [x for x in self.tasks if x.state == "parked" and x.wake is not None and not x.manual]
            if timers:
                w = min(x.wake for x in timers)
                if w > self.now:
                    self.now = w
                    self.trace.append({"i": len(self.trace) + 1, "t": "clock", "e": "tick", "now": self.now})
                continue
            qw = [x for x in self.tasks if x.state == "parked" and x.quiesce and not x.fired]
            if qw:
                for x in qw:
                    x.fired = True
                continue
            # nothing can run, no timer: deadlock (manual timers count as blocked)
            self.deadlock_info = [
                {"task": x.name, "at": x.label, "obj": getattr(x.obj, "name", None)}
                for x in self.tasks
                if x.state == "parked"
            ]
            self.aborting = True
            return self.main

    def _task_done(self, t: Task):
        """Called by a finishing task (not main): hand the baton on, do not wait."""
        t.state = "done"
        if self.aborting:
            return
        nxt = self._pick()
        self.cur = nxt
        nxt.state = "running"
        nxt.sem.release()

    # -- data choice
    def choose(self, n, label="data"):
        if n <= 1:
            return 0
        try:
            return self.strategy.choose(self, n, label)
        except Divergence as d:
            self.divergence = str(d)
            self.aborting = True
            if self.cur is self.main:
                raise
            self.cur = self.main
            self.main.state = "running"
            self.main.sem.release()
            raise SchedAbort from None

    # -- time control for drivers
    def pending_timers(self, manual_only=False):
        return [x for x in self.tasks if x.state == "parked" and x.wake is not None and (x.manual or not manual_only)]

    def fire_manual_timers(self, pred=None):
        """Advance virtual time to the earliest manual timer and fire every manual timer due then."""
        ts = [x for x in self.tasks if x.state == "parked" and x.wake is not None and x.manual and not x.fired
              and (pred is None or pred(x))]
        if not ts:
            return 0
        w = min(x.wake for x in ts)
        if w > self.now:
            self.now = w
            self.trace.append({"i": len(self.trace) + 1, "t": "clock", "e": "tick", "now": self.now})
        n = 0
        for x in ts:
            if x.wake <= self.now:
                x.fired = True
                n += 1
        return n

    def advance(self, dt):
        """Time passes although tasks may be runnable (a slow thread); logged with src='adv'."""
        self.now += dt
        self.trace.append({"i": len(self.trace) + 1, "t": "clock", "e": "tick", "now": self.now, "src": "adv"})

    def wait_quiescent(self):
        """Block the calling (driver) task until no other task can run and no automatic timer is pending."""
        self.yield_("quiesce", quiesce=True)

    def blocked_summary(self):
        return sorted((x.name, x.label) for x in self.tasks if x.state == "parked")

    def live_lib_tasks(self):
        return [x for x in self.tasks if x.kind == "lib" and x.state != "done"]

    # -- teardown
    def finish(self):
        """Abort every task that is still parked and wait for the real threads to exit."""
        self.aborting = True
        for x in self.tasks:
            if x is not self.main and x.state in ("parked", "new"):
                x.sem.release()
        for x in self.tasks:
            if x is not self.main and x.real is not None:
                x.real.join(5.0)


def run(program, strategy, **kw):
    """Run program(sched) as the main task under a fresh scheduler.  Returns the scheduler.

    The outcome is stored in sched.outcome: 'ok' | 'deadlock' | 'steplimit' | 'divergence' | 'error'."""
    global _CUR
    s = Scheduler(strategy, **kw)
    prev = _CUR
    _CUR = s
    s.outcome = "ok"
    s.error = None
    try:
        try:
            s.result = program(s)
        except Deadlock as d:
            s.outcome = "deadlock"
            s.trace.append({"i": len(s.trace) + 1, "t": "sched", "e": "deadlock", "now": s.now, "info": d.info})
        except StepLimit:
            s.outcome = "steplimit"
        except Divergence as d:
            s.outcome = "divergence"
            s.error = str(d)
        except SchedAbort:
            s.outcome = "deadlock" if s.deadlock_info else "aborted"
        except Exception as e:  # harness/program error
            s.outcome = "error"
            s.error = "".join(traceback.format_exception(type(e), e, e.__traceback__))
    finally:
        s.finish()
        _CUR = prev
    return s


# --------------------------------------------------------------------------- shim: threading


def _yield(label, obj=None, enabled=None, wake=None):
    return SCHED().yield_(label, obj, enabled, wake)


class Lock:
    _kind = "lock"

    def __init__(self):
        self._owner = None
        self.name = SCHED().unique(self._kind) if _CUR is not None else self._kind

    def acquire(self, blocking=True, timeout=-1):
        s = SCHED()
        if s.aborting:
            raise SchedAbort
        if not blocking:
            s.yield_("tryacq", self)
            if self._owner is None:
                self._take(s)
                return True
            return False
        if timeout is None or timeout < 0:
            s.yield_("acq", self, enabled=lambda: self._owner is None)
        else:
            to = s.yield_("acq", self, enabled=lambda: self._owner is None, wake=s.now + timeout)
            if self._owner is not None:
                return False
        self._take(s)
        return True

    def _take(self, s):
        self._owner = s.cur
        if s.white:
            s.log("acq", o=self.name)

    def release(self):
        s = SCHED()
        if self._owner is None:
            raise RuntimeError("release unlocked lock")
        self._owner = None
        if s.white:
            s.log("rel", o=self.name)
        if not s.aborting:
            s.yield_("rel", self)

    def locked(self):
        return self._owner is not None

    __enter__ = acquire

    def __exit__(self, *a):
        self.release()

    # Condition support
    def _is_owned(self):
        return self._owner is SCHED().cur

    def _release_save(self):
        self._owner = None
        s = SCHED()
        if s.white:
            s.log("rel", o=self.name)
        return None

    def _acquire_restore(self, saved):
        s = SCHED()
        self._owner = s.cur
        if s.white:
            s.log("acq", o=self.name)

    def _free_for(self, task):
        return self._owner is None

    def __repr__(self):
        return f"<shim {self.name} owner={getattr(self._owner, 'name', None)}>"


class RLock:
    _kind = "rlock"

    def __init__(self):
        self._owner = None
        self._count = 0
        self.name = SCHED().unique(self._kind) if _CUR is not None else self._kind

    def acquire(self, blocking=True, timeout=-1):
        s = SCHED()
        if s.aborting:
            raise SchedAbort
        me = s.cur
        if self._owner is me:
            self._count += 1
            return True
        if not blocking:
            s.yield_("tryacq", self)
            if self._owner is None:
                self._owner = s.cur
                self._count = 1
                if s.white:
                    s.log("acq", o=self.name)
                return True
            return False
        if timeout is None or timeout < 0:
            s.yield_("acq", self, enabled=lambda: self._owner is None)
        else:
            s.yield_("acq", self, enabled=lambda: self._owner is None, wake=s.now + timeout)
            if self._owner is not None:
                return False
        self._owner = s.cur
        self._count = 1
        if s.white:
            s.log("acq", o=self.name)
        return True

    def release(self):
        s = SCHED()
        if self._owner is not s.cur:
            if s.aborting:
                return
            raise RuntimeError("cannot release un-acquired lock")
        self._count -= 1
        if self._count == 0:
            self._owner = None
            if s.white:
                s.log("rel", o=self.name)
            if not s.aborting:
                s.yield_("rel", self)

    __enter__ = acquire

    def __exit__(self, *a):
        self.release()

    def _is_owned(self):
        return self._owner is SCHED().cur

    def _release_save(self):
        st = (self._owner, self._count)
        self._owner = None
        self._count = 0
        s = SCHED()
        if s.white:
            s.log("rel", o=self.name)
        return st

    def _acquire_restore(self, st):
        self._owner, self._count = st
        s = SCHED()
        if s.white:
            s.log("acq", o=self.name)

    def __repr__(self):
        return f"<shim {self.name} owner={getattr(self._owner, 'name', None)} n={self._count}>"


class Condition:
    def __init__(self, lock=None):
        if lock is None:
            lock = RLock()
        self._lock = lock
        self.acquire = lock.acquire
        self.release = lock.release
        self._waiters = []
        self.name = SCHED().unique("cond") if _CUR is not None else "cond"

    def __enter__(self):
        return self._lock.__enter__()

    def __exit__(self, *a):
        return self._lock.__exit__(*a)

    def _is_owned(self):
        return self._lock._is_owned()

    def wait(self, timeout=None):
        s = SCHED()
        if s.aborting:
            raise SchedAbort
        if not self._is_owned():
            raise RuntimeError("cannot wait on un-acquired lock")
        tok = [False]
        self._waiters.append(tok)
        saved = self._lock._release_save()
        if s.white:
            s.log("wait", o=self.name)
        try:
            wake = None if timeout is None else s.now + max(0.0, timeout)
            s.yield_("wait", self, enabled=lambda: tok[0], wake=wake)
            notified = tok[0]
            if not notified:
                try:
                    self._waiters.remove(tok)
                except ValueError:
                    pass
        finally:
            if not s.aborting:
                s.yield_("reacq", self._lock, enabled=lambda: self._lock._owner is None)
                self._lock._acquire_restore(saved)
        if s.white:
            s.log("wake", o=self.name, notified=notified)
        return notified

    def wait_for(self, predicate, timeout=None):
        s = SCHED()
        endtime = None
        waittime = timeout
        result = predicate()
        while not result:
            if waittime is not None:
                if endtime is None:
                    endtime = s.now + waittime
                else:
                    waittime = endtime - s.now
                    if waittime <= 0:
                        break
            self.wait(waittime)
            result = predicate()
        return result

    def notify(self, n=1):
        s = SCHED()
        if not self._is_owned():
            if s.aborting:
                return
            raise RuntimeError("cannot notify on un-acquired lock")
        k = 0
        while self._waiters and k < n:
            tok = self._waiters.pop(0)
            tok[0] = True
            k += 1
        if s.white:
            s.log("notify", o=self.name, woke=k)

    def notify_all(self):
        self.notify(len(self._waiters) + 1)

    notifyAll = notify_all


class Event:
    def __init__(self):
        self._flag = False
        self.name = SCHED().unique("event") if _CUR is not None else "event"

    def is_set(self):
        s = SCHED()
        if not s.aborting:
            s.yield_("isset", self)
        return self._flag

    isSet = is_set

    def set(self):
        s = SCHED()
        if not s.aborting:
            s.yield_("set", self)
        self._flag = True
        if s.white:
            s.log("set", o=self.name)

    def clear(self):
        self._flag = False

    def wait(self, timeout=None):
        s = SCHED()
        if s.aborting:
            raise SchedAbort
        wake = None if timeout is None else s.now + max(0.0, timeout)
        s.yield_("evwait", self, enabled=lambda: self._flag, wake=wake)
        return self._flag


class Semaphore:
    def __init__(self, value=1):
        self._value = value
        self.name = SCHED().unique("sem") if _CUR is not None else "sem"

    def acquire(self, blocking=True, timeout=None):
        s = SCHED()
        if not blocking:
            s.yield_("tryacq", self)
            if self._value > 0:
                self._value -= 1
                return True
            return False
        wake = None if timeout is None else s.now + timeout
        s.yield_("acq", self, enabled=lambda: self._value > 0, wake=wake)
        if self._value > 0:
            self._value -= 1
            return True
        return False

    def release(self, n=1):
        self._value += n
        s = SCHED()
        if not s.aborting:
            s.yield_("rel", self)

    __enter__ = acquire

    def __exit__(self, *a):
        self.release()


BoundedSemaphore = Semaphore

_main_thread_obj = None


class _Flag:
    """A boolean that also answers is_set() (CPython's Thread._started is an Event; code may ask either way)."""

    def __init__(self, v):
        self._v = bool(v)

    def __bool__(self):
        return self._v

    def is_set(self):
        return self._v

    isSet = is_set

    def __repr__(self):
        return f"_Flag({self._v})"


class Thread:
    _initialized = False

    def __init__(self, group=None, target=None, name=None, args=(), kwargs=None, *, daemon=None):
        self._target = target
        self._args = args
        self._kwargs = kwargs or {}
        self._given_name = name
        self._daemonic = bool(daemon) if daemon is not None else False
        self._started = _Flag(False)     # like threading.Thread._started: truthy once started, and has is_set()
        self._finished = False
        self._task = None
        self._initialized = True
        self._name = name

    @property
    def name(self):
        if self._task is not None:
            return self._task.name
        return self._name or type(self).__name__

    @name.setter
    def name(self, v):
        self._name = v

    def getName(self):
        return self.name

    def setName(self, v):
        self._name = v

    @property
    def daemon(self):
        return self._daemonic

    @daemon.setter
    def daemon(self, v):
        self._daemonic = bool(v)

    def setDaemon(self, v):
        self._daemonic = bool(v)

    def isDaemon(self):
        return self._daemonic

    @property
    def ident(self):
        return None if self._task is None else 10000 + self._task.id

    native_id = ident

    def start(self):
        s = SCHED()
        if s.aborting:
            raise SchedAbort
        if not self._initialized:
            raise RuntimeError("thread.__init__() not called")
        if self._started:
            raise RuntimeError("threads can only be started once")
        self._started = _Flag(True)
        base = self._given_name or type(self).__name__
        task = s._new_task(s.unique(base))
        task.thread = self
        self._task = task
        real = _rt.Thread(target=self._bootstrap, args=(s, task), daemon=True, name="detsched-" + task.name)
        task.real = real
        task.state = "parked"
        task.label = "start"
        real.start()
        s.log("thread_start", th=task.name, cls=type(self).__name__)
        s.yield_("started", self)

    def _bootstrap(self, s, task):
        task.sem.acquire()
        if s.aborting:
            task.state = "done"
            self._finished = True
            return
        try:
            self.run()
        except SchedAbort:
            pass
        except BaseException as e:  # uncaught in a library thread: a trace event (C07)
            if not s.aborting:
                tb = traceback.extract_tb(e.__traceback__)
                where = [f"{f.filename.rsplit('/', 1)[-1]}:{f.name}" for f in tb if "detsched" not in f.filename][-3:]
                rec = {"th": task.name, "cls": type(self).__name__, "exc": type(e).__name__, "msg": str(e)[:200],
                       "where": where}
                s.uncaught.append(rec)
                s.log("uncaught", **rec)
        finally:
            self._finished = True
            if not s.aborting:
                s.log("thread_exit", th=task.name, cls=type(self).__name__)
            s._task_done(task)

    def run(self):
        try:
            if self._target is not None:
                self._target(*self._args, **self._kwargs)
        finally:
            del self._target, self._args, self._kwargs

    def join(self, timeout=None):
        s = SCHED()
        if s.aborting:
            raise SchedAbort
        if not self._initialized:
            raise RuntimeError("Thread.__init__() not called")
        if not self._started:
            raise RuntimeError("cannot join thread before it is started")
        if self._task is s.cur:
            raise RuntimeError("cannot join current thread")
        wake = None if timeout is None else s.now + max(0.0, timeout)
        s.yield_("join", self, enabled=lambda: self._finished, wake=wake)

    def is_alive(self):
        s = SCHED()
        if not s.aborting:
            s.yield_("alive", self)
        return bool(self._started) and not self._finished

    isAlive = is_alive

    def __repr__(self):
        return f"<shim Thread {self.name}>"


class _MainThread(Thread):
    def __init__(self):
        super().__init__(name="MainThread")
        self._started = _Flag(True)


def current_thread():
    s = SCHED()
    t = s.cur
    if t.thread is None:
        mt = _MainThread()
        mt._task = t
        t.thread = mt
    return t.thread


currentThread = current_thread


def main_thread():
    s = SCHED()
    t = s.main
    if t.thread is None:
        mt = _MainThread()
        mt._task = t
        t.thread = mt
    return t.thread


def enumerate():  # noqa: A001
    s = SCHED()
    out = [main_thread()]
    for t in s.tasks:
        if t.thread is not None and t is not s.main and t.state != "done":
            out.append(t.thread)
    return out


def active_count():
    return len(enumerate())


def get_ident():
    return 10000 + SCHED().cur.id


get_native_id = get_ident


class local:
    def __init__(self):
        object.__setattr__(self, "_d", {})

    def _ns(self):
        return self._d.setdefault(SCHED().cur.id, {})

    def __getattr__(self, k):
        try:
            return self._ns()[k]
        except KeyError:
            raise AttributeError(k) from None

    def __setattr__(self, k, v):
        self._ns()[k] = v

    def __delattr__(self, k):
        self._ns().pop(k, None)


def excepthook(args):  # pragma: no cover - not used, uncaught errors are logged by _bootstrap
    pass


TIMEOUT_MAX = 1e9


class Timer(Thread):
    def __init__(self, interval, function, args=None, kwargs=None):
        super().__init__()
        self.interval = interval
        self.function = function
        self.args = args or []
        self.kwargs = kwargs or {}
        self.finished = Event()

    def cancel(self):
        self.finished.set()

    def run(self):
        self.finished.wait(self.interval)
        if not self.finished._flag:
            self.function(*self.args, **self.kwargs)
        self.finished.set()


def make_threading_module():
    import types

    m = types.ModuleType("threading")
    for k in ("Lock", "RLock", "Condition", "Event", "Semaphore", "BoundedSemaphore", "Thread", "Timer",
              "current_thread", "currentThread", "main_thread", "enumerate", "active_count", "get_ident",
              "get_native_id", "local", "excepthook", "TIMEOUT_MAX"):
        m.__dict__[k] = globals()[k]
    m.__dict__["_shim"] = True
    return m


# --------------------------------------------------------------------------- shim: time


def make_time_module():
    import types

    m = types.ModuleType("time")
    real = _rtime
    for k in dir(real):
        if not k.startswith("__"):
            m.__dict__[k] = getattr(real, k)

    def time():
        return SCHED().now

    def monotonic():
        return SCHED().now

    def sleep(d):
        s = SCHED()
        if s.aborting:
            raise SchedAbort
        s.yield_("sleep", None, enabled=lambda: False, wake=s.now + max(0.0, d))

    def time_ns():
        return int(SCHED().now * 1e9)

    m.time = time
    m.monotonic = monotonic
    m.perf_counter = monotonic
    m.sleep = sleep
    m.time_ns = time_ns
    m.monotonic_ns = time_ns
    m._shim = True
    return m


# --------------------------------------------------------------------------- shim: queue


def make_queue_module(threading_mod, time_mod):
    """CPython's own pure-Python queue module executed against the shims."""
    import importlib.util
    import types

    spec = importlib.util.find_spec("queue")
    src = open(spec.origin).read()
    m = types.ModuleType("queue")
    m.__file__ = spec.origin
    saved = {k: sys.modules.get(k) for k in ("threading", "time", "_queue")}
    sys.modules["threading"] = threading_mod
    sys.modules["time"] = time_mod
    sys.modules["_queue"] = None  # force the pure-Python SimpleQueue/Empty
    try:
        exec(compile(src, spec.origin, "exec"), m.__dict__)
    finally:
        for k, v in saved.items():
            if v is None:
                sys.modules.pop(k, None)
            else:
                sys.modules[k] = v
    import queue as _realq

    # exception identity must be the real one so harness code can catch queue.Empty
    m.Empty = _realq.Empty
    m.Full = _realq.Full
    m._shim = True
    return m


# --------------------------------------------------------------------------- attribute yield points


class YieldAttr:
    """Data descriptor making every read/write of an instance attribute a labelled yield point."""

    def __init__(self, name, default=None, log=False):
        self.name = name
        self.slot = "_ya_" + name
        self.default = default
        self.log = log

    def __get__(self, inst, owner):
        if inst is None:
            return self
        s = _CUR
        if s is not None and not s.aborting and _rt.current_thread() is s.cur.real:
            s.yield_("rd:" + self.name, inst)
        try:
            return inst.__dict__[self.slot]
        except KeyError:
            raise AttributeError(self.name) from None

    def __set__(self, inst, value):
        inst.__dict__[self.slot] = value
        s = _CUR
        if s is not None and not s.aborting and _rt.current_thread() is s.cur.real:
            if s.white:
                s.log("wr", a=self.name)
            s.yield_("wr:" + self.name, inst)


def install_yield_attr(cls, name):
    if isinstance(cls.__dict__.get(name), YieldAttr):
        return
    setattr(cls, name, YieldAttr(name))


# --------------------------------------------------------------------------- DFS driver


def dfs_explore(run_one, bound, *, max_execs=None, prefix0=(), on_result=None, stack0=None, leftover=None):
    """Stateless bounded-preemption DFS.

    run_one(prefix) -> (record, result): executes the program under PrefixStrategy(prefix) and
    returns the strategy's record.  Enumerates every schedule with at most `bound` preemptions
    (data choices and forced switches are free).  Returns the number of executions.
    A stack entry P stands for the subtree "follow P, branch only at positions >= len(P)"; when max_execs is
    reached the unexplored entries are appended to `leftover` (they are independent jobs).
    """
    stack = [list(p) for p in stack0] if stack0 is not None else [list(prefix0)]
    n = 0
    while stack:
        if max_execs is not None and n >= max_execs:
            if leftover is not None:
                leftover.extend(stack)
            break
        prefix = stack.pop()
        record, result = run_one(prefix)
        n += 1
        if on_result is not None:
            on_result(prefix, record, result)
        # preemptions used before each position
        pre = 0
        pres = []
        for (kind, k, c, cur) in record:
            pres.append(pre)
            if kind == "s" and cur is not None and c != cur:
                pre += 1
        for i in range(len(record) - 1, len(prefix) - 1, -1):
            kind, k, c, cur = record[i]
            base = [r[2] for r in record[:i]]
            for alt in range(k):
                if alt == c:
                    continue
                cost = 1 if (kind == "s" and cur is not None and alt != cur) else 0
                if pres[i] + cost > bound:
                    continue
                stack.append(base + [alt])
    return n


def frontier_prefixes(run_one, bound, depth):
    """Prefixes whose DFS subtrees (dfs_explore(prefix0=p)) partition the bounded schedule space."""
    leaves = []
    level = [[]]
    for _ in range(depth):
        nxt = []
        for p in level:
            record, _res = run_one(p)
            if len(record) <= len(p):
                leaves.append(p)
                continue
            pre = 0
            for (kind, k, c, cur) in record[: len(p)]:
                if kind == "s" and cur is not None and c != cur:
                    pre += 1
            kind, k, c, cur = record[len(p)]
            for alt in range(k):
                cost = 1 if (kind == "s" and cur is not None and alt != cur) else 0
                if pre + cost > bound:
                    continue
                nxt.append(p + [alt])
        level = nxt
        if not level:
            break
    return leaves + level


# --------------------------------------------------------------------------- line-level yield points


_MON_TOOL = 4
_mon_on = False
_mon_codes = set()


def _on_line(code, lineno):
    s = _CUR
    if s is None or s.aborting:
        return
    t = s.cur
    if t is None or _rt.current_thread() is not t.real:
        return
    s.yield_(f"line:{code.co_name}:{lineno}")


def _on_instruction(code, offset):
    s = _CUR
    if s is None or s.aborting:
        return
    t = s.cur
    if t is None or _rt.current_thread() is not t.real:
        return
    s.yield_(f"ins:{code.co_name}:{offset}")


_mon_ins_on = False
_mon_ins_codes = set()


def enable_instruction_yields(funcs):
    """Make every bytecode instruction of the given functions a yield point (sys.monitoring INSTRUCTION events, local to
    their code objects).  For the few lines that touch shared state without any lock: two reads in ONE expression are two
    yield points (line-level yield points cannot separate them)."""
    global _mon_on, _mon_ins_on
    mon = sys.monitoring
    if not _mon_on and not _mon_ins_on:
        try:
            mon.use_tool_id(_MON_TOOL, "detsched")
        except ValueError:
            pass
    if not _mon_ins_on:
        mon.register_callback(_MON_TOOL, mon.events.INSTRUCTION, _on_instruction)
        _mon_ins_on = True
    for f in funcs:
        code = getattr(f, "__code__", f)
        if code in _mon_ins_codes:
            continue
        _mon_ins_codes.add(code)
        cur = mon.get_local_events(_MON_TOOL, code)
        mon.set_local_events(_MON_TOOL, code, cur | mon.events.INSTRUCTION)


def enable_line_yields(funcs):
    """Make every source line of the given functions a yield point (sys.monitoring LINE events, local to their
    code objects; DESIGN §5.2).  Used for code that touches shared state without a lock."""
    global _mon_on
    mon = sys.monitoring
    if not _mon_on:
        try:
            mon.use_tool_id(_MON_TOOL, "detsched")
        except ValueError:
            pass
        mon.register_callback(_MON_TOOL, mon.events.LINE, _on_line)
        _mon_on = True
    for f in funcs:
        code = getattr(f, "__code__", f)
        if code in _mon_codes:
            continue
        _mon_codes.add(code)
        cur = mon.get_local_events(_MON_TOOL, code)
        mon.set_local_events(_MON_TOOL, code, cur | mon.events.LINE)
